"""C02 — Filtering an hourly collection selects exactly the requested time steps.

Model: lean/Ladybug/Model/Filter.lean (pure filters) and lean/Ladybug/Model/FilterObj.lean (object state
machine: setters, in-place cull, refused operations, immutable twins, the lazily filled `_datetimes`
slot) on Model/AP.lean, Model/Cal.lean; theorems: lean/Ladybug/Props/C02.lean; driver: drv_c02.
Tie: correspondence on the ops below (the model is hand-written from datacollection.py /
_datacollectionbase.py / datacollectionimmutable.py with fixes/C02_*.patch applied).
The oracle is written from the property statement with plain integer minutes of the year and the
stdlib calendar; it never looks at the model.

Stages that catch changes
  * correspondence, fresh object + one call (round 1/2) and HISTORIES on one object (round 3, op `hist`):
    the model's `step` against the real object after every operation of a generated history;
  * oracle, plain cases and histories (`_check_history`): after every step the observables the property
    speaks about (filter results, the pairs, the header period) are those of the public state the user
    established (`_Shadow`, plain Python); a refused operation leaves them as before;
  * process order (`_process_order`): the fixed corpus, one-coordinate families (same dates, other leap flag /
    timestep) and a sample of histories and plain cases in 3-4 fresh interpreters, rare classes first in one,
    last in another, shuffled in the rest; a failure that needs earlier cases carries `{"order": [...]}`.

Producers and their consumers (each consumer is exercised by correspondence and oracle, so that a producer
changed together with ONE consumer shows at the others):
  * HourlyDiscontinuousCollection._filter_by_moys_slow -> Disc.filter_by_moys -> Disc.filter_by_hoys,
    Disc.filter_by_analysis_period (+ the order sort), the same three on HourlyDiscontinuousCollectionImmutable,
    and on every Disc result of a continuous filter (chain);
  * HourlyContinuousCollection.filter_by_moys (index arithmetic) -> Cont.filter_by_hoys, the hour-window branch
    of Cont.filter_by_analysis_period, the immutable twin; compared with the search on to_discontinuous();
  * _get_analysis_period_subset -> both branches of Cont.filter_by_analysis_period; the result header -> every
    later filter of the result (ops `chain`);
  * the slice arithmetic -> whole-day branch; its result (a continuous collection) -> filters of the result;
  * `.datetimes` (lazily filled on the continuous class, overwritten by convert_to_culled_timestep) ->
    Cont.filter_by_moys, _filter_by_pattern/_range/_statement, to_discontinuous, moys_dict, duplicate, to_immutable;
  * `values` setter / _check_values -> constructors of all five classes and their immutable twins, `values = …`;
    `__setitem__`; convert_to_unit / _ip / _si (oracle only) -> `_values` seen by every filter;
  * _filter_by_pattern/_range/_statement -> filter_by_* of Base (daily, monthly, monthly-per-hour, discontinuous)
    and the three overrides of the continuous class; `_enumeration` (class map) -> result class of those;
  * filter_by_doys / filter_by_months / filter_by_months_per_hour -> their filter_by_analysis_period;
  * AnalysisPeriod.moys / hoys / doys_int / months_int / months_per_hour / __len__ / st_time / is_reversed
    (lazily computed `_timestamps_data`) -> all period filters: the same AnalysisPeriod OBJECT is re-used inside a
    history, with one of its listings read before the filter (`pre`).

Round 4 (kinds e-j of the third campaign) added
  (e) every operation on every concrete class: all plain oracle ops take `imm` (the immutable twin, 30-40 % of the
      sources), op `values` also runs on the monthly-per-hour class, op `period` with path `both` compares the
      index arithmetic and the search AS SEQUENCES (order of the period); filter kind `window-wrap` (hour window AND
      the filter wraps the year end: the only case in which the order of a continuous source differs from the period's),
      forced on every annual source;  theorem C02_twins_agree;
  (f) the same request as list / tuple / set / dict keys / generator / iter / map / zip (`shape`; one-shot iterables
      where the unchanged code reads the argument in one pass: continuous minute filter, both hour filters; the
      search-based filters test `x in arg` per step and get containers), the caller edits the request list and the
      returned collection afterwards (`result-aliases-argument`, history op `edit`), every result of a history is
      held and re-read after each later operation (`held-result-changed`), a second object of the class is asked
      first (`twin`);  theorem C02_request_order;
  (g) calls between anchored functions are fed inputs on which the plausible conventions differ: fractional hours on
      every sub-hourly timestep (hour vs minute vs integer hour), leap vs common year after 28 Feb, month numbers in
      non-sorted order, day-of-year vs date; each composite (hoys -> moys, period -> moys / doys / months / mph) is
      judged against the stdlib-calendar oracle;
  (h) `_allsteps_cases`: all 12 timesteps x (start of the year, far end, across the year end, 28/29 Feb, late) asked
      for ALL their steps by minute, by hour and by hour window; the far end of annual sources at 15/30/60 steps per
      hour (thorough); float values 1e-300 .. 1e16, signed zeros, 0.1+0.2 vs 0.3, neighbours in the last bit with
      range bounds that are values; the hour as `m / 60.0` and as `(doy-1)*24 + h + mi/60.0` (finding
      C02-cont-hoys-datetime-hoy where they differ);
  (i) periods built through every public entry point (`AP_FORMS`: from_string of the repr and of a hand-formatted
      text with two-digit fields / upper case / blanks, string and float arguments, from_dict with and without the
      default keys, duplicate, from_start_end_datetime, keyword arguments) for the header AND the filter, in the
      correspondence, the oracle and the histories; statements without blanks, with float literals, with parentheses;
  (j) branches of the anchored functions, each a counted stratum (`branch:*` / `oracle_branch:*` in evidence):
      Cont.filter_by_analysis_period: check_period:refused | whole-day one slice | two slices | window->moys
        (same-day, overnight, filter wraps);  _get_analysis_period_subset: annual source | clip none/start/end/both x
        plain/wrapping source (the two hour-clipping branches are unreachable: a continuous header is 0..23);
      Cont.filter_by_moys: plain source | wrapping source, minute before / after the year end;
      Cont.filter_by_hoys: hour kept | dropped (`foreign`);  Disc.filter_by_analysis_period: sort of a wrapping /
      plain filter;  _filter_by_pattern: shorter (dividing / non-dividing) | equal | longer | no len() (refused);
      value filters: empty result -> AssertionError re-raised;  AnalysisPeriod: reversed | plain, sub-hourly tail
      of `_calc_timestamps`, fast / slow `__len__`.
"""
import calendar
import contextlib
import io
import json
import os
import struct
import subprocess
import sys
from collections import Counter, OrderedDict
from datetime import datetime, timedelta

from harness.core import compare_batch, err_name, run_oracle_cases

PROP = 'C02'
PROOF_MODULES = ['Ladybug.Props.C02']
GREP_MODULES = ['Ladybug.Py', 'Ladybug.Model.Cal', 'Ladybug.Gen.DtTables', 'Ladybug.Proofs.CalLemmas',
                'Ladybug.Model.AP', 'Ladybug.Gen.ApTables', 'Ladybug.Proofs.C04Lemmas',
                'Ladybug.Proofs.C04Listings', 'Ladybug.Props.C08', 'Ladybug.Props.C04',
                'Ladybug.Model.Filter', 'Ladybug.Proofs.C02Lemmas', 'Ladybug.Proofs.C02Index', 'Ladybug.Proofs.C02Cyclic',
                'Ladybug.Proofs.C02Slice', 'Ladybug.Proofs.C02Order', 'Ladybug.Model.FilterObj', 'Ladybug.Proofs.C02Hist',
                'Ladybug.Drv.C02', 'Ladybug.DrvCore']
RULE = ('sources: annual | partial (1..120 days, boundary-biased starts incl. 28/29 Feb and both year ends) | '
        'year-wrapping (short Dec->Jan and long), all 12 timesteps (annual: small ones), both leap flags, values = '
        'position ids; run on the continuous object and on its to_discontinuous() copy, plus discontinuous '
        'sources with holes / unsorted steps. Filters relative to the source: whole-day period inside (also '
        'straddling the year end, first/last/single day, equal to the source), partly outside (clipped), hour '
        'windows incl. overnight, wrapping filters on annual sources, out-of-domain (outside, two-piece, '
        'timestep/leap mismatch); explicit minute / hour lists (sorted, shuffled, repeated, ~10 % not in the '
        'source / off grid / negative); patterns (shorter, equal, longer, empty, all false); ranges and four '
        'statement shapes on random integers with ties at the bounds; daily / monthly / monthly-per-hour '
        'collections by key lists and by period (leap-year daily collections with days 60 and 366, requests naming '
        '366 / 367 / 0, periods ending on or wrapping over 31 Dec, sub-hourly monthly-per-hour keys). '
        'Histories on one object (all five classes and their immutable twins, all 12 timesteps, both leap flags, '
        'partial / wrapping / 28-29 Feb / year-end periods, one-value collections): 3-14 operations drawn from '
        'filters of every kind (keys, hours, period with a re-used AnalysisPeriod object one of whose listings is '
        'read first, pattern, range incl. bounds of exactly 0 / 0.0 / -0.0 and bounds equal to a value, statement, '
        'plain look), the same question again with the same argument object, accepted setters (values = , '
        'coll[i] = incl. negative indices, convert_to_culled_timestep, unit conversions), refused operations '
        '(wrong length / empty / non-list / generator values, index out of range, invalid timestep, unknown unit, '
        'every setter on an immutable twin, to_discontinuous on a class without it, filters that fail), '
        'conversions to a twin (duplicate, to_immutable, to_mutable, to_discontinuous) and going on with the '
        'collection a filter returned; a question follows each non-read operation with probability 0.7 and a '
        'refused operation opens 15 % of the histories. Round 4: every source and filter period is built through one '
        'of ten public entry points of AnalysisPeriod (text, string / float arguments, dictionaries, copies); requests '
        'come as list / tuple / set / dict keys / generator / iter / map / zip where the code reads them in one pass; '
        'immutable twins of all five classes in the plain cases; hour-window filters that wrap the year end on annual '
        'sources; all 12 timesteps asked for all steps at both ends of the year; float values at the numeric edges; '
        'the caller edits results and request lists and keeps earlier results; a second object of the class is asked '
        'first. A case is non-trivial when the implementation returns a collection; distinct = distinct request line.')
TRUSTED_BASE = [
    'the model describes datacollection.py with the five fixes/C02_*.patch applied (year-wrapping continuous '
    'collections; time order of the discontinuous period filter); on a tree without them the check reports the '
    'violation',
    'modelled, not verified: a collection is the list of (date-time, value) pairs (len(values) == len(datetimes) is '
    'a constructor invariant); a date-time is its minute of the year plus the leap flag of the header (C08 '
    'bijection); values are opaque (free theorem: the filters only move values, checked with position ids)',
    'float index arithmetic int(moy / t_s - st_ind) is modelled over exact rationals (60 / timestep is exact for '
    'the 12 valid timesteps; for integer minutes the float quotient cannot cross an integer)',
    'filter_by_hoys: the float hour m / 60.0, its product with 60 and the membership test against '
    'AnalysisPeriod.hoys are computed with IEEE doubles by the driver; theorem C02_hoys assumes round(hoy(m) * 60) '
    '= m, which the check verifies for every minute of both years on every run',
    'eval() of the statement filter is a predicate parameter of the model; four statement shapes are compared',
    'object state machine (Model/FilterObj.lean): which reads fill the hidden `_datetimes` slot is modelled roughly '
    '(the slot is not observable; C02_read_pure shows it cannot matter while it is coherent); unit conversions and '
    'the monthly-per-hour class take part in the oracle histories only (not in the model); the twins are modelled '
    'by a mutability flag (their refusals are AttributeError for every setter / in-place operation)',
    'process-order runs use the same oracle in fresh interpreters; what they add is only the absence of state left '
    'by earlier cases',
    'whether the continuous class refuses an in-place cull to a non-dividing timestep (fixes/C13_continuous_cull_in_'
    'place_divisor.patch) is read off the source of the tree under test (AST: an assert with `%` in its own '
    'convert_to_culled_timestep); the driver is asked for the matching machine (stepS true / false), the oracle treats '
    'such a cull as a refused operation on a strict tree and as finding C02-cont-cull-nondividing-timestep otherwise',
    'the model takes requests as lists and periods as their eight fields: that the real filters answer alike for every '
    'container / one-shot iterable and for every way of building the period is established by feeding the same data '
    'in every shape on each run (sampled), not proved',
]
ASSUMPTIONS = [
    'reading of the statement: "time steps present in the collection" = the requested minutes are date-times of '
    'the source (lists without repeats); a period filter is in the domain when it lies inside the source, or when '
    'its whole days outside the source can be cut off leaving one run of days (hour windows through midnight '
    'only when inside); explicit lists are compared as multisets (the continuous path answers in request order, '
    'the search in source order), period filters as sequences in the period\'s own order',
    'CPython datetime is the reference calendar for the oracle',
]
LEVEL_TEXT = ('Machine-checked Lean 4 theorems over an executable, value-polymorphic model of the filters: the slow '
              'search returns exactly the source pairs whose minute is requested, in source order; the index '
              'arithmetic of continuous collections (non-wrapping and year-wrapping, all 12 timesteps, both leap '
              'flags) returns for every requested minute of the collection the pair at that minute, hence the same '
              'pairs as the search on the equivalent discontinuous collection; the whole-day continuous period '
              'filter (both slice shapes, any source period) returns exactly the run of source pairs at the steps of '
              'the clipped filter period in its chronological order under that period as header, and the '
              'constructor\'s length check holds; hour-window period filters and hour lists reduce to the minute '
              'path; the discontinuous period filter returns the requested pairs in the period\'s time order; '
              'pattern / range / statement / key filters (daily, monthly, monthly-per-hour, also by period) keep '
              'exactly the satisfying positions; propagation of validated_a_period; for the object state machine '
              '(setters, in-place cull, refused operations, immutable twins, conversions, chained filters, the lazily '
              'filled date-time slot): reads are pure and order-independent, a refused operation leaves every '
              'observation unchanged, and after any history (with in-place culls of continuous objects to a dividing '
              'timestep) every filter answers as on a fresh object built from the final public state, so the filter '
              'theorems hold for every reachable object; mutable and immutable twins answer alike, and the order of '
              'a request only permutes the answer of the index arithmetic. The model is compared with the real classes on '
              'structure-directed inputs and operation histories on every run.')
LEVEL_NOTE = ('Trusted: Lean kernel; axioms propext/Classical.choice/Quot.sound only; the correspondence run '
              '(agreement on generated inputs only); rational model of the float index arithmetic; IEEE part of '
              'filter_by_hoys isolated as a hypothesis that is checked exhaustively each run; Python sorted() '
              'modelled as a stable merge sort. Model and theorems describe the code with the five '
              'fixes/C02_*.patch applied.')
TECHNIQUE = ('Lean 4 proof (list induction, arithmetic-progression form of whole-day periods from the C04 theorems, '
             'cyclic-progression lemma for the two slice shapes, case split over the 12 timesteps, omega) about a model tied to datacollection.py by differential '
             'correspondence')

VALID_TS = (1, 2, 3, 4, 5, 6, 10, 12, 15, 20, 30, 60)


# ---------------------------------------------------------------------------------------------
# calendar helpers (stdlib only)


def _b(x):
    return '1' if x else '0'


def _ndays(leap):
    return 366 if leap else 365


def _nmin(leap):
    return 1440 * _ndays(leap)


def _doy(leap, m, d):
    y = 2016 if leap else 2017
    return (datetime(y, m, d) - datetime(y, 1, 1)).days + 1


def _date(leap, k):
    y = 2016 if leap else 2017
    d = datetime(y, 1, 1) + timedelta(days=(k - 1) % _ndays(leap))
    return d.month, d.day


def _mlen(leap, m):
    return calendar.monthrange(2016 if leap else 2017, m)[1]


def _fbits(x):
    return '%016x' % struct.unpack('<Q', struct.pack('<d', x))[0]


def _ref_moys(c):
    """Independent enumeration of the steps of a period (fields as stored), in the period's order."""
    sm, sd, sh, em, ed, eh, ts, leap = c
    step = 60 // ts
    n = _nmin(leap)
    s = (_doy(leap, sm, sd) - 1) * 1440 + sh * 60
    e = (_doy(leap, em, ed) - 1) * 1440 + eh * 60

    def inwin(mod):
        if sh <= eh:
            return (sh * 60 <= mod <= eh * 60) or (sh == 0 and eh == 23)
        return mod >= sh * 60 or mod <= eh * 60

    if s <= e:
        seq = range(s, e + 60, step)
        return [m for m in seq if inwin(m % 1440)]
    return [m for m in range(s, n, step) if inwin(m % 1440)] + \
           [m for m in range(0, e + 60, step) if inwin(m % 1440)]


def _ref_days(c):
    """Days of the year from the start day to the end day of a period, in order (cyclic)."""
    sm, sd, sh, em, ed, eh, ts, leap = c
    a, b = _doy(leap, sm, sd), _doy(leap, em, ed)
    if (a, sh) <= (b, eh):
        return list(range(a, b + 1))
    return list(range(a, _ndays(leap) + 1)) + list(range(1, b + 1))


def _line_ap(c):
    return '%d %d %d %d %d %d %d %s' % (c[0], c[1], c[2], c[3], c[4], c[5], c[6], _b(c[7]))


def _ints(l):
    return '%d %s' % (len(l), ' '.join(str(int(x)) for x in l)) if l else '0'


# ---------------------------------------------------------------------------------------------
# building objects of the implementation


@contextlib.contextmanager
def _quiet():
    with contextlib.redirect_stdout(io.StringIO()):
        yield


AP_FORMS = ('ctor', 'string', 'string2', 'strargs', 'floats', 'dict', 'dictmin', 'dup', 'startend', 'kwargs')


def _ap_text(c, fancy=False):
    """Text form of a period as AnalysisPeriod.__repr__ documents it; `fancy`: two-digit fields mixed with
    one-digit ones, upper-case words, extra blanks (all accepted by from_string on the unchanged tree)."""
    sm, sd, sh, em, ed, eh, ts, leap = c
    if not fancy:
        return '%d/%d to %d/%d between %d and %d @%d%s' % (sm, sd, em, ed, sh, eh, ts, '*' if leap else '')
    return ' %02d/%d  TO %d/%02d Between %02d AND %d  @%d %s' % (sm, sd, em, ed, sh, eh, ts, '* ' if leap else '')


def _mk_ap(c, form='ctor'):
    """The period with the fields `c`, built through one of the public entry points of AnalysisPeriod
    (kind (i): numbers as text, floats, dictionaries with and without the default keys, copies)."""
    from ladybug.analysisperiod import AnalysisPeriod
    c = tuple(c)
    sm, sd, sh, em, ed, eh, ts, leap = c
    with _quiet():
        if form == 'string':
            return AnalysisPeriod.from_string(_ap_text(c))
        if form == 'string2':
            return AnalysisPeriod.from_string(_ap_text(c, True))
        if form == 'strargs':
            return AnalysisPeriod(str(sm), str(sd), str(sh), str(em), str(ed), str(eh), ts, leap)
        if form == 'floats':
            return AnalysisPeriod(float(sm), float(sd), float(sh), float(em), float(ed), float(eh), ts, leap)
        if form == 'dict':
            return AnalysisPeriod.from_dict({'is_leap_year': leap, 'timestep': ts, 'end_hour': eh, 'end_day': ed,
                                             'end_month': em, 'st_hour': sh, 'st_day': sd, 'st_month': sm,
                                             'type': 'AnalysisPeriod'})
        if form == 'dictmin':          # keys that hold the documented default are left out
            d = {}
            for k, v, dflt in zip(('st_month', 'st_day', 'st_hour', 'end_month', 'end_day', 'end_hour', 'timestep',
                                   'is_leap_year'), c, (1, 1, 0, 12, 31, 23, 1, False)):
                if v != dflt:
                    d[k] = v
            return AnalysisPeriod.from_dict(d)
        if form == 'dup':
            return AnalysisPeriod(*c).duplicate()
        if form == 'startend':
            from ladybug.dt import DateTime
            return AnalysisPeriod.from_start_end_datetime(DateTime(sm, sd, sh, 0, leap), DateTime(em, ed, eh, 0, leap), ts)
        if form == 'kwargs':
            kw = dict(zip(('st_month', 'st_day', 'st_hour', 'end_month', 'end_day', 'end_hour', 'timestep',
                           'is_leap_year'), c))
            for k, dflt in (('st_month', 1), ('st_day', 1), ('st_hour', 0), ('end_month', 12), ('end_day', 31),
                            ('end_hour', 23), ('timestep', 1), ('is_leap_year', False)):
                if kw[k] == dflt:
                    del kw[k]
            return AnalysisPeriod(**kw)
        return AnalysisPeriod(*c)


SHAPES_ONCE = ('gen', 'iter', 'map', 'zip')          # can be iterated only once
SHAPES_MANY = ('list', 'tuple', 'set', 'dictkeys')   # containers


def _shape(items, shape):
    """The same data in another container / as a one-shot iterable (kind (f))."""
    items = list(items)
    if shape == 'tuple':
        return tuple(items)
    if shape == 'gen':
        return (x for x in items)
    if shape == 'iter':
        return iter(items)
    if shape == 'map':
        return map(lambda x: x, items)
    if shape == 'zip':
        return (x for x, _ in zip(items, items))
    if shape == 'set':
        return set(items)
    if shape == 'dictkeys':
        return OrderedDict((x, None) for x in reversed(items)).keys()
    return items


def _header(c, form='ctor'):
    from ladybug.header import Header
    from ladybug.datatype.generic import GenericType
    return Header(GenericType('Id', 'id'), 'id', _mk_ap(c, form))


_CACHE = OrderedDict()


def _cont(c, vals=None, form='ctor', imm=False):
    """Continuous source with position ids (cached) or explicit values; `form`: how the header period is
    built; `imm`: the immutable twin."""
    from ladybug.datacollection import HourlyContinuousCollection
    if vals is not None:
        coll = HourlyContinuousCollection(_header(c, form), list(vals))
        return coll.to_immutable() if imm else coll
    key = ('cont', c, form, imm)
    if key not in _CACHE:
        n = _ndays_of(c) * 24 * c[6]
        coll = HourlyContinuousCollection(_header(c, form), list(range(n)))
        _CACHE[key] = coll.to_immutable() if imm else coll
        while len(_CACHE) > 6:
            _CACHE.popitem(last=False)
    return _CACHE[key]


def _ndays_of(c):
    return len(_ref_days(c))


def _flagged(coll, validated):
    coll._validated_a_period = bool(validated)      # what from_dict / validate_analysis_period set
    return coll


def _disc(c, moys, vals=None, validated=False, form='ctor'):
    from ladybug.datacollection import HourlyDiscontinuousCollection
    from ladybug.dt import DateTime
    dts = [DateTime.from_moy(m, c[7]) for m in moys]
    return _flagged(HourlyDiscontinuousCollection(
        _header(c, form), list(vals) if vals is not None else list(range(len(moys))), dts), validated)


def _disc_of_cont(c, form='ctor', imm=False):
    key = ('disc', c, form, imm)
    if key not in _CACHE:
        coll = _cont(c, None, form).to_discontinuous()
        _CACHE[key] = coll.to_immutable() if imm else coll
        while len(_CACHE) > 6:
            _CACHE.popitem(last=False)
    return _CACHE[key]


def _daily(c, doys, vals=None, validated=False, form='ctor'):
    from ladybug.datacollection import DailyCollection
    return _flagged(DailyCollection(
        _header(c, form), list(vals) if vals is not None else list(range(len(doys))), list(doys)), validated)


def _monthly(c, months, vals=None, validated=False, form='ctor'):
    from ladybug.datacollection import MonthlyCollection
    return _flagged(MonthlyCollection(
        _header(c, form), list(vals) if vals is not None else list(range(len(months))), list(months)), validated)


def _mph(c, keys, validated=False, vals=None, form='ctor'):
    from ladybug.datacollection import MonthlyPerHourCollection
    return _flagged(MonthlyPerHourCollection(
        _header(c, form), list(vals) if vals is not None else list(range(len(keys))), [tuple(k) for k in keys]),
        validated)


def _ap_fields(ap):
    return (ap.st_month, ap.st_day, ap.st_hour, ap.end_month, ap.end_day, ap.end_hour, ap.timestep,
            bool(ap.is_leap_year))


def _show(coll):
    """Canonical text of a result collection (the model driver's format)."""
    from ladybug.datacollection import HourlyContinuousCollection, HourlyDiscontinuousCollection, \
        MonthlyPerHourCollection
    apf = _line_ap(_ap_fields(coll.header.analysis_period))
    vals = coll.values
    if isinstance(coll, HourlyContinuousCollection):
        return 'ok C %s %d %s' % (apf, len(vals), ' '.join(str(v) for v in vals))
    if isinstance(coll, HourlyDiscontinuousCollection):
        keys = [str(d.moy) for d in coll.datetimes]
    elif isinstance(coll, MonthlyPerHourCollection):
        keys = ['%d %d %d' % tuple(d) for d in coll.datetimes]
    else:
        keys = [str(int(d)) for d in coll.datetimes]
    return ('ok D %s %s %d %s' % (apf, _b(coll.validated_a_period), len(vals),
                                  ' '.join('%s %s' % kv for kv in zip(keys, vals)))).rstrip()


def _canon(s):
    return ' '.join(s.split())


# ---------------------------------------------------------------------------------------------
# generators


def _src_days(c):
    return _ref_days(c)


def _gen_source(rng, kind, quick):
    leap = rng.random() < 0.4
    n = _ndays(leap)
    if kind == 'annual':
        ts = rng.choice([1, 1, 2, 3, 4] if quick else [1, 1, 2, 3, 4, 4, 5, 6])
        return (1, 1, 0, 12, 31, 23, ts, leap)
    if kind == 'partial':
        length = rng.choice([1, 1, 2, 3, 7, 14, rng.randrange(20, 45), rng.randrange(45, 121)])
        r = rng.random()
        if r < 0.15:
            a = 1
        elif r < 0.3:
            a = n - length + 1
        elif r < 0.5:
            a = max(1, 59 - rng.randrange(0, min(length, 3) + 1))       # around 28/29 Feb
        else:
            a = rng.randrange(1, n - length + 2)
        a = max(1, min(a, n - length + 1))
        b = a + length - 1
        cap = 14000 if quick else 20000
        tss = [t for t in VALID_TS if length * 24 * t <= cap] or [1]
        ts = rng.choice(tss if rng.random() < 0.6 else [t for t in tss if t <= 4] or [1])
        return _date(leap, a) + (0,) + _date(leap, b) + (23, ts, leap)
    # wrapping
    if rng.random() < 0.75:
        la = rng.choice([1, 1, 2, 5, rng.randrange(3, 40)])
        lb = rng.choice([1, 1, 2, 5, rng.randrange(3, 40)])
    else:
        la, lb = rng.randrange(40, 200), rng.randrange(40, 160)
    a, b = n - la + 1, lb
    cap = 14000 if quick else 20000
    tss = [t for t in VALID_TS if (la + lb) * 24 * t <= cap] or [1]
    ts = rng.choice(tss if rng.random() < 0.6 else [t for t in tss if t <= 4] or [1])
    return _date(leap, a) + (0,) + _date(leap, b) + (23, ts, leap)


def _fsteps(f):
    return len(_ref_days(f)) * 24 * f[6]


def _src_kind(c):
    if c[:6] == (1, 1, 0, 12, 31, 23):
        return 'annual'
    a, b = _doy(c[7], c[0], c[1]), _doy(c[7], c[3], c[4])
    return 'partial' if a <= b else 'wrapping'


def _rand_window(rng):
    r = rng.random()
    if r < 0.5:
        sh, eh = sorted((rng.randrange(24), rng.randrange(24)))
    elif r < 0.85:
        sh, eh = rng.choice([(22, 5), (23, 0), (12, 11), (18, 6), (1, 0)])
    else:
        sh, eh = rng.choice([(0, 22), (1, 23), (0, 0), (23, 23), (9, 17)])
    if (sh, eh) == (0, 23):
        eh = 22
    return sh, eh


def _gen_filter(rng, src, fkind):
    """A filter period relative to the source `src`; returns the 8 fields."""
    leap, ts = src[7], src[6]
    n = _ndays(leap)
    days = _src_days(src)
    inset = set(days)
    gap = [d for d in range(1, n + 1) if d not in inset]
    L = len(days)
    i = rng.choice([0, 0, rng.randrange(L)])
    j = rng.choice([L - 1, L - 1, i, rng.randrange(i, L)])
    j = max(i, j)
    sh, eh = 0, 23
    if fkind == 'inside':
        a, b = days[i], days[j]
    elif fkind == 'equal':
        a, b = days[0], days[-1]
    elif fkind == 'single':
        a = b = days[rng.choice([0, L - 1, rng.randrange(L)])]
    elif fkind == 'straddle':          # across the year end, inside a wrapping / annual source
        if _src_kind(src) == 'annual':
            a, b = n - rng.randrange(0, 40), 1 + rng.randrange(0, 40)
        elif _src_kind(src) == 'wrapping':
            la = n - days[0] + 1
            i = rng.randrange(0, la)
            j = rng.randrange(la, L) if L > la else L - 1
            a, b = days[i], days[j]
        else:
            a, b = days[i], days[j]
    elif fkind == 'window-wrap':       # hour window AND the filter wraps the year end (annual / wrapping sources):
        # the period's time order (Dec .. Jan) differs from the order of an annual source
        sk = _src_kind(src)
        if sk == 'annual':
            a, b = n - rng.choice([0, 1, 2, rng.randrange(0, 12)]), 1 + rng.choice([0, 1, 2, rng.randrange(0, 12)])
        elif sk == 'wrapping':
            la = n - days[0] + 1
            i = rng.randrange(max(0, la - 6), la)
            j = rng.randrange(la, min(L, la + 6)) if L > la else L - 1
            a, b = days[i], days[j]
        else:
            j = min(j, i + rng.choice([0, 1, 2, 5]))
            a, b = days[i], days[j]
        sh, eh = _rand_window(rng)
        if rng.random() < 0.6 and sh > eh:
            sh, eh = eh, sh
        if (sh, eh) == (0, 23):
            sh = 1
    elif fkind == 'wrap-long':         # wrapping filter on an annual source, most of the year
        a = rng.randrange(2, n + 1)
        b = rng.randrange(1, a)
    elif fkind in ('clip-start', 'clip-end', 'clip-both'):
        if not gap:
            a, b = days[i], days[j]
        else:
            before = [d for d in gap if (d < days[0]) or (_src_kind(src) == 'wrapping')]
            after = [d for d in gap if (d > days[-1]) or (_src_kind(src) == 'wrapping')]
            a, b = days[i], days[j]
            if fkind in ('clip-start', 'clip-both') and before:
                a = rng.choice([before[-1], rng.choice(before)])
            if fkind in ('clip-end', 'clip-both') and after:
                b = rng.choice([after[0], rng.choice(after)])
    elif fkind == 'window':
        j = min(j, i + rng.choice([0, 1, 2, 5, 20]))       # the minute path is quadratic in the code
        a, b = days[i], days[j]
        sh, eh = _rand_window(rng)
    elif fkind == 'window-clip':
        j = min(j, i + rng.choice([0, 1, 2, 5, 20]))
        a, b = days[i], days[j]
        if gap and rng.random() < 0.5:
            a = rng.choice(gap)
        elif gap:
            b = rng.choice(gap)
        sh, eh = _rand_window(rng)
    elif fkind == 'outside':
        if gap:
            a = rng.choice(gap)
            b = rng.choice(gap)
        else:
            a, b = days[j], days[i]
    elif fkind == 'two-piece':         # the other way round: covers both ends of the source
        a, b = days[j], days[i]
        if a == b and L > 1:
            a, b = days[-1], days[0]
    elif fkind == 'mismatch':
        a, b = days[i], days[j]
        if rng.random() < 0.5:
            ts = rng.choice([t for t in VALID_TS if t != ts])
        else:
            leap = not leap
            a, b = min(a, 365), min(b, 365)
            if (leap is False) and (a == 60 or b == 60):
                pass
    else:
        raise ValueError(fkind)
    return _date(leap, a) + (sh,) + _date(leap, b) + (eh, ts, leap)


PERIOD_KINDS = ['inside', 'inside', 'inside', 'equal', 'single', 'straddle', 'clip-start', 'clip-end', 'clip-both',
                'window', 'window', 'window-clip', 'window-wrap', 'outside', 'two-piece', 'mismatch']


def _branches(src, f):
    """Names of the branches of the anchored code that the continuous period filter `f` on the source `src` takes
    (read off the inputs with the stdlib calendar, for the input-distribution counters; see the module header)."""
    out = []
    sk = _src_kind(src)
    if f[6] != src[6] or f[7] != src[7]:
        return ['check_period:refused']
    out.append('subset:annual-source' if sk == 'annual' else 'subset:partial-source')
    sd, fd = _ref_days(src), _ref_days(f)
    if sk != 'annual':
        a, b = fd[0], fd[-1]
        wraps = sk == 'wrapping'
        cs = a < sd[0] and (not wraps or a > sd[-1])
        ce = b > sd[-1] and (not wraps or b < sd[0])
        out.append('subset:clip-%s' % ('both' if cs and ce else 'start' if cs else 'end' if ce else 'none'))
        if cs or ce:
            out.append('subset:wrapping-source-clip' if wraps else 'subset:plain-source-clip')
    if f[2] == 0 and f[5] == 23:
        e, dom = _ref_clip(src, f)
        if e and dom:
            i0 = sd.index(e[0] // 1440 + 1)
            i1 = sd.index(e[-1] // 1440 + 1)
            out.append('period:one-slice' if i1 >= i0 else 'period:two-slices')
        else:
            out.append('period:whole-day-other')
    else:
        out.append('period:window->moys')
        out.append('period:window-overnight' if f[2] > f[5] else 'period:window-same-day')
        if fd[0] > fd[-1]:
            out.append('period:window-filter-wraps')
    return out


def _moy_branches(src, req):
    sk = _src_kind(src)
    if sk != 'wrapping':
        return ['moys:plain-source']
    st = (_doy(src[7], src[0], src[1]) - 1) * 1440
    out = set('moys:wrapping-source-before-year-end' if m >= st else 'moys:wrapping-source-after-year-end' for m in req)
    return sorted(out)


def _sources(ctx, rng, oracle=False):
    """[(fields, kind)]: fixed ones first (the witnesses of the repaired defects), then generated."""
    fixed = [
        (12, 1, 0, 1, 31, 23, 1, False), (12, 30, 0, 1, 2, 23, 4, True), (3, 1, 0, 3, 31, 23, 2, False),
        (2, 27, 0, 3, 2, 23, 6, True), (1, 1, 0, 12, 31, 23, 1, False),
        (12, 31, 0, 1, 1, 23, 60, False), (1, 1, 0, 1, 1, 23, 30, True),
    ]
    if not ctx.quick:
        fixed += [(6, 1, 0, 5, 31, 23, 1, False), (1, 1, 0, 12, 31, 23, 2, True), (7, 2, 0, 7, 1, 23, 1, True)]
    out = [(c, _src_kind(c)) for c in fixed]
    if oracle:
        kinds = ['annual'] * ctx.n(1, 3) + ['partial'] * ctx.n(6, 40) + ['wrapping'] * ctx.n(6, 40)
    else:
        kinds = ['annual'] * ctx.n(1, 4) + ['partial'] * ctx.n(9, 60) + ['wrapping'] * ctx.n(9, 60)
    for k in kinds:
        out.append((_gen_source(rng, k, ctx.quick), k))
    return out


def _moy_requests(rng, src, smoys, nreq):
    """Explicit minute lists for a source with the minutes `smoys`: [(list, kind)]."""
    out = []
    n = len(smoys)
    for _ in range(nreq):
        r = rng.random()
        k = rng.choice([1, 2, 3, 10, min(n, 50)])
        if r < 0.25:
            req = sorted(rng.sample(smoys, min(k, n)))
            kind = 'sorted'
        elif r < 0.5:
            req = rng.sample(smoys, min(k, n))
            kind = 'shuffled'
        elif r < 0.65:
            req = [smoys[0], smoys[-1]] + [smoys[min(n - 1, x)] for x in (1, n // 2)]
            req = list(OrderedDict.fromkeys(req))
            kind = 'ends'
        elif r < 0.78:
            base = rng.sample(smoys, min(k, n))
            req = base + [rng.choice(base) for _ in range(2)]
            kind = 'repeats'
        elif r < 0.9:
            step = 60 // src[6]
            nm = _nmin(src[7])
            extra = [rng.choice([smoys[0] - step, smoys[-1] + step, rng.randrange(nm), smoys[0] + 1,
                                 -step, nm, nm + step, rng.randrange(nm) // step * step])
                     for _ in range(2)]
            req = rng.sample(smoys, min(2, n)) + extra
            rng.shuffle(req)
            kind = 'foreign'
        else:
            req = []
            kind = 'empty'
        out.append((req, kind))
    return out


def _truncation_sensitive(smoys, rng, k=2):
    """Minutes whose float hour times 60 falls just below the minute (int() instead of round() loses them)."""
    cand = [m for m in smoys[:4000] if int((m / 60.0) * 60) != m]
    return rng.sample(cand, min(k, len(cand)))


def _key_period(rng, leap, ts=None):
    """A filter period for the coarser collections, biased to the year end: December, the last day,
    periods that wrap over 31 Dec, the whole year, around 28/29 Feb, else random."""
    n = _ndays(leap)
    r = rng.random()
    sh, eh = rng.choice([(0, 23), (0, 23), _rand_window(rng)])
    ts = ts or rng.choice([1, 1, 2, 4])
    if r < 0.14:
        a, b = n - 30, n                                   # December
    elif r < 0.24:
        a = b = n                                          # 31 Dec only
    elif r < 0.42:
        a, b = n - rng.randrange(0, 40), rng.randrange(1, 40)   # wraps the year end
    elif r < 0.5:
        a, b = 1, n                                        # whole year
    elif r < 0.6:
        a, b = 59 - rng.randrange(0, 2), 60 + rng.randrange(0, 2)   # around 28/29 Feb
    elif r < 0.68:
        a, b = rng.randrange(2, n + 1), n                  # ... to 31 Dec
    else:
        return _rand_period(rng, leap, ts=ts)
    return _date(leap, a) + (sh,) + _date(leap, b) + (eh, ts, leap)


def _keyed_case(rng):
    """One structure-directed case for the daily / monthly / monthly-per-hour collections:
    leap-year daily collections hold day 60 (29 Feb) and day 366, requests name them, period filters
    end on / wrap over 31 Dec, monthly-per-hour keys carry sub-hourly minutes."""
    leap = rng.random() < 0.5
    n = _ndays(leap)
    ts = rng.choice([1, 1, 2, 3, 4, 6, 12])
    hdr = _key_period(rng, leap, ts=ts) if rng.random() < 0.5 else _rand_period(rng, leap, ts=ts)
    shape = rng.choice(['full', 'ends', 'ends', 'random', 'random'])
    if shape == 'full':
        doys = list(range(1, n + 1))
    elif shape == 'ends':
        doys = list(OrderedDict.fromkeys([1, 2, 59, 60, 61, n - 1, n] + rng.sample(range(1, n + 1), rng.choice([0, 3, 10]))))
    else:
        doys = rng.sample(range(1, n + 1), rng.choice([1, 3, 10, 40]))
        if rng.random() < 0.5:
            doys = list(OrderedDict.fromkeys(doys + [n]))
    if rng.random() < 0.4:
        rng.shuffle(doys)
    elif rng.random() < 0.6:
        doys.sort()
    dreq = rng.sample(doys, min(len(doys), rng.choice([0, 1, 2, 5])))
    dreq += rng.sample([n, n, 60, 365, 366, 367, 0, 1, rng.randrange(1, 368)], 3)
    dfilt = _key_period(rng, leap if rng.random() < 0.92 else not leap)
    months = rng.sample(range(1, 13), rng.choice([1, 3, 6, 12]))
    if rng.random() < 0.5:
        months = list(OrderedDict.fromkeys(months + [12, 1, 2]))
    if rng.random() < 0.5:
        months.sort()
    mreq = rng.sample(range(0, 14), rng.choice([0, 1, 3, 6])) + rng.sample([12, 1, 2], 1)
    mfilt = _key_period(rng, rng.random() < 0.5)
    step = 60 // ts
    base = list(OrderedDict.fromkeys(months[:2] + [12]))
    allk = [(m, h, mi) for m in base for h in range(24) for mi in range(0, 60, step)]
    edge = [(12, 23, 60 - step), (12, 0, 0), (base[0], 23, 60 - step), (base[0], 0, step % 60)]
    keys = list(OrderedDict.fromkeys(rng.sample(allk, min(len(allk), rng.choice([1, 5, 30, 80]))) +
                                     [k for k in edge if rng.random() < 0.5]))
    preq = rng.sample(keys, min(len(keys), 3)) + rng.sample(edge + [(13, 0, 0), (base[0], 24, 0), (12, 23, 59)], 2)
    pfilt = _key_period(rng, leap, ts=ts)
    return {'leap': leap, 'hdr': hdr, 'doys': doys, 'dreq': dreq, 'dfilt': dfilt, 'months': months,
            'mreq': mreq, 'mfilt': mfilt, 'keys': keys, 'preq': preq, 'pfilt': pfilt, 'shape': shape}


def _disc_sources(ctx, rng):
    """Discontinuous sources with holes / unsorted / repeated steps: [(fields, moys, kind)]."""
    out = []
    for _ in range(ctx.n(25, 120)):
        leap = rng.random() < 0.4
        ts = rng.choice(VALID_TS)
        step = 60 // ts
        nm = _nmin(leap)
        shape = rng.choice(['holes', 'holes', 'unsorted', 'repeated', 'year-ends', 'off-header'])
        a = rng.randrange(1, _ndays(leap) - 3)
        c = _date(leap, a) + (rng.choice([0, 0, 6]),) + _date(leap, a + rng.randrange(0, 3)) + \
            (rng.choice([23, 23, 18]), ts, leap)
        if shape == 'year-ends':
            c = (12, 30, 0, 1, 2, 23, ts, leap)
        base = _ref_moys(c)
        if shape == 'off-header':
            base = [m for m in (rng.randrange(nm) // step * step for _ in range(30))]
        if len(base) > 400:
            base = base[:200] + base[-200:]
        moys = [m for m in base if rng.random() < 0.7] or base[:1]
        moys = list(OrderedDict.fromkeys(moys))
        if shape == 'unsorted':
            rng.shuffle(moys)
        if shape == 'repeated' and moys:
            moys = moys + [moys[0], moys[-1]]
        out.append((c, moys, shape, rng.random() < 0.5))
    return out


STMTS = [lambda x, y, z: 'a > %d' % x,
         lambda x, y, z: 'a %% %d == %d' % (y, z),
         lambda x, y, z: 'a > %d and a %% %d == %d' % (x, y, z),
         lambda x, y, z: 'a < %d or a > %d' % (x, y)]


def _stmt_text(text, sform):
    """The same condition written another way (kind (i)): 1 no blanks around the comparison operators,
    2 numbers in float notation, 3 parentheses and extra blanks."""
    import re
    if sform == 1:
        return re.sub(r' *(>|<|==|%) *', r'\1', text)
    if sform == 2:         # (an exponent is refused by the statement check: letters other than a)
        return re.sub(r'(?<![\w.])(\d+)(?![\w.])', r'\1.0', text)
    return '( ' + text.replace(' and ', ' )  and  ( ').replace(' or ', ' )  or  ( ') + ' )'


def _stmt_pred(code, x, y, z):
    return [lambda a: a > x, lambda a: a % y == z, lambda a: a > x and a % y == z,
            lambda a: a < x or a > y][code]


# ---------------------------------------------------------------------------------------------
# correspondence


def _guard(fn):
    def run(c):
        try:
            with _quiet():
                return fn(c)
        except Exception as e:
            return 'err:' + err_name(e)
    return run


def correspondence(ctx):
    rng = ctx.rng
    _float_hour_assumption(ctx)

    srcs = _sources(ctx, rng)
    period_cases, moy_cases, hoy_cases, pat_cases, val_cases = [], [], [], [], []
    budget = ctx.n(2_000_000, 12_000_000)          # total values moved through period filters
    used = 0
    for c, kind in srcs:
        ctx.count('src:' + kind)
        ctx.count('src_ts:%d' % c[6])
        ctx.count('src_leap:%s' % c[7])
        nvals = _ndays_of(c) * 24 * c[6]
        kinds = list(PERIOD_KINDS)
        if kind == 'annual':
            kinds += ['wrap-long', 'straddle', 'wrap-long']
        npf = ctx.n(5, 14) if nvals > 5000 else ctx.n(8, 22)
        forced = ['window-wrap', 'window-wrap'] if kind == 'annual' else []
        for q in range(npf + len(forced)):
            fk = forced[q - npf] if q >= npf else rng.choice(kinds)
            f = _gen_filter(rng, c, fk)
            used += nvals
            if used > budget and nvals > 3000:
                continue
            if _fsteps(f) > 40000 and not (f[2] == 0 and f[5] == 23):
                continue                 # the period would be enumerated step by step (minutes per case)
            period_cases.append((c, f, kind, fk, rng.choice(AP_FORMS) if rng.random() < 0.5 else 'ctor'))
        smoys = _ref_moys(c)
        for req, rk in _moy_requests(rng, c, smoys, ctx.n(5, 8)):
            moy_cases.append((c, req, kind, rk))
        for _ in range(2):
            k = rng.choice([1, 3, 8])
            ms = rng.sample(smoys, min(k, len(smoys)))
            ms = list(OrderedDict.fromkeys(ms + _truncation_sensitive(smoys, rng)))
            hs = [m / 60.0 for m in ms]
            r = rng.random()
            rk = 'exact'
            if r < 0.3:
                hs += [rng.choice([ms[0] / 60.0 + 1e-9, (smoys[-1] + 60) / 60.0, -1.0, ms[0] / 60.0 + 0.004,
                                   rng.uniform(0, 8760)])]
                rk = 'foreign'
            hoy_cases.append((c, hs, kind, rk))
        if nvals <= 3000:
            for _ in range(2):
                plen = rng.choice([0, 1, 2, 3, 7, 24, nvals, nvals + 3, nvals - 1 if nvals > 1 else 1])
                pat = [rng.random() < 0.4 for _ in range(plen)]
                if rng.random() < 0.1:
                    pat = [False] * plen
                pat_cases.append((c, pat, kind))
            vals = [rng.randrange(-20, 21) for _ in range(nvals)]
            lo = rng.choice([None, -5, 0, rng.randrange(-25, 25)])
            hi = rng.choice([None, 5, 0, rng.randrange(-25, 25)])
            val_cases.append(('range', c, vals, (lo, hi)))
            code = rng.randrange(4)
            val_cases.append(('stmt', c, vals, (code, rng.randrange(-22, 22), rng.randrange(1, 7), rng.randrange(0, 3))))

    # -- period filters: continuous object and its discontinuous copy
    for c, f, kind, fk, apf in period_cases:
        ctx.count('period:' + fk)
        ctx.count('period_built:' + apf)
        for b in _branches(c, f):
            ctx.count('branch:' + b)
    compare_batch(ctx, 'cont_ap', period_cases,
                  lambda x: 'cont_ap %s %s' % (_line_ap(x[0]), _line_ap(x[1])),
                  _guard(lambda x: _show(_cont(x[0]).filter_by_analysis_period(_mk_ap(x[1], x[4])))), canon=_canon,
                  key=lambda x: (x[0], x[1], x[4]))
    small = [x for x in period_cases if _ndays_of(x[0]) * 24 * x[0][6] <= ctx.n(1500, 4000) and _fsteps(x[1]) <= 20000]
    compare_batch(ctx, 'disc_ap', small,
                  lambda x: 'disc_ap %s 1 %s %s' % (_line_ap(x[0]), _ints(_ref_moys(x[0])), _line_ap(x[1])),
                  _guard(lambda x: _show(_disc_of_cont(x[0]).filter_by_analysis_period(_mk_ap(x[1], x[4])))),
                  canon=_canon, key=lambda x: ('d', x[0], x[1], x[4]))
    compare_batch(ctx, 'ap_subset', period_cases,
                  lambda x: 'ap_subset %s %s' % (_line_ap(x[0]), _line_ap(x[1])),
                  _guard(lambda x: 'ok ' + _line_ap(_ap_fields(
                      _cont(x[0])._get_analysis_period_subset(_mk_ap(x[1], x[4]))))), canon=_canon,
                  key=lambda x: (x[0], x[1], x[4]))

    # -- explicit minute lists
    for c, req, kind, rk in moy_cases:
        ctx.count('moys:' + rk)
        for b in _moy_branches(c, req):
            ctx.count('branch:' + b)
    allsh = ('list', 'tuple') + SHAPES_ONCE
    compare_batch(ctx, 'cont_moys', moy_cases,
                  lambda x: 'cont_moys %s %s' % (_line_ap(x[0]), _ints(x[1])),
                  _guard(lambda x: _show(_cont(x[0]).filter_by_moys(_shape(x[1], allsh[len(x[1]) % len(allsh)])))),
                  canon=_canon)
    small = [x for x in moy_cases if _ndays_of(x[0]) * 24 * x[0][6] <= ctx.n(1500, 4000)]
    compare_batch(ctx, 'disc_moys', small,
                  lambda x: 'disc_moys %s 1 %s %s' % (_line_ap(x[0]), _ints(_ref_moys(x[0])), _ints(x[1])),
                  _guard(lambda x: _show(_disc_of_cont(x[0]).filter_by_moys(tuple(x[1])))), canon=_canon)

    # -- hour lists
    for c, hs, kind, rk in hoy_cases:
        ctx.count('hoys:' + rk)
    compare_batch(ctx, 'cont_hoys', hoy_cases,
                  lambda x: 'cont_hoys %s %d %s' % (_line_ap(x[0]), len(x[1]), ' '.join(_fbits(h) for h in x[1])),
                  _guard(lambda x: _show(_cont(x[0]).filter_by_hoys(_shape(x[1], allsh[len(x[1]) % len(allsh)])))),
                  canon=_canon, key=lambda x: (x[0], tuple(repr(h) for h in x[1])))
    small = [x for x in hoy_cases if _ndays_of(x[0]) * 24 * x[0][6] <= ctx.n(1500, 4000)]
    compare_batch(ctx, 'disc_hoys', small,
                  lambda x: 'disc_hoys %s 1 %s %d %s' % (_line_ap(x[0]), _ints(_ref_moys(x[0])), len(x[1]),
                                                     ' '.join(_fbits(h) for h in x[1])),
                  _guard(lambda x: _show(_disc_of_cont(x[0]).filter_by_hoys(_shape(x[1], allsh[(len(x[1]) + 1) % len(allsh)])))),
                  canon=_canon, key=lambda x: ('d', x[0], tuple(repr(h) for h in x[1])))

    # -- pattern / range / statement on continuous sources
    compare_batch(ctx, 'cont_pattern', pat_cases,
                  lambda x: 'cont_pattern %s %s' % (_line_ap(x[0]), _ints([1 if b else 0 for b in x[1]])),
                  _guard(lambda x: _show(_cont(x[0]).filter_by_pattern(list(x[1])))), canon=_canon)
    rcs = [x for x in val_cases if x[0] == 'range']
    compare_batch(ctx, 'cont_range', rcs,
                  lambda x: 'cont_range %s %s %s %s' % (_line_ap(x[1]), _opt(x[3][0]), _opt(x[3][1]), _ints(x[2])),
                  _guard(lambda x: _show(_range(_cont(x[1], x[2]), x[3]))), canon=_canon,
                  key=lambda x: (x[1], x[3], tuple(x[2][:50])))
    scs = [x for x in val_cases if x[0] == 'stmt']
    compare_batch(ctx, 'cont_stmt', scs,
                  lambda x: 'cont_stmt %s %d %d %d %d %s' % ((_line_ap(x[1]),) + x[3] + (_ints(x[2]),)),
                  _guard(lambda x: _show(_cont(x[1], x[2]).filter_by_conditional_statement(STMTS[x[3][0]](*x[3][1:])))),
                  canon=_canon, key=lambda x: (x[1], x[3], tuple(x[2][:50])))

    # -- discontinuous sources with holes / unsorted steps
    dsrc = _disc_sources(ctx, rng)
    dper, dmoy, dhoy, dpat, dval = [], [], [], [], []
    for c, moys, shape, vflag in dsrc:
        ctx.count('disc_src:' + shape)
        ctx.count('disc_src_validated:%s' % vflag)
        for _ in range(3):
            a = _doy(c[7], c[0], c[1])
            fa = max(1, a - rng.randrange(0, 3))
            fb = min(_ndays(c[7]), fa + rng.randrange(0, 5))
            sh, eh = rng.choice([(0, 23), (0, 23), _rand_window(rng)])
            f = _date(c[7], fa) + (sh,) + _date(c[7], fb) + (eh, c[6], c[7])
            if shape == 'year-ends' and rng.random() < 0.6:
                f = (12, 31, sh, 1, 1, eh, c[6], c[7])
            if rng.random() < 0.08:
                f = f[:6] + (rng.choice([t for t in VALID_TS if t != c[6]]), c[7])
            dper.append((c, moys, f, vflag))
        for req, rk in _moy_requests(rng, c, moys, 3):
            dmoy.append((c, moys, req, vflag))
        ms = rng.sample(moys, min(3, len(moys)))
        dhoy.append((c, moys, [m / 60.0 for m in ms] + ([ms[0] / 60.0 + 0.004] if rng.random() < 0.3 else []), vflag))
        plen = rng.choice([0, 1, 2, 5, len(moys), len(moys) + 2])
        dpat.append((c, moys, [rng.random() < 0.5 for _ in range(plen)], vflag))
        vals = [rng.randrange(-20, 21) for _ in moys]
        dval.append(('range', c, moys, vals, (rng.choice([None, -3, 4]), rng.choice([None, 3, 12])), vflag))
        dval.append(('stmt', c, moys, vals, (rng.randrange(4), rng.randrange(-22, 22), rng.randrange(1, 7),
                                            rng.randrange(0, 3)), vflag))
    compare_batch(ctx, 'disc_ap', dper,
                  lambda x: 'disc_ap %s %s %s %s' % (_line_ap(x[0]), _b(x[3]), _ints(x[1]), _line_ap(x[2])),
                  _guard(lambda x: _show(_disc(x[0], x[1], None, x[3]).filter_by_analysis_period(_mk_ap(x[2])))),
                  canon=_canon)
    compare_batch(ctx, 'disc_moys', dmoy,
                  lambda x: 'disc_moys %s %s %s %s' % (_line_ap(x[0]), _b(x[3]), _ints(x[1]), _ints(x[2])),
                  _guard(lambda x: _show(_disc(x[0], x[1], None, x[3]).filter_by_moys(list(x[2])))), canon=_canon)
    compare_batch(ctx, 'disc_hoys', dhoy,
                  lambda x: 'disc_hoys %s %s %s %d %s' % (_line_ap(x[0]), _b(x[3]), _ints(x[1]), len(x[2]),
                                                        ' '.join(_fbits(h) for h in x[2])),
                  _guard(lambda x: _show(_disc(x[0], x[1], None, x[3]).filter_by_hoys(list(x[2])))), canon=_canon,
                  key=lambda x: (x[0], tuple(x[1]), tuple(repr(h) for h in x[2])))
    compare_batch(ctx, 'keyed_pattern', dpat,
                  lambda x: 'keyed_pattern %s %s %s %s' % (_line_ap(x[0]), _b(x[3]), _ints(x[1]),
                                                          _ints([1 if b else 0 for b in x[2]])),
                  _guard(lambda x: _show(_disc(x[0], x[1], None, x[3]).filter_by_pattern(list(x[2])))), canon=_canon)
    compare_batch(ctx, 'keyed_range', [x for x in dval if x[0] == 'range'],
                  lambda x: 'keyed_range %s %s %s %s %s' % (_line_ap(x[1]), _b(x[5]), _opt(x[4][0]), _opt(x[4][1]),
                                                           _kv(x[2], x[3])),
                  _guard(lambda x: _show(_range(_disc(x[1], x[2], x[3], x[5]), x[4]))), canon=_canon)
    compare_batch(ctx, 'keyed_stmt', [x for x in dval if x[0] == 'stmt'],
                  lambda x: 'keyed_stmt %s %s %d %d %d %d %s' % ((_line_ap(x[1]), _b(x[5])) + x[4] + (_kv(x[2], x[3]),)),
                  _guard(lambda x: _show(_disc(x[1], x[2], x[3], x[5]).filter_by_conditional_statement(
                      STMTS[x[4][0]](*x[4][1:])))), canon=_canon)

    # -- daily / monthly / monthly-per-hour collections
    dk, da, mk_, ma, pk, pa, kp = [], [], [], [], [], [], []
    for _ in range(ctx.n(70, 300)):
        kc = _keyed_case(rng)
        hdr, doys, months, keys = kc['hdr'], kc['doys'], kc['months'], kc['keys']
        ctx.count('keyed:leap=%s' % kc['leap'])
        ctx.count('keyed:daily_%s' % kc['shape'])
        if kc['leap'] and 366 in doys:
            ctx.count('keyed:daily_has_366')
            if 366 in kc['dreq']:
                ctx.count('keyed:daily_req_366')
        dk.append((hdr, doys, kc['dreq']))
        da.append((hdr, doys, kc['dfilt']))
        mk_.append((hdr, months, kc['mreq']))
        ma.append((hdr, months, kc['mfilt']))
        pk.append((hdr, keys, kc['preq']))
        pa.append((hdr, keys, kc['pfilt']))
        kp.append((hdr, doys, [rng.random() < 0.5 for _ in range(rng.choice([0, 1, 3, len(doys)]))]))
    compare_batch(ctx, 'keys', dk, lambda x: 'keys %s %s %s %s' % (_line_ap(x[0]), _vf(x[1]), _ints(x[1]), _ints(x[2])),
                  _guard(lambda x: _show(_daily(x[0], x[1], None, _vf(x[1]) == '1').filter_by_doys(list(x[2])))), canon=_canon,
                  key=lambda x: ('daily',) + tuple(map(str, x)))
    compare_batch(ctx, 'daily_ap', da,
                  lambda x: 'daily_ap %s %s %s %s' % (_line_ap(x[0]), _vf(x[1]), _ints(x[1]), _line_ap(x[2])),
                  _guard(lambda x: _show(_daily(x[0], x[1], None, _vf(x[1]) == '1').filter_by_analysis_period(_mk_ap(x[2])))),
                  canon=_canon)
    compare_batch(ctx, 'keys', mk_, lambda x: 'keys %s %s %s %s' % (_line_ap(x[0]), _vf(x[1]), _ints(x[1]), _ints(x[2])),
                  _guard(lambda x: _show(_monthly(x[0], x[1], None, _vf(x[1]) == '1').filter_by_months(list(x[2])))), canon=_canon,
                  key=lambda x: ('monthly',) + tuple(map(str, x)))
    compare_batch(ctx, 'monthly_ap', ma,
                  lambda x: 'monthly_ap %s %s %s %s' % (_line_ap(x[0]), _vf(x[1]), _ints(x[1]), _line_ap(x[2])),
                  _guard(lambda x: _show(_monthly(x[0], x[1], None, _vf(x[1]) == '1').filter_by_analysis_period(_mk_ap(x[2])))),
                  canon=_canon)
    compare_batch(ctx, 'mph_keys', pk,
                  lambda x: 'mph_keys %s %s %s %s' % (_line_ap(x[0]), _vf(x[1]), _triples(x[1]), _triples(x[2])),
                  _guard(lambda x: _show(_mph(x[0], x[1], _vf(x[1]) == '1').filter_by_months_per_hour([tuple(k) for k in x[2]]))),
                  canon=_canon)
    compare_batch(ctx, 'mph_ap', pa,
                  lambda x: 'mph_ap %s %s %s %s' % (_line_ap(x[0]), _vf(x[1]), _triples(x[1]), _line_ap(x[2])),
                  _guard(lambda x: _show(_mph(x[0], x[1], _vf(x[1]) == '1').filter_by_analysis_period(_mk_ap(x[2])))),
                  canon=_canon)
    compare_batch(ctx, 'keyed_pattern', kp,
                  lambda x: 'keyed_pattern %s %s %s %s' % (_line_ap(x[0]), _vf(x[1]), _ints(x[1]),
                                                          _ints([1 if b else 0 for b in x[2]])),
                  _guard(lambda x: _show(_daily(x[0], x[1], None, _vf(x[1]) == '1').filter_by_pattern(list(x[2])))), canon=_canon,
                  key=lambda x: ('daily',) + tuple(map(str, x)))

    # -- histories on one object: every step of the model's state machine against the real object
    hcases = []
    for _ in range(ctx.n(170, 800)):
        init, ops = _gen_history(rng, True)
        _count_history(ctx, 'hist', init, ops)
        hcases.append((init, ops))
    compare_batch(ctx, 'hist', hcases, _hist_line, _run_real_history, canon=_canon,
                  key=lambda x: json.dumps(x, sort_keys=True))
    _CACHE.clear()


def _count_history(ctx, tag, init, ops):
    ctx.count('%s:kind=%s' % (tag, init['kind']))
    ctx.count('%s:%s' % (tag, 'mutable' if init['mutable'] else 'immutable'))
    ctx.count('%s:leap=%s' % (tag, init['ap'][7]))
    ctx.count('%s:ts=%d' % (tag, init['ap'][6]))
    if len(init['vals']) == 1:
        ctx.count('%s:single-value' % tag)
    if (init['ap'][0], init['ap'][1]) > (init['ap'][3], init['ap'][4]):
        ctx.count('%s:wrapping-header' % tag)
    ctx.count('%s:header_built=%s' % (tag, init.get('hapf', 'ctor')))
    if init.get('twin'):
        ctx.count('%s:second-object' % tag)
    for op in ops:
        if op[0] in ('read', 'chain') and len(op) > 2:
            ctx.count('%s:arg=%s' % (tag, op[2].get('shape') or 'period-' + op[2].get('apf', '?')))
        ctx.count('%s:op=%s' % (tag, op[0] if op[0] not in ('read', 'chain') else op[0] + '-' + op[1][0]))
        if op[0] == 'read' and op[1][0] == 'range' and (op[1][1] == 0 or op[1][2] == 0):
            ctx.count('%s:range-zero-bound' % tag)
    if ops and ops[0][0] not in ('read', 'chain', 'repeat', 'dup', 'toimm', 'tomut'):
        ctx.count('%s:setter-first' % tag)


def _vf(keys):
    """validated_a_period flag given to a keyed source: parity of its first key (both values occur)."""
    k = keys[0]
    return _b((k[1] if isinstance(k, (tuple, list)) else k) % 2 == 1)


def _opt(v):
    return 'N' if v is None else str(int(v))


def _kv(keys, vals):
    return '%d %s' % (len(keys), ' '.join('%d %d' % kv for kv in zip(keys, vals)))


def _triples(keys):
    return '%d %s' % (len(keys), ' '.join('%d %d %d' % tuple(k) for k in keys))


def _range(coll, lohi):
    lo, hi = lohi
    kw = {}
    if lo is not None:
        kw['greater_than'] = lo
    if hi is not None:
        kw['less_than'] = hi
    return coll.filter_by_range(**kw)


def _rand_period(rng, leap, ts=None):
    n = _ndays(leap)
    a, b = rng.randrange(1, n + 1), rng.randrange(1, n + 1)
    if rng.random() < 0.7 and a > b:
        a, b = b, a
    sh, eh = rng.choice([(0, 23), (0, 23), _rand_window(rng)])
    return _date(leap, a) + (sh,) + _date(leap, b) + (eh, ts or rng.choice([1, 1, 2, 4]), leap)


def _float_hour_assumption(ctx):
    """Hypothesis of theorem C02_hoys, exhaustively: round((m / 60.0) * 60) == m for every minute."""
    bad = [m for m in range(0, 527040) if int(round((m / 60.0) * 60)) != m]
    ctx.compared += 527040
    ctx.count('float_hour_assumption_minutes', 527040)
    if bad:
        ctx.disagree('float_hour_assumption', {'moy': bad[0]}, str(bad[0]), repr((bad[0] / 60.0) * 60))


# ---------------------------------------------------------------------------------------------
# property oracle (statement evaluated on the real classes; independent of the model)


def _pairs(coll):
    return [(d.moy, v) for d, v in zip(coll.datetimes, coll.values)]


def _dt_problem(coll, leap):
    """Date-times of a result must be DateTimes of the source's year kind."""
    for d in coll.datetimes:
        if bool(d.leap_year) != bool(leap):
            return 'date-time %s has leap_year=%s' % (d, d.leap_year)
    return None


def _ref_clip(src, f):
    """Steps of the filter `f` that the source `src` holds, in the filter's order, and whether the case is
    inside the property's domain for the continuous period filter (see ASSUMPTIONS)."""
    sset = set(_ref_moys(src))
    fm = _ref_moys(f)
    e = [m for m in fm if m in sset]
    if len(e) == len(fm):
        return e, True
    fd, sd = _ref_days(f), _ref_days(src)
    sdset = set(sd)
    idx = [k for k, d in enumerate(fd) if d in sdset]
    if not idx or idx != list(range(idx[0], idx[-1] + 1)):
        return e, False
    sidx = [sd.index(fd[k]) for k in idx]
    if sidx != list(range(sidx[0], sidx[-1] + 1)):
        return e, False
    if len(set(fd)) != len(fd):
        return e, False
    if fd[0] > fd[-1] and sd[0] <= sd[-1]:
        return e, False                 # a wrapping filter that leaves a non-wrapping source: not "inside"
    overnight = f[2] > f[5]
    return e, not overnight


def _hour_of(m, hform):
    """Hour of the year of minute `m` as a float: the quotient m / 60.0 (what AnalysisPeriod.hoys lists) or the
    sum (day - 1) * 24 + hour + minute / 60.0 (what DateTime.hoy answers; differs in the last bit for a few steps of
    the timesteps 3, 6, 12, 15, 30, 60: known finding C02-cont-hoys-datetime-hoy)."""
    if hform == 'dt.hoy':
        return (m // 1440) * 24 + ((m % 1440) // 60 + (m % 60) / 60.0)
    return m / 60.0


def check_case(op, inp):
    with _quiet():
        return _check_case(op, inp)


def _fail(req, obs, sig):
    return {'required': req, 'observed': obs, 'sig': sig}


def _short(l, k=6):
    l = list(l)
    return l if len(l) <= 2 * k else l[:k] + ['...%d more...' % (len(l) - 2 * k)] + l[-k:]


def _check_case(op, inp):
    if op == 'history':
        return _check_history(inp)
    if op == 'procorder':
        return _check_procorder(inp)
    src = tuple(inp['src']) if 'src' in inp else None
    if op == 'period':
        f = tuple(inp['filter'])
        path = inp['path']
        skind = _src_kind(src)
        apf, hapf, imm = inp.get('apf', 'ctor'), inp.get('hapf', 'ctor'), bool(inp.get('imm', False))
        sig = {'path': path, 'src': skind, 'filter': inp.get('fkind', '?'),
               'filter_wraps': _ref_days(f)[0] > _ref_days(f)[-1] or
               (len(_ref_days(f)) > 1 and _ref_days(f)[0] == _ref_days(f)[-1])}
        if apf != 'ctor' or hapf != 'ctor':
            sig['period_built'] = '%s/%s' % (hapf, apf)
        if imm:
            sig['immutable'] = True
        smoys = _ref_moys(src)
        idof = {m: i for i, m in enumerate(smoys)}
        e, dom = _ref_clip(src, f)
        if not e:
            return None                      # outside the property's quantifier
        want = [(m, idof[m]) for m in e]
        seqs = {}
        for p_ in (['cont', 'disc'] if path == 'both' else [path]):
            if p_ == 'cont' and not dom:
                continue
            coll = _cont(src, None, hapf, imm) if p_ == 'cont' else _disc_of_cont(src, hapf, imm)
            fobj = _mk_ap(f, apf)
            try:
                r = coll.filter_by_analysis_period(fobj)
            except Exception as ex:
                return _fail('%d pairs %s' % (len(want), _short(want, 3)), 'raises %s: %s' % (type(ex).__name__, str(ex)[:120]),
                             dict(sig, path=p_, what='raises', err=type(ex).__name__))
            got = _pairs(r)
            seqs[p_] = got
            if Counter(got) != Counter(want):
                return _fail(_short(want), _short(got), dict(sig, path=p_, what='pairs'))
            hm = set(_ref_moys(_ap_fields(r.header.analysis_period)))
            out = [m for m, _ in got if m not in hm]
            if out:
                return _fail('header period %s contains every result date-time' % (r.header.analysis_period,),
                             'minute %d is not a step of it' % out[0], dict(sig, path=p_, what='header'))
            p = _dt_problem(r, src[7])
            if p:
                return _fail('date-times of the source year', p, dict(sig, path=p_, what='leap'))
            if got != want:
                return _fail('order of the period: %s' % _short(want), _short(got), dict(sig, path=p_, what='order'))
            if _ap_fields(fobj) != f:
                return _fail('the filter period keeps its fields %s' % (f,), str(_ap_fields(fobj)),
                             dict(sig, path=p_, what='argument-changed'))
            if len(r) != len(want) or list(r.values) != [v for _, v in want]:
                return _fail('len / values of the result: %d' % len(want), 'len %d' % len(r), dict(sig, path=p_, what='len'))
        if len(seqs) == 2 and seqs['cont'] != seqs['disc']:
            return _fail('the same pairs in the same order from the index arithmetic and from the search',
                         'cont %s vs disc %s' % (_short(seqs['cont']), _short(seqs['disc'])), dict(sig, what='cont-vs-disc'))
        return None
    if op in ('moys', 'hoys'):
        path = inp['path']
        req = list(inp['req'])
        skind = _src_kind(src)
        hapf, imm, shape = inp.get('hapf', 'ctor'), bool(inp.get('imm', False)), inp.get('shape', 'list')
        hform = inp.get('hform', 'moy/60')
        sig = {'path': path, 'src': skind}
        if shape != 'list':
            sig['shape'] = 'one-shot' if shape in SHAPES_ONCE else shape
        if hapf != 'ctor':
            sig['period_built'] = hapf
        if imm:
            sig['immutable'] = True
        if hform != 'moy/60':
            sig['hours'] = hform
        smoys = _ref_moys(src)
        idof = {m: i for i, m in enumerate(smoys)}
        want = [(m, idof[m]) for m in req]
        res = {}
        for p_ in (['cont', 'disc'] if path == 'both' else [path]):
            coll = _cont(src, None, hapf, imm) if p_ == 'cont' else _disc_of_cont(src, hapf, imm)
            shp = shape
            if p_ == 'disc' and op == 'moys' and shp in SHAPES_ONCE:
                shp = 'tuple'      # the search tests `moy in moys` once per step: documented for lists only
            try:
                if op == 'moys':
                    arg = _shape(req, shp)
                else:   # hours that are no steps of the collection (inp['foreign'], minutes) select nothing
                    hs = [_hour_of(m, hform) for m in req] + [_hour_of(m, 'moy/60') for m in inp.get('foreign', [])]
                    arg = _shape(hs[1:] + hs[:1], shp)
                snap = list(arg) if isinstance(arg, list) else None
                r = coll.filter_by_moys(arg) if op == 'moys' else coll.filter_by_hoys(arg)
            except Exception as ex:
                return _fail('%d pairs %s' % (len(want), _short(want, 3)),
                             'raises %s: %s' % (type(ex).__name__, str(ex)[:120]),
                             dict(sig, path=p_, what='raises', err=type(ex).__name__))
            got = _pairs(r)
            res[p_] = got
            if Counter(got) != Counter(want):
                return _fail(_short(sorted(want)), _short(sorted(got)), dict(sig, path=p_, what='pairs'))
            if _ap_fields(r.header.analysis_period) != src:
                return _fail('header period of the source', str(r.header.analysis_period), dict(sig, path=p_, what='header'))
            p = _dt_problem(r, src[7])
            if p:
                return _fail('date-times of the source year', p, dict(sig, path=p_, what='leap'))
            if snap is not None:
                if arg != snap:
                    return _fail('the request list is left as it was', _short(arg), dict(sig, path=p_, what='argument-changed'))
                arg.reverse()
                arg.append(arg[0] if arg else 0)
                del arg[:1]
                if _pairs(r) != got:      # the result must not live on the caller's list
                    return _fail('the result does not change when the caller edits the request list afterwards',
                                 _short(_pairs(r)), dict(sig, path=p_, what='result-aliases-argument'))
        if len(res) == 2 and Counter(res['cont']) != Counter(res['disc']):
            return _fail('same pairs from both paths', 'cont %s vs disc %s' % (_short(res['cont']), _short(res['disc'])),
                         dict(sig, what='cont-vs-disc'))
        return None
    if op == 'values':
        kind = inp['kind']
        vals = inp['vals']
        cls = inp['cls']
        keys = inp['keys']
        hapf, imm, shape = inp.get('hapf', 'ctor'), bool(inp.get('imm', False)), inp.get('shape', 'list')
        if cls == 'cont':
            coll = _cont(src, vals, hapf)
            keys = _ref_moys(src)
        elif cls == 'disc':
            coll = _disc(src, keys, vals, form=hapf)
        elif cls == 'daily':
            coll = _daily(src, keys, vals, form=hapf)
        elif cls == 'mph':
            keys = [tuple(k) for k in keys]
            coll = _mph(src, keys, vals=vals, form=hapf)
        else:
            coll = _monthly(src, keys, vals, form=hapf)
        if imm:
            coll = coll.to_immutable()
        sig = {'kind': kind, 'cls': cls}
        if imm:
            sig['immutable'] = True
        if any(isinstance(v, float) for v in vals):
            sig['values'] = 'float'
        if kind == 'pattern':
            pat = inp['pattern']
            keep = [i for i in range(len(vals)) if pat[i % len(pat)]]
            parg = _shape([bool(b) for b in pat], 'tuple' if shape == 'tuple' else 'list')
            call = lambda: coll.filter_by_pattern(parg)        # noqa: E731
        elif kind == 'range':
            lo, hi = inp['lo'], inp['hi']
            keep = [i for i, a in enumerate(vals) if (lo is None or lo < a) and (hi is None or a < hi)]
            call = lambda: _range(coll, (lo, hi))              # noqa: E731
        else:
            code, x, y, z = inp['stmt']
            pr = _stmt_pred(code, x, y, z)
            keep = [i for i, a in enumerate(vals) if pr(a)]
            text = STMTS[code](x, y, z)
            sform = inp.get('sform', 0)
            if sform:
                text = _stmt_text(text, sform)
                sig['statement_form'] = sform
            call = lambda: coll.filter_by_conditional_statement(text)   # noqa: E731
        if not keep:
            return None
        want = [(keys[i], vals[i]) for i in keep]
        try:
            r = call()
        except Exception as ex:
            return _fail(_short(want), 'raises %s: %s' % (type(ex).__name__, str(ex)[:120]),
                         dict(sig, what='raises', err=type(ex).__name__))
        got = _pairs(r) if cls in ('cont', 'disc') else list(zip(r.datetimes, r.values))
        if got != want:
            return _fail(_short(want), _short(got), dict(sig, what='positions'))
        if _ap_fields(r.header.analysis_period) != src:
            return _fail('header period of the source', str(r.header.analysis_period), dict(sig, what='header'))
        if kind == 'pattern' and isinstance(parg, list):
            parg[:] = [not b for b in parg] + [True]
            got2 = _pairs(r) if cls in ('cont', 'disc') else list(zip(r.datetimes, r.values))
            if got2 != want:
                return _fail('the result does not change when the caller edits the pattern afterwards', _short(got2),
                             dict(sig, what='result-aliases-argument'))
        return None
    if op == 'keys':
        cls = inp['cls']
        keys = [tuple(k) if isinstance(k, list) else k for k in inp['keys']]
        apf, hapf, imm = inp.get('apf', 'ctor'), inp.get('hapf', 'ctor'), bool(inp.get('imm', False))
        shape = inp.get('shape', 'list')
        sig = {'cls': cls, 'by': inp['by']}
        if imm:
            sig['immutable'] = True
        if shape != 'list':
            sig['shape'] = shape
        if apf != 'ctor' or hapf != 'ctor':
            sig['period_built'] = '%s/%s' % (hapf, apf)
        if cls == 'daily':
            coll = _daily(src, keys, form=hapf)
        elif cls == 'monthly':
            coll = _monthly(src, keys, form=hapf)
        else:
            coll = _mph(src, keys, form=hapf)
        if imm:
            coll = coll.to_immutable()
        if inp['by'] == 'keys':
            req = [tuple(k) if isinstance(k, list) else k for k in inp['req']]
            karg = _shape(req, shape if shape in SHAPES_MANY else 'list')
            call = {'daily': lambda: coll.filter_by_doys(karg),
                    'monthly': lambda: coll.filter_by_months(karg),
                    'mph': lambda: coll.filter_by_months_per_hour(karg)}[cls]
            hdr = src
        else:
            f = tuple(inp['filter'])
            fm = _ref_moys(f)
            if cls == 'daily':
                req = set(m // 1440 + 1 for m in fm)
            else:
                y = 2016 if f[7] else 2017
                mons = set((datetime(y, 1, 1) + timedelta(minutes=m)).month for m in fm)
                if cls == 'monthly':
                    req = mons
                else:   # months of the period x times of day of the period (C04: months_per_hour is a product)
                    tod = set(m % 1440 for m in fm)
                    req = set((mo, t // 60, t % 60) for mo in mons for t in tod)
            call = lambda: coll.filter_by_analysis_period(_mk_ap(f, apf))   # noqa: E731
            hdr = f
        want = [(k, i) for i, k in enumerate(keys) if k in req]
        if not want:
            return None
        try:
            r = call()
        except Exception as ex:
            return _fail(_short(want), 'raises %s: %s' % (type(ex).__name__, str(ex)[:120]),
                         dict(sig, what='raises', err=type(ex).__name__))
        got = list(zip(r.datetimes, r.values))
        if got != want:
            return _fail(_short(want), _short(got), dict(sig, what='pairs'))
        if _ap_fields(r.header.analysis_period) != hdr:
            return _fail('header period %s' % (hdr,), str(r.header.analysis_period), dict(sig, what='header'))
        if inp['by'] == 'keys' and isinstance(karg, list):
            karg.reverse()
            karg.append(karg[0])
            if list(zip(r.datetimes, r.values)) != want:
                return _fail('the result does not change when the caller edits the key list afterwards',
                             _short(list(zip(r.datetimes, r.values))), dict(sig, what='result-aliases-argument'))
        return None
    raise ValueError('unknown op ' + op)


# ---------------------------------------------------------------------------------------------
# histories on ONE object (round 3): setters, in-place operations, refused operations, twins, chains
#
# A history is  init = {kind, mutable, ap, validated, keys, vals, dtype}  +  ops (JSON lists):
#   ['read', R] | ['chain', R] | ['repeat'] | ['setv', vals] | ['setbad', k] | ['seti', i, v] | ['cull', ts] |
#   ['unit', u] | ['dup'] | ['toimm'] | ['tomut'] | ['todisc']
#   R = ['keys', req] | ['hoys', floats] | ['period', fields, pre] | ['pattern', bools] | ['range', lo, hi] |
#       ['stmt', code, x, y, z] | ['all']
# kinds: c continuous, d discontinuous hourly, y daily, m monthly, p monthly-per-hour (oracle only).
# 'repeat' asks the last question again with the SAME argument object; 'pre' names a property of the
# (pooled, re-used) AnalysisPeriod object that is read before the filter; 'unit' (oracle only) is
# convert_to_unit / convert_to_ip / convert_to_si on a Temperature collection.


_STRICT = []


def _cont_cull_strict():
    """Does HourlyContinuousCollection of the tree under test have its own convert_to_culled_timestep that asserts
    `current_timestep % timestep == 0` (fixes/C13_continuous_cull_in_place_divisor.patch)?  Read off the source
    (AST), never by calling it; the model driver is asked for the matching machine (`hists` / `hist`)."""
    if not _STRICT:
        import ast
        from harness.core import REPO
        strict = False
        try:
            with open(os.path.join(REPO, 'ladybug', 'datacollection.py')) as fh:
                tree = ast.parse(fh.read())
            for cls in tree.body:
                if isinstance(cls, ast.ClassDef) and cls.name == 'HourlyContinuousCollection':
                    for fn in cls.body:
                        if isinstance(fn, ast.FunctionDef) and fn.name == 'convert_to_culled_timestep':
                            for st in ast.walk(fn):
                                if isinstance(st, ast.Assert) and any(
                                        isinstance(b, ast.BinOp) and isinstance(b.op, ast.Mod) for b in ast.walk(st.test)):
                                    strict = True
        except (OSError, SyntaxError):
            strict = False
        _STRICT.append(strict)
    return _STRICT[0]


KIND_NAMES = {'c': 'continuous', 'd': 'discontinuous', 'y': 'daily', 'm': 'monthly', 'p': 'monthly-per-hour'}


def _hist_build(init):
    from ladybug import datacollection as dc
    from ladybug import datacollectionimmutable as dci
    from ladybug.header import Header
    from ladybug.dt import DateTime
    kind, mutable, ap = init['kind'], init['mutable'], tuple(init['ap'])
    if init.get('dtype') == 'temp':
        from ladybug.datatype.temperature import Temperature
        header = Header(Temperature(), 'C', _mk_ap(ap, init.get('hapf', 'ctor')))
    else:
        header = _header(ap, init.get('hapf', 'ctor'))
    vals = list(init['vals'])
    name = {'c': 'HourlyContinuousCollection', 'd': 'HourlyDiscontinuousCollection', 'y': 'DailyCollection',
            'm': 'MonthlyCollection', 'p': 'MonthlyPerHourCollection'}[kind]
    cls = getattr(dc, name) if mutable else getattr(dci, name + 'Immutable')
    if kind == 'c':
        return cls(header, vals)
    keys = init['keys']
    if kind == 'd':
        keys = [DateTime.from_moy(m, ap[7]) for m in keys]
    elif kind == 'p':
        keys = [tuple(k) for k in keys]
    coll = cls(header, vals, list(keys))
    coll._validated_a_period = bool(init.get('validated', False))
    return coll


def _kind_of(coll):
    from ladybug import datacollection as dc
    if isinstance(coll, dc.HourlyContinuousCollection):
        return 'c'
    if isinstance(coll, dc.HourlyDiscontinuousCollection):
        return 'd'
    if isinstance(coll, dc.DailyCollection):
        return 'y'
    if isinstance(coll, dc.MonthlyCollection):
        return 'm'
    return 'p'


def _keys_of(coll):
    k = _kind_of(coll)
    if k in 'cd':
        return [d.moy for d in coll.datetimes]
    if k == 'p':
        return [tuple(d) for d in coll.datetimes]
    return [int(d) for d in coll.datetimes]


class _Real(object):
    """One object of the implementation and the argument objects of its history."""

    def __init__(self, init):
        self.obj = _hist_build(init)
        self.aps = {}
        self.last = None
        self.lastres = None
        self.twin = None
        if init.get('twin'):          # a second object of the same class, other values, alive in the same process
            other = dict(init, vals=[v + 7 for v in init['vals']][::-1])
            self.twin = _hist_build(other)

    def _ap(self, fields, form='ctor'):
        key = (tuple(fields), form)
        if key not in self.aps:
            self.aps[key] = _mk_ap(fields, form)
        return self.aps[key]

    def _arg(self, r, mods=None):
        t = r[0]
        mods = mods or {}
        shape = mods.get('shape', 'list')
        if t == 'keys':
            return _shape([tuple(k) if isinstance(k, list) else k for k in r[1]], shape)
        if t == 'hoys':
            return _shape(r[1], shape)
        if t == 'period':
            return self._ap(r[1], mods.get('apf', 'ctor'))
        if t == 'pattern':
            return _shape([bool(b) for b in r[1]], shape)
        return None

    def _ask(self, r, arg):
        o, t = self.obj, r[0]
        if t == 'keys':
            k = _kind_of(o)
            if k in 'cd':
                return o.filter_by_moys(arg)
            return getattr(o, {'y': 'filter_by_doys', 'm': 'filter_by_months', 'p': 'filter_by_months_per_hour'}[k])(arg)
        if t == 'hoys':
            return o.filter_by_hoys(arg)
        if t == 'period':
            pre = r[2] if len(r) > 2 else ''
            if pre == 'len':
                len(arg)
            elif pre:
                getattr(arg, pre)
            return o.filter_by_analysis_period(arg)
        if t == 'pattern':
            return o.filter_by_pattern(arg)
        if t == 'range':
            return _range(o, (r[1], r[2]))
        if t == 'stmt':
            return o.filter_by_conditional_statement(STMTS[r[1]](*r[2:5]))
        if t == 'all':
            return o
        raise ValueError('unknown read %r' % (r,))

    def do(self, op):
        """-> ('coll', collection, is_all) | ('done',) | ('err', class name, message)."""
        try:
            with _quiet():
                return self._do(op)
        except Exception as e:
            return ('err', err_name(e), '%s: %s' % (type(e).__name__, str(e)[:160]))

    def _do(self, op):
        t, o = op[0], self.obj
        if t in ('read', 'chain', 'repeat'):
            if t == 'repeat':
                if self.last is None:
                    return ('coll', o, True)
                r, arg, mods = self.last
                if mods.get('shape') in SHAPES_ONCE:
                    arg = self._arg(r, mods)         # a used-up iterator cannot be asked again
            else:
                r = op[1]
                mods = op[2] if len(op) > 2 and isinstance(op[2], dict) else {}
                arg = self._arg(r, mods)
                self.last = (r, arg, mods)
            if self.twin is not None and r[0] != 'all':
                try:
                    self.obj = self.twin
                    self._ask(r, self._arg(r, mods))
                except Exception:
                    pass
                finally:
                    self.obj = o
            res = self._ask(r, arg)
            self.lastres = res if r[0] != 'all' else None
            if t == 'chain':
                self.obj = res if r[0] != 'all' else res.to_mutable()
                self.twin = None
                self.lastres = None
            return ('coll', res, r[0] == 'all')
        if t == 'edit':
            # the caller edits what the last question gave back / the list it asked with
            res, how = self.lastres, op[1]
            if how == 2:
                arg = self.last[1] if self.last else None
                if isinstance(arg, list) and arg:
                    arg.reverse()
                    arg.append(arg[0])
                    r, _, mods = self.last
                    self.last = (r, self._arg(r, mods), mods)
                return ('done',)
            if res is None:
                return ('done',)
            if how == 0:
                res[0] = res[0] + 1000
            else:
                res.values = [v + 1000 for v in res.values]
            return ('done',)
        if t == 'setv':
            o.values = list(op[1])
        elif t == 'setbad':
            k = op[1]
            o.values = (x for x in [1, 2, 3]) if k == 1 else ['abc', {'a': 1}, 7, None][len(o) % 4]
        elif t == 'seti':
            o[op[1]] = op[2]
        elif t == 'cull':
            o.convert_to_culled_timestep(op[1])
        elif t == 'unit':
            u = op[1]
            if u == 'ip':
                o.convert_to_ip()
            elif u == 'si':
                o.convert_to_si()
            else:
                o.convert_to_unit(u)
        elif t == 'dup':
            self.obj = o.duplicate()
        elif t == 'toimm':
            self.obj = o.to_immutable()
        elif t == 'tomut':
            self.obj = o.to_mutable()
        elif t == 'todisc':
            self.obj = o.to_discontinuous()
        else:
            raise ValueError('unknown op %r' % (op,))
        return ('done',)


def _show_all(coll):
    k = _kind_of(coll)
    keys = _keys_of(coll)
    vals = coll.values
    return ('ok A %s %s %s %d %s' % (k, _line_ap(_ap_fields(coll.header.analysis_period)), _b(coll.validated_a_period),
                                      len(vals), ' '.join('%s %s' % kv for kv in zip(keys, vals)))).rstrip()


def _hist_text(res):
    if res[0] == 'done':
        return 'done'
    if res[0] == 'err':
        return 'err:' + res[1]
    try:
        with _quiet():
            return _show_all(res[1]) if res[2] else _show(res[1])
    except Exception as e:
        return 'err-show:' + err_name(e)


def _run_real_history(case):
    init, ops = case
    try:
        with _quiet():
            real = _Real(init)
    except Exception as e:
        return 'err-build:' + err_name(e)
    return ' | '.join(_hist_text(real.do(op)) for op in ops)


def _read_tokens(r):
    t = r[0]
    if t == 'keys':
        return 'keys %s' % _ints(r[1])
    if t == 'hoys':
        return 'hoys %d %s' % (len(r[1]), ' '.join(_fbits(h) for h in r[1]))
    if t == 'period':
        return 'period %s' % _line_ap(r[1])
    if t == 'pattern':
        return 'pattern %s' % _ints([1 if b else 0 for b in r[1]])
    if t == 'range':
        return 'range %s %s' % (_opt(r[1]), _opt(r[2]))
    if t == 'stmt':
        return 'stmt %d %d %d %d' % tuple(r[1:5])
    return 'all'


def _hist_line(case):
    """Request line of the model driver for a history (no 'unit' ops, no kind 'p')."""
    init, ops = case
    toks = []
    last = None
    for op in ops:
        t = op[0]
        if t in ('read', 'chain'):
            last = op[1]
            toks.append('%s %s' % (t, _read_tokens(op[1])))
        elif t == 'repeat':
            toks.append('read %s' % _read_tokens(last if last is not None else ['all']))
        elif t == 'setv':
            toks.append('setv %s' % _ints(op[1]))
        elif t == 'setbad':
            toks.append('setbad %d' % op[1])
        elif t == 'seti':
            toks.append('seti %d %d' % (op[1], op[2]))
        elif t == 'cull':
            toks.append('cull %d' % op[1])
        else:
            toks.append(t)
    return '%s %%s %%s %%s %%s %%s %%s %%d %%s' % ('hists' if _cont_cull_strict() else 'hist') % (
        init['kind'], _b(init['mutable']), _line_ap(init['ap']), _b(init.get('validated', False)),
        _ints(init['keys'] if init['kind'] != 'c' else []), _ints(init['vals']), len(ops), ' '.join(toks))


# -- the specification of an object: a pure function of its public state -------------------------


class _Shadow(object):
    """Public state of a collection as the user established it, and what the property requires of a
    filter of it (plain Python from the statement; no model, no implementation)."""

    def __init__(self, init):
        self.kind = init['kind']
        self.mutable = bool(init['mutable'])
        self.ap = tuple(init['ap'])
        self.vals = list(init['vals'])
        if self.kind == 'c':
            self.keys = _ref_moys(self.ap)
        elif self.kind == 'p':
            self.keys = [tuple(k) for k in init['keys']]
        else:
            self.keys = list(init['keys'])
        self.temp = init.get('dtype') == 'temp'
        self.last = None
        self.note = None      # 'cont-cull-nondividing': date-times no longer the steps of the header period

    def pairs(self):
        return list(zip(self.keys, self.vals))

    # -- what a read must answer: None = outside the property's quantifier; else
    #    {'want': pairs, 'ordered': bool, 'header': 'same' | 'contains' | fields}
    def expect(self, r):
        t, kind = r[0], self.kind
        ps = self.pairs()
        if t == 'all':
            return {'want': ps, 'ordered': True, 'header': self.ap, 'all': True}
        if t in ('keys', 'hoys'):
            if kind not in 'cd' and t == 'hoys':
                return None
            if t == 'hoys':
                req = [int(round(h * 60)) for h in r[1]]
                if any(abs(h * 60 - m) > 1e-6 for h, m in zip(r[1], req)):
                    return None
            else:
                req = [tuple(k) if isinstance(k, list) else k for k in r[1]]
            have = set(self.keys)
            if kind in 'cd':
                if not req or len(set(req)) != len(req) or any(m not in have for m in req):
                    return None
                if len(have) != len(self.keys):
                    return None
                rs = set(req)
                return {'want': [p for p in ps if p[0] in rs], 'ordered': False, 'header': self.ap}
            rs = set(req)
            want = [p for p in ps if p[0] in rs]
            return {'want': want, 'ordered': True, 'header': self.ap} if want else None
        if t == 'period':
            f = tuple(r[1])
            if kind == 'c':
                if f[6] != self.ap[6] or f[7] != self.ap[7] or self.note:
                    return None
                e, dom = _ref_clip(self.ap, f)
                if not e or not dom:
                    return None
                at = dict(ps)
                return {'want': [(m, at[m]) for m in e], 'ordered': True, 'header': 'contains'}
            if kind == 'd':
                if f[6] != self.ap[6] or f[7] != self.ap[7]:
                    return None
                order = {}
                for i, m in enumerate(_ref_moys(f)):
                    order.setdefault(m, i)
                want = sorted([p for p in ps if p[0] in order], key=lambda p: order[p[0]])
                return {'want': want, 'ordered': True, 'header': 'contains'} if want else None
            fm = _ref_moys(f)
            if kind == 'y':
                if f[7] != self.ap[7]:
                    return None
                req = set(m // 1440 + 1 for m in fm)
            else:
                y = 2016 if f[7] else 2017
                mons = set((datetime(y, 1, 1) + timedelta(minutes=m)).month for m in fm)
                if kind == 'm':
                    req = mons
                else:
                    tod = set(m % 1440 for m in fm)
                    req = set((mo, x // 60, x % 60) for mo in mons for x in tod)
            want = [p for p in ps if p[0] in req]
            return {'want': want, 'ordered': True, 'header': f} if want else None
        if t == 'pattern':
            pat = r[1]
            if not pat:
                return None
            want = [p for i, p in enumerate(ps) if pat[i % len(pat)]]
        elif t == 'range':
            lo, hi = r[1], r[2]
            want = [p for p in ps if (lo is None or lo < p[1]) and (hi is None or p[1] < hi)]
        elif t == 'stmt':
            if self.temp:
                return None
            pr = _stmt_pred(r[1], r[2], r[3], r[4])
            want = [p for p in ps if pr(p[1])]
        else:
            raise ValueError('unknown read %r' % (r,))
        return {'want': want, 'ordered': True, 'header': self.ap} if want else None

    # -- the unchanged implementation's acceptance rules (used by the generator only)
    def accepts(self, op):
        t = op[0]
        n = len(self.vals)
        if t == 'setv':
            return self.mutable and len(op[1]) == n and n > 0
        if t == 'setbad':
            return False
        if t == 'seti':
            return self.mutable and -n <= op[1] < n
        if t == 'cull':
            if self.kind == 'c' and _cont_cull_strict() and (op[1] not in VALID_TS or self.ap[6] % op[1] != 0):
                return False          # the strict continuous class refuses a non-dividing timestep (AssertionError)
            return self.mutable and self.kind in 'cd' and op[1] in VALID_TS
        if t == 'unit':
            return self.mutable and self.temp and op[1] in ('C', 'F', 'K', 'ip', 'si')
        if t == 'todisc':
            return self.kind == 'c'
        return True

    def apply(self, op, values_after=None):
        """The public state after an ACCEPTED setter / in-place operation / conversion.
        Returns False when the shadow cannot follow (the history ends without a verdict)."""
        t = op[0]
        n = len(self.vals)
        if t == 'setv':
            if len(op[1]) != n:
                return False
            self.vals = list(op[1])
        elif t == 'seti':
            if not -n <= op[1] < n:
                return False
            self.vals[op[1]] = op[2]
        elif t == 'cull':
            if self.kind not in 'cd' or op[1] not in VALID_TS:
                return False
            step = 60 // op[1]
            ps = [p for p in self.pairs() if p[0] % step == 0]
            self.ap = self.ap[:6] + (op[1], self.ap[7])
            self.keys = [p[0] for p in ps]
            self.vals = [p[1] for p in ps]
            if self.kind == 'c' and self.keys != _ref_moys(self.ap):
                self.note = 'cont-cull-nondividing'
            if not ps:
                return False
        elif t == 'unit':
            if values_after is None or len(values_after) != n:
                return False
            self.vals = list(values_after)
        elif t == 'toimm':
            self.mutable = False
        elif t == 'tomut':
            self.mutable = True
        elif t == 'todisc':
            if self.kind != 'c':
                return False
            self.kind, self.mutable = 'd', True
        elif t in ('dup', 'edit'):
            pass
        else:
            return False
        return True

    def become(self, kind, ap, keys, vals):
        self.kind, self.mutable, self.ap, self.keys, self.vals = kind, True, tuple(ap), list(keys), list(vals)
        self.note = None


def _judge_read(exp, res, leap):
    """Compare what a read answered (`res` of _Real.do) with what the property requires (`exp`)."""
    want = exp['want']
    if res[0] == 'err':
        return ('%d pairs %s' % (len(want), _short(want, 3)), 'raises ' + res[2], 'raises')
    if res[0] != 'coll':
        return ('a collection', repr(res), 'no-result')
    r = res[1]
    try:
        with _quiet():
            got = list(zip(_keys_of(r), r.values))
            hdr = _ap_fields(r.header.analysis_period)
            if exp.get('all'):
                extra = None
                if len(r) != len(want):
                    extra = 'len() = %d' % len(r)
                elif list(iter(r)) != [v for _, v in want]:
                    extra = 'iteration gives %s' % _short(list(iter(r)))
                elif _kind_of(r) in 'cd' and len(set(k for k, _ in want)) == len(want) and r.moys_dict != dict(want):
                    extra = 'moys_dict differs'
                if extra:
                    return ('%d pairs %s' % (len(want), _short(want, 3)), extra, 'state')
            bad_leap = _dt_problem(r, leap) if _kind_of(r) in 'cd' else None
    except Exception as e:
        return ('%d pairs %s' % (len(want), _short(want, 3)), 'reading the result raises %s: %s' % (type(e).__name__, e),
                'raises')
    if exp['ordered']:
        if got != want:
            what = 'pairs' if Counter(got) != Counter(want) else 'order'
            return (_short(want), _short(got), what)
    elif Counter(got) != Counter(want):
        return (_short(sorted(want)), _short(sorted(got)), 'pairs')
    h = exp['header']
    if h == 'contains':
        hm = set(_ref_moys(hdr))
        out = [m for m, _ in got if m not in hm]
        if out:
            return ('header period %s contains every result date-time' % (hdr,), 'minute %d is not a step of it' % out[0],
                    'header')
    elif tuple(h) != hdr:
        return ('header period %s' % (tuple(h),), str(hdr), 'header')
    if bad_leap:
        return ('date-times of the source year', bad_leap, 'leap')
    return None


def _check_history(inp):
    """Oracle for a history: after every step the observables the property speaks about are those of
    the public state the user established; a refused operation leaves them as they were."""
    init, ops = inp['init'], inp['ops']
    sh = _Shadow(init)
    sig0 = {'cls': init['kind'], 'mutable': bool(init['mutable'])}
    try:
        with _quiet():
            real = _Real(init)
    except Exception as e:
        return _fail('the collection can be built', 'raises %s: %s' % (type(e).__name__, str(e)[:120]),
                     dict(sig0, what='build', err=type(e).__name__))
    done = []
    marks = []
    held = []            # results the caller keeps: [collection, pairs it must go on holding]
    for k, op in enumerate(ops):
        t = op[0]
        res = real.do(op)
        if t == 'edit' and res[0] == 'done' and held and real.lastres is held[-1][0] and op[1] in (0, 1):
            ps = held[-1][1]
            held[-1][1] = [(kk, v + 1000) if (op[1] == 1 or i == 0) else (kk, v) for i, (kk, v) in enumerate(ps)]
        elif t == 'edit' and res[0] == 'err':
            return _fail('the caller can edit the collection a filter returned (%s)' % _op_name(op), 'raises ' + res[2],
                         dict(sig0, what='edit-refused', step=k))
        for hc, hp in held:
            try:
                with _quiet():
                    now = list(zip(_keys_of(hc), hc.values))
            except Exception as e:
                now = 'raises %s' % type(e).__name__
            if now != hp:
                hist = ', '.join(_op_name(o) for o in done + [op])
                return _fail('a result handed out earlier keeps its pairs %s after [%s]' % (_short(hp), hist),
                             _short(now) if isinstance(now, list) else now,
                             dict(sig0, what='held-result-changed', step=k, by=t))
        if t not in ('read', 'repeat'):
            marks.append(t + ('-refused' if res[0] == 'err' else ''))
        if t in ('read', 'chain', 'repeat'):
            r = sh.last if t == 'repeat' else op[1]
            if r is None:
                r = ['all']
            sh.last = r
            exp = sh.expect(r)
            if exp is not None:
                bad = _judge_read(exp, res, sh.ap[7])
                if not bad and t != 'chain' and not exp.get('all') and res[0] == 'coll' and res[1] is not real.obj:
                    with _quiet():
                        held.append([res[1], list(zip(_keys_of(res[1]), res[1].values))])
                    del held[:-3]
                if bad:
                    hist = ', '.join(_op_name(o) for o in done) or 'nothing'
                    return _fail('after [%s] the %s collection answers %s with %s' % (hist, KIND_NAMES[sh.kind],
                                                                                      _op_name(op), bad[0]),
                                 bad[1], dict(sig0, what=bad[2], read=r[0], step=k, state=sh.note or 'coherent',
                                              after=sorted(set(marks[:-1] if t == 'chain' else marks))))
            if t == 'chain':
                if res[0] == 'coll':
                    if exp is None:
                        return None                      # cannot follow an answer outside the quantifier
                    c = res[1]
                    with _quiet():
                        sh.become(_kind_of(c), _ap_fields(c.header.analysis_period), _keys_of(c), c.values)
        elif res[0] == 'done' and not sh.accepts(op):
            # an operation that should have been refused went through: when the object still is a collection
            # (one value per date-time, a continuous one in step with its header) that is the new public state;
            # otherwise the last state the user established stays the reference for the filters that follow
            marks[-1] = t + '-accepted'
            try:
                with _quiet():
                    o = real.obj
                    kk, kv = _keys_of(o), list(o.values)
                    kap, kkind = _ap_fields(o.header.analysis_period), _kind_of(o)
                if len(kk) == len(kv) and kv and (kkind != 'c' or kk == _ref_moys(kap)):
                    mut = sh.mutable
                    sh.become(kkind, kap, kk, kv)
                    sh.mutable = mut
            except Exception:
                pass
        elif res[0] == 'done':
            after = None
            if t == 'unit':
                with _quiet():
                    after = list(real.obj.values)
            if not sh.apply(op, after):
                return None
        # a refused operation (res[0] == 'err'): the public state is the one before
        done.append(op)
    return None


def _op_name(op):
    t = op[0]
    if t in ('read', 'chain'):
        r = op[1]
        arg = '' if r[0] == 'all' else json.dumps(r[1:])[:80]
        return '%s %s%s' % ('filter' if t == 'read' else 'go on with filter', r[0], arg)
    if t == 'setv':
        return 'values = <%d values>' % len(op[1])
    if t == 'setbad':
        return 'values = <no list>'
    if t == 'seti':
        return 'coll[%d] = %d' % (op[1], op[2])
    if t == 'cull':
        return 'convert_to_culled_timestep(%d)' % op[1]
    if t == 'unit':
        return 'convert to %s' % op[1]
    if t == 'edit':
        return ['result[0] += 1000', 'result.values = <values + 1000>', 'edit the request list'][op[1]]
    return {'dup': 'duplicate()', 'toimm': 'to_immutable()', 'tomut': 'to_mutable()', 'todisc': 'to_discontinuous()',
            'repeat': 'the same question again'}[t]


# -- generator of histories ----------------------------------------------------------------------


def _hist_init(rng, model_only):
    kind = rng.choice('ccccdddyym' if model_only else 'ccccdddyymp')
    leap = rng.random() < 0.5
    n = _ndays(leap)
    mutable = rng.random() < 0.75
    ts = rng.choice(VALID_TS)
    init = {'kind': kind, 'mutable': mutable, 'validated': rng.random() < 0.5, 'dtype': 'id'}
    if kind == 'c':
        shape = rng.choice(['partial', 'partial', 'wrapping', 'feb', 'year-end', 'year-start'])
        maxdays = max(1, min(4, 1500 // (24 * ts)))
        length = rng.randrange(1, maxdays + 1)
        if shape == 'wrapping' and length > 1:
            la = rng.randrange(1, length)
            a, b = n - la + 1, length - la
        else:
            a = {'feb': max(1, 60 - rng.randrange(0, length + 1)), 'year-end': n - length + 1,
                 'year-start': 1}.get(shape, rng.randrange(1, n - length + 2))
            a = max(1, min(a, n - length + 1))
            b = a + length - 1
        ap = _date(leap, a) + (0,) + _date(leap, b) + (23, ts, leap)
        nv = len(_ref_days(ap)) * 24 * ts
        init.update(ap=list(ap), keys=[])
    elif kind == 'd':
        shape = rng.choice(['holes', 'holes', 'single', 'year-ends', 'unsorted', 'full'])
        a = rng.randrange(1, n - 2)
        ap = _date(leap, a) + (rng.choice([0, 0, 6]),) + _date(leap, a + rng.randrange(0, 3)) + (rng.choice([23, 23, 18]), ts, leap)
        if shape == 'year-ends':
            ap = (12, 31, 0, 1, 1, 23, ts, leap)
        base = _ref_moys(ap)
        if len(base) > 600:
            base = base[:300] + base[-300:]
        if shape == 'single':
            keys = [rng.choice([base[0], base[-1], rng.choice(base)])]
        elif shape == 'full':
            keys = list(base)
        else:
            keys = [m for m in base if rng.random() < 0.6] or base[:1]
        if shape == 'unsorted':
            rng.shuffle(keys)
        nv = len(keys)
        init.update(ap=list(ap), keys=keys)
    elif kind == 'y':
        ap = _key_period(rng, leap, ts=rng.choice([1, 1, 2])) if rng.random() < 0.5 else (1, 1, 0, 12, 31, 23, 1, leap)
        shape = rng.choice(['full', 'ends', 'random', 'single'])
        if shape == 'full':
            keys = list(range(1, n + 1))
        elif shape == 'ends':
            keys = [1, 2, 59, 60, 61, n - 1, n]
        elif shape == 'single':
            keys = [rng.choice([1, 60, n])]
        else:
            keys = sorted(rng.sample(range(1, n + 1), rng.choice([3, 10, 40])))
        nv = len(keys)
        init.update(ap=list(ap), keys=keys)
    elif kind == 'm':
        ap = _key_period(rng, leap, ts=1) if rng.random() < 0.5 else (1, 1, 0, 12, 31, 23, 1, leap)
        keys = rng.choice([list(range(1, 13)), [12, 1, 2], [1], [12], sorted(rng.sample(range(1, 13), 5))])
        nv = len(keys)
        init.update(ap=list(ap), keys=keys)
    else:
        ts = rng.choice([1, 2, 4, 6])
        step = 60 // ts
        ap = _key_period(rng, leap, ts=ts)
        months = rng.sample(range(1, 13), 2) + [12]
        allk = [(mo, h, mi) for mo in months for h in range(24) for mi in range(0, 60, step)]
        keys = [list(k) for k in rng.sample(allk, rng.choice([1, 5, 30]))]
        nv = len(keys)
        init.update(ap=list(ap), keys=keys)
    r = rng.random()
    if r < 0.35:
        init['vals'] = list(range(nv))
    else:
        init['vals'] = [rng.randrange(-20, 21) for _ in range(nv)]
    if not model_only and kind != 'p' and rng.random() < 0.3:
        init['dtype'] = 'temp'
    if rng.random() < 0.4:
        init['hapf'] = rng.choice(AP_FORMS)        # how the header period is built (the model sees the fields)
    if not model_only and rng.random() < 0.3:
        init['twin'] = True                        # a second object of the class is asked first, every time
    return init


def _read_mods(rng, kind, rd, model_only=False):
    """How the argument of a question is handed over: container type / one-shot iterable (kind (f)), the entry point
    that builds the period (kind (i)).  Only forms the unchanged implementation documents or handles in one pass:
    the search-based filters test `x in arg` once per step, so they get containers."""
    t = rd[0]
    if rng.random() < 0.45:
        return None
    if model_only and kind == 'c' and t in ('keys', 'hoys'):
        return {'shape': rng.choice(SHAPES_ONCE + ('tuple',))}      # the model answers in the order of the request
    if t == 'keys':
        return {'shape': rng.choice(SHAPES_ONCE + SHAPES_MANY if kind == 'c' else SHAPES_MANY)}
    if t == 'hoys':
        return {'shape': rng.choice(SHAPES_ONCE + SHAPES_MANY)}
    if t == 'period':
        return {'apf': rng.choice(AP_FORMS)}
    if t == 'pattern':
        return {'shape': 'tuple'}
    return None


def _with_mods(rng, kind, t, rd, model_only=False):
    m = _read_mods(rng, kind, rd, model_only)
    return [t, rd, m] if m else [t, rd]


def _hist_read(rng, sh, model_only):
    """One question to the object in its current public state (mostly inside the quantifier)."""
    kind = sh.kind
    keys = sh.keys
    n = len(keys)
    t = rng.choice(['keys', 'keys', 'period', 'period', 'pattern', 'range', 'stmt', 'all', 'hoys'])
    if t == 'hoys' and kind not in 'cd':
        t = 'keys'
    if t == 'stmt' and sh.temp:
        t = 'range'
    if t in ('keys', 'hoys'):
        k = rng.choice([1, 1, 2, 5, min(n, 20)])
        req = rng.sample(keys, min(k, n))
        if rng.random() < 0.3:
            req = list(OrderedDict.fromkeys([keys[0], keys[-1]] + req))
        if rng.random() < 0.12:         # not in the collection / nothing at all
            req = req + [rng.choice([-60, 0, 1, 366, 367, 13, 527040, 999999])] if kind != 'p' else req + [(13, 0, 0)]
            if rng.random() < 0.3:
                req = []
        if t == 'hoys':
            return ['hoys', [m / 60.0 for m in req]]
        return ['keys', [list(x) if isinstance(x, tuple) else x for x in req]]
    if t == 'period':
        pre = rng.choice(['', '', '', 'moys', 'len', 'hoys', 'datetimes', 'doys_int', 'months_int', 'hoys_int', 'months_per_hour',
                          'is_reversed', 'st_time'])
        if kind == 'c':
            fk = rng.choice(PERIOD_KINDS)
            f = _gen_filter(rng, sh.ap, fk)
        elif kind == 'd':
            a = (keys[0] // 1440) + 1
            nd = _ndays(sh.ap[7])
            fa = max(1, a - rng.randrange(0, 2))
            fb = min(nd, fa + rng.randrange(0, 4))
            shh, ehh = rng.choice([(0, 23), (0, 23), _rand_window(rng)])
            f = _date(sh.ap[7], fa) + (shh,) + _date(sh.ap[7], fb) + (ehh, sh.ap[6], sh.ap[7])
            if rng.random() < 0.25:
                f = (12, 31, shh, 1, 1, ehh, sh.ap[6], sh.ap[7])
            if rng.random() < 0.06:
                f = f[:6] + (rng.choice([x for x in VALID_TS if x != sh.ap[6]]), sh.ap[7])
        else:
            f = _key_period(rng, sh.ap[7] if rng.random() < 0.92 else not sh.ap[7], ts=rng.choice([1, 2, 4]))
        if _fsteps(f) > 6000:
            f = f[:6] + (sh.ap[6] if kind in 'cd' else 1, f[7])
            if _fsteps(f) > 6000 and not (f[2] == 0 and f[5] == 23):
                f = f[:2] + (0,) + f[3:5] + (23,) + f[6:]
        if _fsteps(f) > 2000 and pre in ('moys', 'hoys', 'datetimes', 'hoys_int'):
            pre = rng.choice(['', 'doys_int', 'months_int'])       # enumerating a long period costs 10-50 ms
        return ['period', list(f), pre]
    if t == 'pattern':
        plen = rng.choice([1, 1, 2, 3, 7, n, n + 2, max(1, n - 1), 0])
        pat = [rng.random() < 0.5 for _ in range(plen)]
        if rng.random() < 0.15:
            pat = [rng.random() < 0.5] * plen
        return ['pattern', pat]
    if t == 'range':
        if sh.temp:
            pool = [None, None, 0, 0.0, -5, 5, 273.15, 32.0]
        elif model_only:
            pool = [None, None, 0, 0, -5, 5, int(rng.choice(sh.vals)), int(min(sh.vals)), int(max(sh.vals))]
        else:
            pool = [None, None, 0, 0, 0.0, -0.0, -5, 5, rng.choice(sh.vals), min(sh.vals), max(sh.vals)]
        return ['range', rng.choice(pool), rng.choice(pool)]
    if t == 'stmt':
        return ['stmt', rng.randrange(4), rng.randrange(-20, 20), rng.randrange(1, 6), rng.randrange(0, 3)]
    return ['all']


def _gen_history(rng, model_only, nops=None):
    """(init, ops): a generated history; the generator follows the public state with `_Shadow` under
    the acceptance rules of the unchanged implementation, so that later questions refer to steps that
    are present."""
    init = _hist_init(rng, model_only)
    sh = _Shadow(init)
    ops = []
    nops = nops or rng.choice([3, 5, 7, 9, 12])
    first_refused = rng.random() < 0.15
    while len(ops) < nops:
        n = len(sh.vals)
        r = rng.random()
        if first_refused and not ops:
            r = 0.62
        elif ops and ops[-1][0] not in ('read', 'repeat') and rng.random() < 0.7:
            r = 0.0                       # a question right after a setter / refused operation / conversion
        if r < 0.5:
            rd = _hist_read(rng, sh, model_only)
            ops.append(_with_mods(rng, sh.kind, 'read', rd, model_only))
            sh.last = rd
            if not model_only and rd[0] != 'all' and rng.random() < 0.25:
                ops.append(['edit', rng.choice([0, 1, 2])])      # the caller edits the answer / the request list
            continue
        if r < 0.56:
            ops.append(['repeat'])
            continue
        if r < 0.7:                       # operations the implementation refuses
            cand = [['setv', [rng.randrange(-9, 10) for _ in range(rng.choice([n + 1, max(0, n - 1), 0, 2 * n + 1]))]],
                    ['setbad', rng.choice([0, 0, 1])],
                    ['seti', rng.choice([n, -n - 1, n + 5]), rng.randrange(-9, 10)],
                    ['cull', rng.choice([0, 7, 8, 9, 61, 24])]]
            if not model_only:
                cand.append(['unit', 'X'])
            if sh.kind == 'c' and _cont_cull_strict():
                nd = [x for x in VALID_TS if sh.ap[6] % x != 0]
                if nd:
                    cand += [['cull', rng.choice(nd)], ['cull', rng.choice(nd)]]
            if sh.kind != 'c':
                cand.append(['todisc'])
            if not sh.mutable:            # everything is refused by an immutable twin
                cand += [['setv', [rng.randrange(-9, 10) for _ in range(n)]], ['seti', rng.randrange(-n, n), 3],
                         ['cull', 1]]
            op = rng.choice(cand)
            if sh.accepts(op):
                continue
            ops.append(op)
        elif r < 0.88:                    # accepted setters / in-place operations
            cand = [['setv', [rng.randrange(-20, 21) for _ in range(n)]],
                    ['seti', rng.choice([0, -1, n - 1, -n, rng.randrange(-n, n)]), rng.choice([0, rng.randrange(-20, 21)])]]
            if sh.kind == 'c':
                cand += [['cull', x] for x in VALID_TS if sh.ap[6] % x == 0 and x != sh.ap[6]][:3]
            elif sh.kind == 'd':
                fit = [x for x in VALID_TS if any(m % (60 // x) == 0 for m in sh.keys)]
                cand += [['cull', rng.choice(fit)], ['cull', rng.choice(fit)]] if fit else []
            if sh.temp and not model_only:
                cand += [['unit', rng.choice(['K', 'F', 'C', 'ip', 'si'])]] * 2
            op = rng.choice(cand)
            if not sh.accepts(op):
                continue
            if op[0] == 'unit':           # the generator cannot know the converted values: stop following
                ops.append(op)
                ops.append(['read', ['all']])
                ops.append(['read', ['pattern', [True, False]]])
                break
            if not sh.apply(op):
                break
            ops.append(op)
        elif r < 0.95:
            op = [rng.choice(['dup', 'toimm', 'tomut', 'todisc' if sh.kind == 'c' else 'dup'])]
            if not sh.apply(op):
                break
            ops.append(op)
        else:                             # go on with the result of a filter
            rd = _hist_read(rng, sh, model_only)
            exp = sh.expect(rd)
            if exp is None or rd[0] == 'all':
                continue
            want = exp['want']
            kind_before = sh.kind
            if rd[0] == 'period' and sh.kind == 'c':
                f = _apsubset_ref(sh.ap, tuple(rd[1]))
                if f is None:
                    continue
                if f[2] == 0 and f[5] == 23:
                    sh.become('c', f, [m for m, _ in want], [v for _, v in want])
                else:
                    sh.become('d', f, [m for m, _ in want], [v for _, v in want])
            elif rd[0] == 'period':
                sh.become(sh.kind, tuple(rd[1]), [m for m, _ in want], [v for _, v in want])
            elif rd[0] in ('keys', 'hoys') and sh.kind == 'c':
                req = rd[1] if rd[0] == 'keys' else [int(round(h * 60)) for h in rd[1]]
                at = dict(want)
                sh.become('d', sh.ap, req, [at[m] for m in req])
            else:
                sh.become('d' if sh.kind == 'c' else sh.kind, sh.ap, [m for m, _ in want], [v for _, v in want])
            ops.append(_with_mods(rng, kind_before, 'chain', rd, model_only))
            sh.last = rd
    ops.append(_with_mods(rng, sh.kind, 'read', _hist_read(rng, sh, model_only), model_only))
    ops.append(['read', ['all']])
    return init, ops


def _apsubset_ref(src, f):
    """Header period the continuous period filter gives its result when the filter lies inside the
    source (then it is the filter itself); None when the filter is clipped (the generator does not
    continue with such a result)."""
    fm, sset = _ref_moys(f), set(_ref_moys(src))
    return f if all(m in sset for m in fm) else None


# ---------------------------------------------------------------------------------------------
# process-order independence: a slice of the oracle stream in fresh Python processes, each with its
# own order of the cases (module / class level state polluted by an earlier case shows as a failure
# that carries the order)


def _worker_main():
    """Entry point of the fresh process: evaluate the cases read from stdin in the order given."""
    data = json.load(sys.stdin)
    out = []
    for op, inp in data['cases']:
        try:
            res = check_case(op, inp)
        except Exception as e:
            res = {'required': 'oracle evaluates', 'observed': 'exception %s: %s' % (type(e).__name__, e),
                   'sig': {'exception': type(e).__name__}}
        out.append(res)
    sys.stdout.write('\n@@RESULT@@' + json.dumps(out, default=str))


def _fresh_process(cases, timeout=600):
    """Run `check_case` on the (op, inp) pairs, in this order, in a fresh interpreter."""
    from harness.core import REPO, ROOT
    code = ('import sys; sys.path[:0] = [%r, %r]; from harness.props import c02; c02._worker_main()' % (REPO, ROOT))
    env = dict(os.environ, LADYBUG_REPO=REPO)
    p = subprocess.run([sys.executable, '-c', code], input=json.dumps({'cases': cases}).encode('utf-8'),
                       stdout=subprocess.PIPE, stderr=subprocess.PIPE, env=env, timeout=timeout)
    out = p.stdout.decode('utf-8', 'replace')
    if p.returncode != 0 or '@@RESULT@@' not in out:
        msg = 'fresh process failed (exit %d): %s' % (p.returncode, p.stderr.decode('utf-8', 'replace')[-400:])
        return [{'required': 'the cases evaluate in a fresh process', 'observed': msg,
                 'sig': {'what': 'process', 'exit': p.returncode}}] + [None] * (len(cases) - 1)
    return json.loads(out.split('@@RESULT@@')[1])


def _check_procorder(inp):
    """Replay of a process-order failure: the cases of `inp['order']` (ids into `inp['cases']`) evaluated in a
    fresh process in that order; the verdict is the one of the last case."""
    cases = [inp['cases'][str(i)] for i in inp['order']]
    res = _fresh_process(cases)
    bad = [(i, r) for i, r in zip(inp['order'], res) if r]
    if not bad:
        return None
    i, r = bad[-1] if bad[-1][0] == inp['order'][-1] else bad[0]
    sig = dict(r.get('sig') or {})
    sig['process_order'] = True
    return _fail('%s (case %s, evaluated in a fresh process after the cases %s)' % (r.get('required'), i, inp['order'][:-1]),
                 r.get('observed'), sig)


def _rarity(case):
    """Sort key that puts the rare classes first: leap, wrapping, sub-hourly, immutable, refused-first."""
    op, inp = case
    src = inp.get('src') or (inp.get('init') or {}).get('ap') or [1, 1, 0, 12, 31, 23, 1, False]
    score = 0
    score += 4 if src[7] else 0
    score += 3 if (src[0], src[1]) > (src[3], src[4]) else 0
    score += 2 if src[6] > 4 else (1 if src[6] > 1 else 0)
    if op == 'history':
        score += 2 if not inp['init']['mutable'] else 0
        ops = inp['ops']
        score += 3 if ops and ops[0][0] in ('setv', 'setbad', 'seti', 'cull', 'unit', 'todisc') else 0
    return -score


def _process_order(ctx, cases):
    """Evaluate `cases` in 2-4 fresh processes with different orders; record failures with a replay."""
    nproc = ctx.n(2, 4) if not ctx.searching else 4
    idx = list(range(len(cases)))
    orders = [sorted(idx, key=lambda i: (_rarity(cases[i]), i)),
              sorted(idx, key=lambda i: (-_rarity(cases[i]), -i))]
    while len(orders) < nproc:
        o = list(idx)
        ctx.rng.shuffle(o)
        orders.append(o)
    for k, order in enumerate(orders[:nproc]):
        res = _fresh_process([cases[i] for i in order])
        ctx.count('process_order:processes')
        ctx.count('process_order:cases', len(order))
        for pos, (i, r) in enumerate(zip(order, res)):
            ctx.case(('procorder', k, i))
            if not r:
                continue
            op, inp = cases[i]
            if (r.get('sig') or {}).get('state') == 'cont-cull-nondividing':     # the recorded finding (corpus)
                ctx.fail(op, inp, r.get('required'), r.get('observed'), r.get('sig'))
                continue
            alone = _fresh_process([cases[i]])[0] if pos > 0 else r
            if alone:                       # fails on its own: the plain case is the replay
                ctx.fail(op, inp, alone.get('required'), alone.get('observed'), alone.get('sig'))
            else:                           # needs the cases evaluated before it
                prefix = order[:pos + 1]
                pinp = {'order': prefix, 'cases': dict((str(j), cases[j]) for j in prefix)}
                sig = dict(r.get('sig') or {})
                sig['process_order'] = True
                ctx.fail('procorder', pinp, '%s (case %d, evaluated in a fresh process after the cases %s)'
                         % (r.get('required'), i, prefix[:-1]), r.get('observed'), sig)
            break                           # one replay per process is enough


replay = check_case

# witnesses of the repaired defects and of the open finding (always evaluated)
CORPUS = [
    # leap-year daily collections: day 366 by key list and by periods that contain 31 Dec (seeded C02-4)
    ('keys', {'src': [1, 1, 0, 12, 31, 23, 1, True], 'cls': 'daily', 'by': 'keys', 'keys': list(range(1, 367)),
              'req': [1, 60, 365, 366]}),
    ('keys', {'src': [1, 1, 0, 12, 31, 23, 1, True], 'cls': 'daily', 'by': 'period', 'keys': list(range(1, 367)),
              'filter': [12, 1, 0, 12, 31, 23, 1, True]}),
    ('keys', {'src': [1, 1, 0, 12, 31, 23, 1, True], 'cls': 'daily', 'by': 'period', 'keys': [366, 1, 60, 2],
              'filter': [12, 30, 0, 1, 2, 23, 1, True]}),
    ('keys', {'src': [1, 1, 0, 12, 31, 23, 1, True], 'cls': 'daily', 'by': 'period', 'keys': list(range(1, 367)),
              'filter': [1, 1, 0, 12, 31, 23, 1, True]}),
    ('keys', {'src': [1, 1, 0, 12, 31, 23, 1, False], 'cls': 'daily', 'by': 'keys', 'keys': list(range(1, 366)),
              'req': [365, 1]}),
    ('keys', {'src': [1, 1, 0, 12, 31, 23, 1, True], 'cls': 'monthly', 'by': 'period', 'keys': list(range(1, 13)),
              'filter': [12, 30, 0, 1, 2, 23, 1, True]}),
    ('keys', {'src': [1, 1, 0, 12, 31, 23, 4, True], 'cls': 'mph', 'by': 'keys',
              'keys': [[12, 23, 45], [12, 23, 30], [2, 0, 15], [1, 0, 0]], 'req': [[12, 23, 45], [2, 0, 15], [12, 23, 59]]}),
    ('keys', {'src': [1, 1, 0, 12, 31, 23, 4, True], 'cls': 'mph', 'by': 'period',
              'keys': [[12, 23, 45], [12, 22, 30], [1, 0, 15], [6, 12, 0]], 'filter': [12, 30, 22, 1, 2, 23, 4, True]}),
    ('period', {'src': [12, 1, 0, 1, 31, 23, 1, False], 'path': 'cont', 'fkind': 'straddle',
                'filter': [12, 15, 0, 1, 15, 23, 1, False]}),
    ('period', {'src': [12, 1, 0, 1, 31, 23, 1, False], 'path': 'cont', 'fkind': 'inside',
                'filter': [1, 5, 0, 1, 10, 23, 1, False]}),
    ('period', {'src': [12, 1, 0, 1, 31, 23, 1, False], 'path': 'cont', 'fkind': 'inside',
                'filter': [12, 5, 0, 12, 10, 23, 1, False]}),
    ('period', {'src': [12, 1, 0, 1, 31, 23, 2, True], 'path': 'cont', 'fkind': 'window',
                'filter': [12, 30, 22, 1, 3, 5, 2, True]}),
    ('period', {'src': [12, 1, 0, 1, 31, 23, 1, False], 'path': 'cont', 'fkind': 'clip-both',
                'filter': [11, 1, 0, 2, 28, 23, 1, False]}),
    ('moys', {'src': [12, 1, 0, 1, 31, 23, 1, False], 'path': 'both', 'req': [480960]}),
    ('moys', {'src': [12, 1, 0, 1, 31, 23, 1, False], 'path': 'both', 'req': [0, 60, 525540]}),
    ('moys', {'src': [12, 30, 0, 1, 2, 23, 4, True], 'path': 'both', 'req': [0, 15, 527025, 524160]}),
    ('hoys', {'src': [12, 30, 0, 1, 2, 23, 4, True], 'path': 'both', 'req': [0, 15, 527025, 524160]}),
    ('hoys', {'src': [3, 1, 0, 3, 31, 23, 2, False], 'path': 'both', 'req': [84960, 84990], 'foreign': [84930, 129600]}),
    ('hoys', {'src': [1, 1, 0, 1, 1, 23, 30, True], 'path': 'both', 'req': [246, 490, 492, 0]}),
    ('hoys', {'src': [1, 1, 0, 1, 1, 23, 60, False], 'path': 'both', 'req': [123, 245, 247, 1439]}),
    ('period', {'src': [1, 1, 0, 12, 31, 23, 1, False], 'path': 'cont', 'fkind': 'straddle',
                'filter': [12, 31, 0, 1, 1, 23, 1, False]}),
    # repaired C02-disc-period-order: a wrapping filter on the search path answers in the period's order
    ('period', {'src': [1, 1, 0, 12, 31, 23, 1, False], 'path': 'disc', 'fkind': 'straddle',
                'filter': [12, 31, 0, 1, 1, 23, 1, False]}),
    ('period', {'src': [3, 1, 0, 3, 31, 23, 2, False], 'path': 'cont', 'fkind': 'clip-end',
                'filter': [3, 30, 0, 4, 2, 23, 2, False]}),
    ('period', {'src': [2, 27, 0, 3, 2, 23, 6, True], 'path': 'cont', 'fkind': 'single',
                'filter': [2, 29, 0, 2, 29, 23, 6, True]}),
    # rare classes: bounds of exactly zero (int and float), the first minute / hour / day / month of the year,
    # one-element patterns
    ('values', {'src': [1, 1, 0, 1, 1, 23, 1, False], 'cls': 'cont', 'keys': [], 'kind': 'range', 'lo': 0, 'hi': None,
                'vals': [-3, -1, 0, 1, 2, 0, -2, 5, 0, 0, 1, -1, 3, -3, 0, 2, -2, 4, -4, 0, 1, 1, -1, 7]}),
    ('values', {'src': [1, 1, 0, 1, 1, 23, 1, False], 'cls': 'cont', 'keys': [], 'kind': 'range', 'lo': None, 'hi': 0.0,
                'vals': [-3, -1, 0, 1, 2, 0, -2, 5, 0, 0, 1, -1, 3, -3, 0, 2, -2, 4, -4, 0, 1, 1, -1, 7]}),
    ('values', {'src': [1, 1, 0, 12, 31, 23, 1, True], 'cls': 'monthly', 'keys': list(range(1, 13)), 'kind': 'range',
                'lo': 0.0, 'hi': 0, 'vals': [-3, -1, 0, 1, 2, 0, -2, 5, 0, 0, 1, -1]}),
    ('values', {'src': [1, 1, 0, 12, 31, 23, 1, True], 'cls': 'daily', 'keys': [1, 2, 3], 'kind': 'range',
                'lo': -1, 'hi': 0, 'vals': [-0.5, 0, 0.5]}),
    ('values', {'src': [1, 1, 0, 12, 31, 23, 1, True], 'cls': 'daily', 'keys': [1, 60, 366], 'kind': 'pattern',
                'pattern': [True], 'vals': [0, 0, 0]}),
    ('moys', {'src': [1, 1, 0, 12, 31, 23, 1, False], 'path': 'both', 'req': [0]}),
    ('hoys', {'src': [1, 1, 0, 12, 31, 23, 1, True], 'path': 'both', 'req': [0], 'foreign': []}),
    ('keys', {'src': [1, 1, 0, 12, 31, 23, 1, False], 'cls': 'daily', 'by': 'keys', 'keys': [1], 'req': [1]}),
    ('keys', {'src': [1, 1, 0, 12, 31, 23, 1, False], 'cls': 'monthly', 'by': 'keys', 'keys': [1, 12], 'req': [1, 0]}),
    # histories: read -> in-place cull -> read; refused assignment -> read; immutable twin
    ('history', {'init': {'kind': 'd', 'mutable': True, 'validated': False, 'dtype': 'id', 'ap': [6, 21, 0, 6, 21, 23, 4, False],
                          'keys': [246240 + 15 * i for i in range(96)], 'vals': list(range(96))},
                 'ops': [['read', ['keys', [246240, 246255]]], ['cull', 1], ['read', ['keys', [246240, 246300]]],
                         ['read', ['period', [6, 21, 9, 6, 21, 11, 1, False], '']], ['read', ['all']]]}),
    ('history', {'init': {'kind': 'c', 'mutable': True, 'validated': True, 'dtype': 'id', 'ap': [3, 1, 0, 3, 1, 23, 1, False],
                          'keys': [], 'vals': list(range(100, 124))},
                 'ops': [['setv', [-1] * 25], ['read', ['period', [3, 1, 0, 3, 1, 23, 1, False], '']],
                         ['read', ['keys', [84960]]], ['setv', []], ['setbad', 1], ['seti', 24, 0], ['read', ['all']]]}),
    ('history', {'init': {'kind': 'c', 'mutable': False, 'validated': True, 'dtype': 'id', 'ap': [12, 31, 0, 1, 1, 23, 2, True],
                          'keys': [], 'vals': list(range(96))},
                 'ops': [['seti', 0, 9], ['cull', 1], ['setv', list(range(96))], ['read', ['keys', [0, 525600]]],
                         ['tomut'], ['cull', 1], ['read', ['keys', [0, 525600]]], ['read', ['all']]]}),
    # round 4: the classes of the third campaign as fixed witnesses -- hour window + filter wrapping the year end on an
    # annual source (order of the period, both paths, mutable and immutable), patterns that do not divide the length,
    # fractional hours on sub-hourly sources, the finest timesteps, periods built from text
    ('period', {'src': [1, 1, 0, 12, 31, 23, 2, True], 'path': 'cont', 'fkind': 'window-wrap',
                'filter': [12, 30, 9, 1, 2, 11, 2, True]}),
    ('period', {'src': [1, 1, 0, 12, 31, 23, 1, False], 'path': 'cont', 'fkind': 'window-wrap', 'imm': True,
                'filter': [12, 31, 22, 1, 1, 3, 1, False], 'apf': 'string'}),
    ('period', {'src': [12, 30, 0, 1, 2, 23, 4, True], 'path': 'both', 'fkind': 'window-wrap',
                'filter': [12, 31, 6, 1, 1, 18, 4, True], 'apf': 'string2', 'hapf': 'strargs'}),
    ('values', {'src': [1, 1, 0, 1, 2, 23, 1, False], 'cls': 'disc', 'keys': [60 * h for h in range(25)], 'kind': 'pattern',
                'pattern': [True, True, False], 'vals': list(range(25))}),
    ('values', {'src': [1, 1, 0, 1, 31, 23, 1, False], 'cls': 'daily', 'keys': list(range(1, 32)), 'kind': 'pattern',
                'pattern': [True, True, True, True, True, False, False], 'vals': list(range(31)), 'imm': True}),
    ('hoys', {'src': [3, 1, 0, 3, 2, 23, 4, False], 'path': 'both', 'req': [84975, 84990, 85005, 86385], 'foreign': [],
              'shape': 'gen'}),
    ('moys', {'src': [12, 31, 0, 1, 1, 23, 60, True], 'path': 'cont', 'req': list(range(525600 + 1380, 527040, 7)) + [3, 77, 123],
              'shape': 'iter'}),
    ('moys', {'src': [12, 30, 0, 12, 31, 23, 15, False], 'path': 'both', 'req': list(range(522720 + 4, 525600, 52)),
              'hapf': 'string'}),
    # open finding C02-cont-hoys-datetime-hoy
    ('hoys', {'src': [1, 1, 0, 1, 1, 23, 3, False], 'path': 'both', 'req': [80, 100, 120], 'foreign': [], 'hform': 'dt.hoy'}),
    # former finding C02-cont-cull-nondividing-timestep (repaired in /repo by 2b7dc5a): on a tree whose continuous class
    # asserts divisibility the cull is a refused operation and the question is answered from the unchanged object
    ('history', {'init': {'kind': 'c', 'mutable': True, 'validated': True, 'dtype': 'id', 'ap': [1, 1, 0, 1, 1, 23, 4, False],
                          'keys': [], 'vals': list(range(96))},
                 'ops': [['cull', 3], ['read', ['keys', [60]]]]}),
]


def _oracle_cases(ctx):
    rng = ctx.rng
    for c in CORPUS:
        yield c
    big = ctx.searching or not ctx.quick
    srcs = _sources(ctx, rng, oracle=True)
    if ctx.searching and ctx.quick:
        srcs = srcs + [(_gen_source(rng, k, True), k) for k in ['partial', 'wrapping'] * 30]
    for c, kind in srcs:
        nvals = _ndays_of(c) * 24 * c[6]
        if nvals > (20000 if not big else 60000):
            continue
        # one way of building the header period and one twin per source (the objects are cached per source)
        hapf = rng.choice(AP_FORMS) if rng.random() < 0.4 else 'ctor'
        imm = rng.random() < 0.3
        ctx.count('oracle_src_built:' + hapf)
        ctx.count('oracle_src:%s' % ('immutable' if imm else 'mutable'))
        extra = {}
        if hapf != 'ctor':
            extra['hapf'] = hapf
        if imm:
            extra['imm'] = True
        kinds = [k for k in PERIOD_KINDS if k not in ('outside', 'two-piece', 'mismatch')]
        if kind == 'annual':
            kinds += ['wrap-long', 'straddle', 'window-wrap']
        elif kind == 'wrapping':
            kinds += ['window-wrap']
        nper = ctx.n(4, 8) if nvals > 5000 else ctx.n(8, 12)
        forced = ['window-wrap', 'window-wrap', 'window-wrap', 'straddle'] if kind == 'annual' else []
        for q in range(nper + len(forced)):     # (an annual source is the only one whose order differs from a wrapping filter's)
            fk = forced[q - nper] if q >= nper else rng.choice(kinds)
            f = _gen_filter(rng, c, fk)
            if _fsteps(f) > 40000 and not (f[2] == 0 and f[5] == 23):
                continue
            for b in _branches(c, f):
                ctx.count('oracle_branch:' + b)
            ex = dict(extra)
            if rng.random() < 0.5:
                ex['apf'] = rng.choice(AP_FORMS)
            ctx.count('oracle_period_built:' + ex.get('apf', 'ctor'))
            if nvals <= 1500 and _fsteps(f) <= 20000:
                yield 'period', dict({'src': list(c), 'path': 'both', 'fkind': fk, 'filter': list(f)}, **ex)
            else:
                yield 'period', dict({'src': list(c), 'path': 'cont', 'fkind': fk, 'filter': list(f)}, **ex)
        smoys = _ref_moys(c)
        for _ in range(4):
            k = rng.choice([1, 2, 5, 20])
            req = rng.sample(smoys, min(k, len(smoys)))
            if rng.random() < 0.4:
                req = list(OrderedDict.fromkeys([smoys[0], smoys[-1], smoys[len(smoys) // 2]] + req))
            path = 'both' if nvals <= 1500 else 'cont'
            ex = dict(extra)
            if rng.random() < 0.6:
                ex['shape'] = rng.choice(SHAPES_ONCE + SHAPES_MANY)
            ctx.count('oracle_shape:' + ex.get('shape', 'list'))
            for b in _moy_branches(c, req):
                ctx.count('oracle_branch:' + b)
            yield 'moys', dict({'src': list(c), 'path': path, 'req': req}, **ex)
            if rng.random() < 0.5:
                req = list(OrderedDict.fromkeys(req + _truncation_sensitive(smoys, rng)))
                sset = set(smoys)
                nm = _nmin(c[7])
                step = 60 // c[6]
                cand = [smoys[-1] + step, smoys[0] - step, -60, nm, rng.randrange(nm) // step * step]
                foreign = [m for m in cand if m not in sset][:rng.choice([0, 1, 2])]
                ex = dict(ex)
                if rng.random() < 0.4 and all(_hour_of(m, 'dt.hoy') == m / 60.0 for m in req):
                    ex['hform'] = 'dt.hoy'
                yield 'hoys', dict({'src': list(c), 'path': path, 'req': req, 'foreign': foreign}, **ex)
        if nvals <= 2500:
            vals = [rng.randrange(-20, 21) for _ in range(nvals)]
            ex = dict(extra)
            if rng.random() < 0.3:
                ex['shape'] = 'tuple'
            yield 'values', dict({'src': list(c), 'cls': 'cont', 'keys': [], 'vals': vals, 'kind': 'pattern',
                                  'pattern': [rng.random() < 0.5 for _ in range(rng.choice([1, 2, 3, 5, 7, 24, nvals, nvals + 2]))]},
                                 **ex)
            yield 'values', dict({'src': list(c), 'cls': 'cont', 'keys': [], 'vals': vals, 'kind': 'range',
                                  'lo': rng.choice([None, -5, 0]), 'hi': rng.choice([None, 5, 12])}, **extra)
            yield 'values', dict({'src': list(c), 'cls': 'cont', 'keys': [], 'vals': vals, 'kind': 'stmt',
                                  'stmt': [rng.randrange(4), rng.randrange(-20, 20), rng.randrange(1, 6), rng.randrange(0, 3)],
                                  'sform': rng.choice([0, 0, 1, 2, 3])}, **extra)
            if nvals <= 400:
                fv, lo, hi = _float_values(rng, nvals)
                yield 'values', dict({'src': list(c), 'cls': 'cont', 'keys': [], 'vals': fv, 'kind': 'range',
                                      'lo': lo, 'hi': hi}, **extra)
    for case in _allsteps_cases(ctx, rng, big):
        yield case
    for _ in range(70 if not big else 250):
        kc = _keyed_case(rng)
        leap, hdr, doys, months = kc['leap'], kc['hdr'], kc['doys'], kc['months']
        keys = [list(k) for k in kc['keys']]
        vals = [rng.randrange(-20, 21) for _ in doys]
        ex = {}
        cheap = (hdr[2] == 0 and hdr[5] == 23) or _fsteps(hdr) <= 2000     # Header.duplicate() counts the steps of a
        if rng.random() < (0.4 if cheap else 0.0):                          # windowed period one by one
            ex['imm'] = True
        if rng.random() < 0.4:
            ex['hapf'] = rng.choice(AP_FORMS)
        exk = dict(ex)
        if rng.random() < 0.6:
            exk['shape'] = rng.choice(SHAPES_MANY)
        exp_ = dict(ex)
        if rng.random() < 0.6:
            exp_['apf'] = rng.choice(AP_FORMS)
        ctx.count('oracle_keyed_shape:' + exk.get('shape', 'list'))
        ctx.count('oracle_keyed_period_built:' + exp_.get('apf', 'ctor'))
        ctx.count('oracle_keyed:%s' % ('immutable' if ex.get('imm') else 'mutable'))
        yield 'keys', dict({'src': list(hdr), 'cls': 'daily', 'by': 'keys', 'keys': doys, 'req': kc['dreq']}, **exk)
        if kc['dfilt'][7] == leap:
            yield 'keys', dict({'src': list(hdr), 'cls': 'daily', 'by': 'period', 'keys': doys, 'filter': list(kc['dfilt'])}, **exp_)
        yield 'keys', dict({'src': list(hdr), 'cls': 'monthly', 'by': 'keys', 'keys': months, 'req': kc['mreq']}, **exk)
        yield 'keys', dict({'src': list(hdr), 'cls': 'monthly', 'by': 'period', 'keys': months, 'filter': list(kc['mfilt'])}, **exp_)
        yield 'keys', dict({'src': list(hdr), 'cls': 'mph', 'by': 'keys', 'keys': keys, 'req': [list(k) for k in kc['preq']]}, **exk)
        yield 'keys', dict({'src': list(hdr), 'cls': 'mph', 'by': 'period', 'keys': keys, 'filter': list(kc['pfilt'])}, **exp_)
        yield 'values', dict({'src': list(hdr), 'cls': 'daily', 'keys': doys, 'vals': vals, 'kind': 'pattern',
                              'pattern': [rng.random() < 0.5 for _ in range(rng.choice([1, 2, 3, 7, len(doys)]))]}, **ex)
        yield 'values', dict({'src': list(hdr), 'cls': 'daily', 'keys': doys, 'vals': vals, 'kind': 'range',
                              'lo': rng.choice([None, -5, 0]), 'hi': rng.choice([None, 5, 12])}, **ex)
        mv = [rng.randrange(-20, 21) for _ in months]
        vh = hdr
        hdr = hdr if cheap else hdr[:2] + (0,) + hdr[3:5] + (23,) + hdr[6:]
        yield 'values', dict({'src': list(hdr), 'cls': 'monthly', 'keys': months, 'vals': mv, 'kind': rng.choice(['pattern', 'stmt']),
                              'pattern': [rng.random() < 0.5 for _ in range(rng.choice([1, 2, 5, 7]))],
                              'stmt': [rng.randrange(4), rng.randrange(-20, 20), rng.randrange(1, 6), rng.randrange(0, 3)],
                              'sform': rng.choice([0, 1, 2, 3])}, **ex)
        pv = [rng.randrange(-20, 21) for _ in keys]
        yield 'values', dict({'src': list(hdr), 'cls': 'mph', 'keys': keys, 'vals': pv, 'kind': rng.choice(['pattern', 'range', 'stmt']),
                              'pattern': [rng.random() < 0.5 for _ in range(rng.choice([1, 2, 5, 7, len(keys)]))],
                              'lo': rng.choice([None, -5, 0]), 'hi': rng.choice([None, 5, 12]),
                              'stmt': [rng.randrange(4), rng.randrange(-20, 20), rng.randrange(1, 6), rng.randrange(0, 3)]}, **ex)
        fv, lo, hi = _float_values(rng, len(doys))
        yield 'values', dict({'src': list(hdr), 'cls': 'daily', 'keys': doys, 'vals': fv, 'kind': 'range', 'lo': lo, 'hi': hi}, **ex)
        hdr = vh
        dm = sorted(rng.sample(_ref_moys(hdr)[:500], min(20, len(_ref_moys(hdr)[:500]))))
        dv = [rng.randrange(-20, 21) for _ in dm]
        yield 'values', dict({'src': list(hdr), 'cls': 'disc', 'keys': dm, 'vals': dv, 'kind': 'stmt',
                              'stmt': [rng.randrange(4), rng.randrange(-20, 20), rng.randrange(1, 6), rng.randrange(0, 3)],
                              'sform': rng.choice([0, 1, 2, 3])}, **ex)
        yield 'values', dict({'src': list(hdr), 'cls': 'disc', 'keys': dm, 'vals': dv, 'kind': 'pattern',
                              'pattern': [rng.random() < 0.5 for _ in range(rng.choice([1, 2, 3, 5, 7, len(dm) + 1]))]}, **ex)
    for case in _families(rng, 5 if not big else 16):
        yield case
    for _ in range(ctx.n(160, 800) * (3 if ctx.searching and ctx.quick else 1)):
        init, ops = _gen_history(rng, False)
        _count_history(ctx, 'oracle_hist', init, ops)
        yield 'history', {'init': init, 'ops': ops}


FLOAT_POOL = [0.0, -0.0, 1e-12, -1e-12, 0.5, -0.5, 1.5, 2.5, 0.1 + 0.2, 0.3, 1e16, 1e16 + 2, -1e16, 1e-300, 123456.789,
              1 / 3.0, 2 / 3.0, 1.0, -1.0, 5e-324]


def _float_values(rng, n):
    """Values and range bounds at the numeric edges (kind (h)): magnitudes 1e-12 .. 1e16, signed zeros, halves,
    0.1 + 0.2 next to 0.3, neighbours that differ in the last bit; bounds that ARE values (the range is open)."""
    vals = [rng.choice(FLOAT_POOL) if rng.random() < 0.8 else rng.uniform(-1, 1) * 10 ** rng.randrange(-12, 17)
            for _ in range(n)]
    pool = [None, 0.0, -0.0, 0, 0.3, 1e-12, -1e-12, 1e16, rng.choice(vals), rng.choice(vals)]
    return vals, rng.choice(pool), rng.choice(pool)


def _allsteps_cases(ctx, rng, big):
    """Kind (h), index arithmetic at every timestep: short sources at the start of the year, at its far end (where
    float products of minute / hour counts are inexact), across the year end and around 28/29 Feb, asked for ALL
    their steps (minutes, hours, an hour window) on the continuous object; the search runs next to it for the
    coarser timesteps."""
    for ts in VALID_TS:
        leap = rng.random() < 0.5
        n = _ndays(leap)
        places = [('year-start', 1, 1), ('year-end', n - 1, n), ('wrapping', n, 1),
                  rng.choice([('feb', 59, 60), ('late', n - rng.randrange(20, 60), None), ('random', rng.randrange(2, n - 2), None)])]
        if not big:
            places = rng.sample(places[:3], 2) + places[3:]
        for name, a, b in places:
            if b is None:
                b = a + 1
            src = _date(leap, a) + (0,) + _date(leap, b) + (23, ts, leap)
            sm = _ref_moys(src)
            ctx.count('oracle_allsteps:ts=%d' % ts)
            ctx.count('oracle_allsteps:%s' % name)
            path = 'both' if ts <= 6 else 'cont'
            req = sm if len(sm) <= 1500 else (sm[:300] + rng.sample(sm[300:-300], 600) + sm[-300:])
            yield 'moys', {'src': list(src), 'path': path, 'req': req, 'shape': rng.choice(['list', 'tuple', 'gen'])}
            hreq = [m for m in req if _hour_of(m, 'dt.hoy') == m / 60.0] if rng.random() < 0.5 else None
            if hreq:
                yield 'hoys', {'src': list(src), 'path': path, 'req': hreq, 'foreign': [], 'hform': 'dt.hoy'}
            else:
                yield 'hoys', {'src': list(src), 'path': path, 'req': req, 'foreign': []}
            w = src[:2] + (rng.choice([0, 1, 9]),) + src[3:5] + (rng.choice([17, 22, 23]), ts, leap)
            if (w[2], w[5]) == (0, 23):
                w = w[:2] + (1,) + w[3:]
            yield 'period', {'src': list(src), 'path': 'cont', 'fkind': 'window', 'filter': list(w),
                             'apf': rng.choice(AP_FORMS)}
    if big:
        # the far end of an ANNUAL source at the finest timesteps (positions up to 527 040)
        for ts, leap in ((60, True), (30, False), (15, True)):
            src = (1, 1, 0, 12, 31, 23, ts, leap)
            nm = _nmin(leap)
            step = 60 // ts
            req = list(range(nm - 1440, nm, step)) + [rng.randrange(nm // step) * step for _ in range(400)]
            req = list(OrderedDict.fromkeys(req))
            ctx.count('oracle_allsteps:annual-far-end')
            yield 'moys', {'src': list(src), 'path': 'cont', 'req': req}
            yield 'hoys', {'src': list(src), 'path': 'cont', 'req': req[:600], 'foreign': []}


def _families(rng, k):
    """Cases that differ in ONE coordinate of the configuration (leap flag, timestep, values) and are
    evaluated next to each other in one process: a memo keyed too coarsely answers the second one with
    the first one's data."""
    for _ in range(k):
        mo, d = rng.randrange(3, 12), rng.randrange(1, 24)       # the same CALENDAR dates in both year kinds
        length = rng.randrange(2, 6)
        ts = rng.choice([1, 2, 4])
        variants = [(ts, False), (ts, True), (rng.choice([x for x in (1, 2, 3, 4, 6) if x != ts]), False), (ts, False)]
        if rng.random() < 0.5:
            variants[0], variants[1] = variants[1], variants[0]
        i, j = sorted((rng.randrange(length), rng.randrange(length)))
        for vts, leap in variants:
            for case in _family_cases(mo, d, length, i, j, vts, leap):
                yield case


def _family_cases(mo, d, length, i, j, vts, leap):
    src = (mo, d, 0, mo, d + length - 1, 23, vts, leap)
    f = (mo, d + i, 0, mo, d + j, 23, vts, leap)
    w = f[:2] + (9,) + f[3:5] + (17,) + f[6:]
    sm = _ref_moys(src)
    req = [sm[0], sm[-1], sm[len(sm) // 3]]
    return [('period', {'src': list(src), 'path': 'cont', 'fkind': 'inside', 'filter': list(f)}),
            ('period', {'src': list(src), 'path': 'disc', 'fkind': 'window', 'filter': list(w)}),
            ('moys', {'src': list(src), 'path': 'both', 'req': req}),
            ('hoys', {'src': list(src), 'path': 'both', 'req': req, 'foreign': []})]


def _twin_probes(op, inp):
    """Cases that differ from (op, inp) in one coordinate of the source (leap flag with the same calendar
    dates, timestep): evaluated right before it in a fresh process they expose state keyed too coarsely."""
    if op not in ('period', 'moys', 'hoys') or 'src' not in inp:
        return []
    src = tuple(inp['src'])
    out = []
    alts = []
    if (src[0], src[1]) != (2, 29) and (src[3], src[4]) != (2, 29):
        alts.append(src[:7] + (not src[7],))
    alts.append(src[:6] + (2 if src[6] != 2 else 1, src[7]))
    for alt in alts:
        try:
            sm = _ref_moys(alt)
            req = [sm[0], sm[-1], sm[len(sm) // 2]]
            out.append([['moys', {'src': list(alt), 'path': 'both', 'req': req}],
                        ['hoys', {'src': list(alt), 'path': 'both', 'req': req, 'foreign': []}],
                        ['period', {'src': list(alt), 'path': 'cont', 'fkind': 'equal', 'filter': list(alt)}],
                        ['period', {'src': list(alt), 'path': 'cont', 'fkind': 'window',
                                    'filter': list(alt[:2] + (9,) + alt[3:5] + (17,) + alt[6:])}]])
        except Exception:
            pass
    return out


def _isolate_failures(ctx, cases):
    """A failure seen in this (long-lived) process may need state left by earlier cases: re-evaluate the first
    few failures alone in a fresh process; one that passes alone is turned into a `procorder` failure whose
    replay holds the (minimised) list of earlier cases it needs."""
    done = 0
    for fl in list(ctx.failures):
        if done >= 3:
            break
        if fl['sig'].get('state') == 'cont-cull-nondividing' or fl['op'] == 'procorder':
            continue
        idx = [i for i, c in enumerate(cases) if c[1] is fl['input']]
        if not idx:
            continue
        done += 1
        f = idx[0]
        one = [list(cases[f])]
        if _fresh_process(one)[0]:
            continue                                  # fails on its own: the plain replay is right
        runs = [0]

        def fails(prefix):
            runs[0] += 1
            return bool(_fresh_process([list(cases[i]) for i in prefix] + one)[-1])
        prefix = None
        for k in (25, 150, 1000, f):
            cand = list(range(max(0, f - k), f))
            if fails(cand):
                prefix = cand
                break
            if k >= f:
                break
        if prefix is None:
            # state left by the correspondence stage of this process? try the one-coordinate twins of the case
            for probe in _twin_probes(fl['op'], fl['input']):
                res = _fresh_process(probe + one)
                if res[-1] and not any(res[:-1]):
                    n = len(probe)
                    fl['input'] = {'order': list(range(n + 1)),
                                   'cases': dict((str(i), c) for i, c in enumerate(probe + one))}
                    fl['required'] = '%s (evaluated in a fresh process after %d cases on the same source with one ' \
                                     'coordinate changed: %s)' % (fl['required'], n, probe[0][1]['src'])
                    fl['op'] = 'procorder'
                    fl['sig'] = dict(fl['sig'], process_order=True, op='procorder')
                    break
            else:
                fl['sig'] = dict(fl['sig'], not_reproduced_alone=True)
            continue
        n = 2
        while len(prefix) >= 2 and runs[0] < 16:
            size = (len(prefix) + n - 1) // n
            chunks = [prefix[i:i + size] for i in range(0, len(prefix), size)]
            for ch in chunks:
                rest = [i for i in prefix if i not in ch]
                if rest and fails(rest):
                    prefix, n = rest, max(n - 1, 2)
                    break
            else:
                if n >= len(prefix):
                    break
                n = min(len(prefix), 2 * n)
        order = prefix + [f]
        fl['op'] = 'procorder'
        fl['input'] = {'order': order, 'cases': dict((str(i), list(cases[i])) for i in order)}
        fl['required'] = '%s (case %d, evaluated in a fresh process after the cases %s)' % (fl['required'], f, prefix)
        fl['sig'] = dict(fl['sig'], process_order=True, op='procorder')


def oracle(ctx):
    cases = []

    def counted():
        for op, inp in _oracle_cases(ctx):
            ctx.count('oracle_%s:%s' % (op, inp.get('fkind') or inp.get('kind') or inp.get('cls') or inp.get('path')
                                        or (inp.get('init') or {}).get('kind')))
            if op == 'values' and inp.get('kind') == 'pattern':
                lp, lv = len(inp['pattern']), len(inp['vals'])
                ctx.count('oracle_branch:pattern:%s' % ('equal' if lp == lv else 'longer' if lp > lv else
                                                        'shorter-dividing' if lv % lp == 0 else 'shorter-non-dividing'))
            if op in ('values', 'keys', 'period', 'moys', 'hoys') and inp.get('imm'):
                ctx.count('oracle_immutable:%s' % (inp.get('cls') or inp.get('path')))
            cases.append((op, inp))
            yield op, inp
    run_oracle_cases(ctx, counted(), check_case)
    _CACHE.clear()
    _isolate_failures(ctx, cases)
    # process-order independence: the fixed corpus, the one-coordinate families and a sample of the
    # histories and of the plain cases, in fresh processes with different orders
    if len(ctx.failures) < 200:
        nc = len(CORPUS)
        small = [c for c in cases[nc:] if c[0] != 'history' and len(json.dumps(c[1])) < 4000]
        fam = [c for c in small if c[1].get('fkind') in ('inside', 'window') and c[1].get('path') in ('cont', 'disc')][-32:]
        hist = [c for c in cases if c[0] == 'history']
        sl = [list(c) for c in (cases[:nc] + ctx.rng.sample(small, min(len(small), ctx.n(30, 120))) +
                                ctx.rng.sample(hist, min(len(hist), ctx.n(45, 120))))]
        sl += [list(c) for c in cases[nc:] if c[1].get('path') == 'both' and c[0] in ('moys', 'hoys')][-16:]
        _process_order(ctx, sl + [list(c) for c in fam])
