"""C02 — Filtering an hourly collection selects exactly the requested time steps.

Model: lean/Ladybug/Model/Filter.lean (on Model/AP.lean, Model/Cal.lean); theorems:
lean/Ladybug/Props/C02.lean; driver: drv_c02.  Tie: correspondence on the ops below (the model is
hand-written from datacollection.py / _datacollectionbase.py with fixes/C02_*.patch applied).
The oracle is written from the property statement with plain integer minutes of the year and the
stdlib calendar; it never looks at the model.
"""
import calendar
import contextlib
import io
import struct
from collections import Counter, OrderedDict
from datetime import datetime, timedelta

from harness.core import compare_batch, err_name, run_oracle_cases

PROP = 'C02'
PROOF_MODULES = ['Ladybug.Props.C02']
GREP_MODULES = ['Ladybug.Py', 'Ladybug.Model.Cal', 'Ladybug.Gen.DtTables', 'Ladybug.Proofs.CalLemmas',
                'Ladybug.Model.AP', 'Ladybug.Gen.ApTables', 'Ladybug.Proofs.C04Lemmas',
                'Ladybug.Proofs.C04Listings', 'Ladybug.Props.C08', 'Ladybug.Props.C04',
                'Ladybug.Model.Filter', 'Ladybug.Proofs.C02Lemmas', 'Ladybug.Proofs.C02Index', 'Ladybug.Proofs.C02Cyclic',
                'Ladybug.Proofs.C02Slice', 'Ladybug.Proofs.C02Order',
                'Ladybug.Drv.C02', 'Ladybug.DrvCore']
RULE = ('sources: annual | partial (1..120 days, boundary-biased starts incl. 28/29 Feb and both year ends) | '
        'year-wrapping (short Dec->Jan and long), all 12 timesteps (annual: small ones), both leap flags, values = '
        'position ids; run on the continuous object and on its to_discontinuous() copy, plus discontinuous '
        'sources with holes / unsorted steps. Filters relative to the source: whole-day period inside (also '
        'straddling the year end, first/last/single day, equal to the source), partly outside (clipped), hour '
        'windows incl. overnight, wrapping filters on annual sources, out-of-domain (outside, two-piece, '
        'timestep/leap mismatch); explicit minute / hour lists (sorted, shuffled, repeated, ~10 % not in the '
        'source / off grid / negative); patterns (shorter, equal, longer, empty, all false); ranges and four '
        'statement shapes on random integers with ties at the bounds; daily / monthly / monthly-per-hour '
        'collections by key lists and by period (leap-year daily collections with days 60 and 366, requests naming '
        '366 / 367 / 0, periods ending on or wrapping over 31 Dec, sub-hourly monthly-per-hour keys). A case is non-trivial when the implementation returns a '
        'collection; distinct = distinct request line.')
TRUSTED_BASE = [
    'the model describes datacollection.py with the five fixes/C02_*.patch applied (year-wrapping continuous '
    'collections; time order of the discontinuous period filter); on a tree without them the check reports the '
    'violation',
    'modelled, not verified: a collection is the list of (date-time, value) pairs (len(values) == len(datetimes) is '
    'a constructor invariant); a date-time is its minute of the year plus the leap flag of the header (C08 '
    'bijection); values are opaque (free theorem: the filters only move values, checked with position ids)',
    'float index arithmetic int(moy / t_s - st_ind) is modelled over exact rationals (60 / timestep is exact for '
    'the 12 valid timesteps; for integer minutes the float quotient cannot cross an integer)',
    'filter_by_hoys: the float hour m / 60.0, its product with 60 and the membership test against '
    'AnalysisPeriod.hoys are computed with IEEE doubles by the driver; theorem C02_hoys assumes round(hoy(m) * 60) '
    '= m, which the check verifies for every minute of both years on every run',
    'eval() of the statement filter is a predicate parameter of the model; four statement shapes are compared',
]
ASSUMPTIONS = [
    'reading of the statement: "time steps present in the collection" = the requested minutes are date-times of '
    'the source (lists without repeats); a period filter is in the domain when it lies inside the source, or when '
    'its whole days outside the source can be cut off leaving one run of days (hour windows through midnight '
    'only when inside); explicit lists are compared as multisets (the continuous path answers in request order, '
    'the search in source order), period filters as sequences in the period\'s own order',
    'CPython datetime is the reference calendar for the oracle',
]
LEVEL_TEXT = ('Machine-checked Lean 4 theorems over an executable, value-polymorphic model of the filters: the slow '
              'search returns exactly the source pairs whose minute is requested, in source order; the index '
              'arithmetic of continuous collections (non-wrapping and year-wrapping, all 12 timesteps, both leap '
              'flags) returns for every requested minute of the collection the pair at that minute, hence the same '
              'pairs as the search on the equivalent discontinuous collection; the whole-day continuous period '
              'filter (both slice shapes, any source period) returns exactly the run of source pairs at the steps of '
              'the clipped filter period in its chronological order under that period as header, and the '
              'constructor\'s length check holds; hour-window period filters and hour lists reduce to the minute '
              'path; the discontinuous period filter returns the requested pairs in the period\'s time order; '
              'pattern / range / statement / key filters (daily, monthly, monthly-per-hour, also by period) keep '
              'exactly the satisfying positions; propagation of validated_a_period. The model is compared with the '
              'real classes on structure-directed inputs on every run.')
LEVEL_NOTE = ('Trusted: Lean kernel; axioms propext/Classical.choice/Quot.sound only; the correspondence run '
              '(agreement on generated inputs only); rational model of the float index arithmetic; IEEE part of '
              'filter_by_hoys isolated as a hypothesis that is checked exhaustively each run; Python sorted() '
              'modelled as a stable merge sort. Model and theorems describe the code with the five '
              'fixes/C02_*.patch applied.')
TECHNIQUE = ('Lean 4 proof (list induction, arithmetic-progression form of whole-day periods from the C04 theorems, '
             'cyclic-progression lemma for the two slice shapes, case split over the 12 timesteps, omega) about a model tied to datacollection.py by differential '
             'correspondence')

VALID_TS = (1, 2, 3, 4, 5, 6, 10, 12, 15, 20, 30, 60)


# ---------------------------------------------------------------------------------------------
# calendar helpers (stdlib only)


def _b(x):
    return '1' if x else '0'


def _ndays(leap):
    return 366 if leap else 365


def _nmin(leap):
    return 1440 * _ndays(leap)


def _doy(leap, m, d):
    y = 2016 if leap else 2017
    return (datetime(y, m, d) - datetime(y, 1, 1)).days + 1


def _date(leap, k):
    y = 2016 if leap else 2017
    d = datetime(y, 1, 1) + timedelta(days=(k - 1) % _ndays(leap))
    return d.month, d.day


def _mlen(leap, m):
    return calendar.monthrange(2016 if leap else 2017, m)[1]


def _fbits(x):
    return '%016x' % struct.unpack('<Q', struct.pack('<d', x))[0]


def _ref_moys(c):
    """Independent enumeration of the steps of a period (fields as stored), in the period's order."""
    sm, sd, sh, em, ed, eh, ts, leap = c
    step = 60 // ts
    n = _nmin(leap)
    s = (_doy(leap, sm, sd) - 1) * 1440 + sh * 60
    e = (_doy(leap, em, ed) - 1) * 1440 + eh * 60

    def inwin(mod):
        if sh <= eh:
            return (sh * 60 <= mod <= eh * 60) or (sh == 0 and eh == 23)
        return mod >= sh * 60 or mod <= eh * 60

    if s <= e:
        seq = range(s, e + 60, step)
        return [m for m in seq if inwin(m % 1440)]
    return [m for m in range(s, n, step) if inwin(m % 1440)] + \
           [m for m in range(0, e + 60, step) if inwin(m % 1440)]


def _ref_days(c):
    """Days of the year from the start day to the end day of a period, in order (cyclic)."""
    sm, sd, sh, em, ed, eh, ts, leap = c
    a, b = _doy(leap, sm, sd), _doy(leap, em, ed)
    if (a, sh) <= (b, eh):
        return list(range(a, b + 1))
    return list(range(a, _ndays(leap) + 1)) + list(range(1, b + 1))


def _line_ap(c):
    return '%d %d %d %d %d %d %d %s' % (c[0], c[1], c[2], c[3], c[4], c[5], c[6], _b(c[7]))


def _ints(l):
    return '%d %s' % (len(l), ' '.join(str(int(x)) for x in l)) if l else '0'


# ---------------------------------------------------------------------------------------------
# building objects of the implementation


@contextlib.contextmanager
def _quiet():
    with contextlib.redirect_stdout(io.StringIO()):
        yield


def _mk_ap(c):
    from ladybug.analysisperiod import AnalysisPeriod
    with _quiet():
        return AnalysisPeriod(*c)


def _header(c):
    from ladybug.header import Header
    from ladybug.datatype.generic import GenericType
    return Header(GenericType('Id', 'id'), 'id', _mk_ap(c))


_CACHE = OrderedDict()


def _cont(c, vals=None):
    """Continuous source with position ids (cached) or explicit values."""
    from ladybug.datacollection import HourlyContinuousCollection
    if vals is not None:
        return HourlyContinuousCollection(_header(c), list(vals))
    key = ('cont', c)
    if key not in _CACHE:
        n = _ndays_of(c) * 24 * c[6]
        _CACHE[key] = HourlyContinuousCollection(_header(c), list(range(n)))
        while len(_CACHE) > 6:
            _CACHE.popitem(last=False)
    return _CACHE[key]


def _ndays_of(c):
    return len(_ref_days(c))


def _flagged(coll, validated):
    coll._validated_a_period = bool(validated)      # what from_dict / validate_analysis_period set
    return coll


def _disc(c, moys, vals=None, validated=False):
    from ladybug.datacollection import HourlyDiscontinuousCollection
    from ladybug.dt import DateTime
    dts = [DateTime.from_moy(m, c[7]) for m in moys]
    return _flagged(HourlyDiscontinuousCollection(
        _header(c), list(vals) if vals is not None else list(range(len(moys))), dts), validated)


def _disc_of_cont(c):
    key = ('disc', c)
    if key not in _CACHE:
        _CACHE[key] = _cont(c).to_discontinuous()
        while len(_CACHE) > 6:
            _CACHE.popitem(last=False)
    return _CACHE[key]


def _daily(c, doys, vals=None, validated=False):
    from ladybug.datacollection import DailyCollection
    return _flagged(DailyCollection(
        _header(c), list(vals) if vals is not None else list(range(len(doys))), list(doys)), validated)


def _monthly(c, months, vals=None, validated=False):
    from ladybug.datacollection import MonthlyCollection
    return _flagged(MonthlyCollection(
        _header(c), list(vals) if vals is not None else list(range(len(months))), list(months)), validated)


def _mph(c, keys, validated=False):
    from ladybug.datacollection import MonthlyPerHourCollection
    return _flagged(MonthlyPerHourCollection(
        _header(c), list(range(len(keys))), [tuple(k) for k in keys]), validated)


def _ap_fields(ap):
    return (ap.st_month, ap.st_day, ap.st_hour, ap.end_month, ap.end_day, ap.end_hour, ap.timestep,
            bool(ap.is_leap_year))


def _show(coll):
    """Canonical text of a result collection (the model driver's format)."""
    from ladybug.datacollection import HourlyContinuousCollection, HourlyDiscontinuousCollection, \
        MonthlyPerHourCollection
    apf = _line_ap(_ap_fields(coll.header.analysis_period))
    vals = coll.values
    if isinstance(coll, HourlyContinuousCollection):
        return 'ok C %s %d %s' % (apf, len(vals), ' '.join(str(v) for v in vals))
    if isinstance(coll, HourlyDiscontinuousCollection):
        keys = [str(d.moy) for d in coll.datetimes]
    elif isinstance(coll, MonthlyPerHourCollection):
        keys = ['%d %d %d' % tuple(d) for d in coll.datetimes]
    else:
        keys = [str(int(d)) for d in coll.datetimes]
    return ('ok D %s %s %d %s' % (apf, _b(coll.validated_a_period), len(vals),
                                  ' '.join('%s %s' % kv for kv in zip(keys, vals)))).rstrip()


def _canon(s):
    return ' '.join(s.split())


# ---------------------------------------------------------------------------------------------
# generators


def _src_days(c):
    return _ref_days(c)


def _gen_source(rng, kind, quick):
    leap = rng.random() < 0.4
    n = _ndays(leap)
    if kind == 'annual':
        ts = rng.choice([1, 1, 2, 3, 4] if quick else [1, 1, 2, 3, 4, 4, 5, 6])
        return (1, 1, 0, 12, 31, 23, ts, leap)
    if kind == 'partial':
        length = rng.choice([1, 1, 2, 3, 7, 14, rng.randrange(20, 45), rng.randrange(45, 121)])
        r = rng.random()
        if r < 0.15:
            a = 1
        elif r < 0.3:
            a = n - length + 1
        elif r < 0.5:
            a = max(1, 59 - rng.randrange(0, min(length, 3) + 1))       # around 28/29 Feb
        else:
            a = rng.randrange(1, n - length + 2)
        a = max(1, min(a, n - length + 1))
        b = a + length - 1
        cap = 14000 if quick else 20000
        tss = [t for t in VALID_TS if length * 24 * t <= cap] or [1]
        ts = rng.choice(tss if rng.random() < 0.6 else [t for t in tss if t <= 4] or [1])
        return _date(leap, a) + (0,) + _date(leap, b) + (23, ts, leap)
    # wrapping
    if rng.random() < 0.75:
        la = rng.choice([1, 1, 2, 5, rng.randrange(3, 40)])
        lb = rng.choice([1, 1, 2, 5, rng.randrange(3, 40)])
    else:
        la, lb = rng.randrange(40, 200), rng.randrange(40, 160)
    a, b = n - la + 1, lb
    cap = 14000 if quick else 20000
    tss = [t for t in VALID_TS if (la + lb) * 24 * t <= cap] or [1]
    ts = rng.choice(tss if rng.random() < 0.6 else [t for t in tss if t <= 4] or [1])
    return _date(leap, a) + (0,) + _date(leap, b) + (23, ts, leap)


def _fsteps(f):
    return len(_ref_days(f)) * 24 * f[6]


def _src_kind(c):
    if c[:6] == (1, 1, 0, 12, 31, 23):
        return 'annual'
    a, b = _doy(c[7], c[0], c[1]), _doy(c[7], c[3], c[4])
    return 'partial' if a <= b else 'wrapping'


def _rand_window(rng):
    r = rng.random()
    if r < 0.5:
        sh, eh = sorted((rng.randrange(24), rng.randrange(24)))
    elif r < 0.85:
        sh, eh = rng.choice([(22, 5), (23, 0), (12, 11), (18, 6), (1, 0)])
    else:
        sh, eh = rng.choice([(0, 22), (1, 23), (0, 0), (23, 23), (9, 17)])
    if (sh, eh) == (0, 23):
        eh = 22
    return sh, eh


def _gen_filter(rng, src, fkind):
    """A filter period relative to the source `src`; returns the 8 fields."""
    leap, ts = src[7], src[6]
    n = _ndays(leap)
    days = _src_days(src)
    inset = set(days)
    gap = [d for d in range(1, n + 1) if d not in inset]
    L = len(days)
    i = rng.choice([0, 0, rng.randrange(L)])
    j = rng.choice([L - 1, L - 1, i, rng.randrange(i, L)])
    j = max(i, j)
    sh, eh = 0, 23
    if fkind == 'inside':
        a, b = days[i], days[j]
    elif fkind == 'equal':
        a, b = days[0], days[-1]
    elif fkind == 'single':
        a = b = days[rng.choice([0, L - 1, rng.randrange(L)])]
    elif fkind == 'straddle':          # across the year end, inside a wrapping / annual source
        if _src_kind(src) == 'annual':
            a, b = n - rng.randrange(0, 40), 1 + rng.randrange(0, 40)
        elif _src_kind(src) == 'wrapping':
            la = n - days[0] + 1
            i = rng.randrange(0, la)
            j = rng.randrange(la, L) if L > la else L - 1
            a, b = days[i], days[j]
        else:
            a, b = days[i], days[j]
    elif fkind == 'wrap-long':         # wrapping filter on an annual source, most of the year
        a = rng.randrange(2, n + 1)
        b = rng.randrange(1, a)
    elif fkind in ('clip-start', 'clip-end', 'clip-both'):
        if not gap:
            a, b = days[i], days[j]
        else:
            before = [d for d in gap if (d < days[0]) or (_src_kind(src) == 'wrapping')]
            after = [d for d in gap if (d > days[-1]) or (_src_kind(src) == 'wrapping')]
            a, b = days[i], days[j]
            if fkind in ('clip-start', 'clip-both') and before:
                a = rng.choice([before[-1], rng.choice(before)])
            if fkind in ('clip-end', 'clip-both') and after:
                b = rng.choice([after[0], rng.choice(after)])
    elif fkind == 'window':
        j = min(j, i + rng.choice([0, 1, 2, 5, 20]))       # the minute path is quadratic in the code
        a, b = days[i], days[j]
        sh, eh = _rand_window(rng)
    elif fkind == 'window-clip':
        j = min(j, i + rng.choice([0, 1, 2, 5, 20]))
        a, b = days[i], days[j]
        if gap and rng.random() < 0.5:
            a = rng.choice(gap)
        elif gap:
            b = rng.choice(gap)
        sh, eh = _rand_window(rng)
    elif fkind == 'outside':
        if gap:
            a = rng.choice(gap)
            b = rng.choice(gap)
        else:
            a, b = days[j], days[i]
    elif fkind == 'two-piece':         # the other way round: covers both ends of the source
        a, b = days[j], days[i]
        if a == b and L > 1:
            a, b = days[-1], days[0]
    elif fkind == 'mismatch':
        a, b = days[i], days[j]
        if rng.random() < 0.5:
            ts = rng.choice([t for t in VALID_TS if t != ts])
        else:
            leap = not leap
            a, b = min(a, 365), min(b, 365)
            if (leap is False) and (a == 60 or b == 60):
                pass
    else:
        raise ValueError(fkind)
    return _date(leap, a) + (sh,) + _date(leap, b) + (eh, ts, leap)


PERIOD_KINDS = ['inside', 'inside', 'inside', 'equal', 'single', 'straddle', 'clip-start', 'clip-end', 'clip-both',
                'window', 'window', 'window-clip', 'outside', 'two-piece', 'mismatch']


def _sources(ctx, rng, oracle=False):
    """[(fields, kind)]: fixed ones first (the witnesses of the repaired defects), then generated."""
    fixed = [
        (12, 1, 0, 1, 31, 23, 1, False), (12, 30, 0, 1, 2, 23, 4, True), (3, 1, 0, 3, 31, 23, 2, False),
        (2, 27, 0, 3, 2, 23, 6, True), (1, 1, 0, 12, 31, 23, 1, False),
        (12, 31, 0, 1, 1, 23, 60, False), (1, 1, 0, 1, 1, 23, 30, True),
    ]
    if not ctx.quick:
        fixed += [(6, 1, 0, 5, 31, 23, 1, False), (1, 1, 0, 12, 31, 23, 2, True), (7, 2, 0, 7, 1, 23, 1, True)]
    out = [(c, _src_kind(c)) for c in fixed]
    if oracle:
        kinds = ['annual'] * ctx.n(1, 3) + ['partial'] * ctx.n(6, 40) + ['wrapping'] * ctx.n(6, 40)
    else:
        kinds = ['annual'] * ctx.n(1, 4) + ['partial'] * ctx.n(9, 60) + ['wrapping'] * ctx.n(9, 60)
    for k in kinds:
        out.append((_gen_source(rng, k, ctx.quick), k))
    return out


def _moy_requests(rng, src, smoys, nreq):
    """Explicit minute lists for a source with the minutes `smoys`: [(list, kind)]."""
    out = []
    n = len(smoys)
    for _ in range(nreq):
        r = rng.random()
        k = rng.choice([1, 2, 3, 10, min(n, 50)])
        if r < 0.25:
            req = sorted(rng.sample(smoys, min(k, n)))
            kind = 'sorted'
        elif r < 0.5:
            req = rng.sample(smoys, min(k, n))
            kind = 'shuffled'
        elif r < 0.65:
            req = [smoys[0], smoys[-1]] + [smoys[min(n - 1, x)] for x in (1, n // 2)]
            req = list(OrderedDict.fromkeys(req))
            kind = 'ends'
        elif r < 0.78:
            base = rng.sample(smoys, min(k, n))
            req = base + [rng.choice(base) for _ in range(2)]
            kind = 'repeats'
        elif r < 0.9:
            step = 60 // src[6]
            nm = _nmin(src[7])
            extra = [rng.choice([smoys[0] - step, smoys[-1] + step, rng.randrange(nm), smoys[0] + 1,
                                 -step, nm, nm + step, rng.randrange(nm) // step * step])
                     for _ in range(2)]
            req = rng.sample(smoys, min(2, n)) + extra
            rng.shuffle(req)
            kind = 'foreign'
        else:
            req = []
            kind = 'empty'
        out.append((req, kind))
    return out


def _truncation_sensitive(smoys, rng, k=2):
    """Minutes whose float hour times 60 falls just below the minute (int() instead of round() loses them)."""
    cand = [m for m in smoys[:4000] if int((m / 60.0) * 60) != m]
    return rng.sample(cand, min(k, len(cand)))


def _key_period(rng, leap, ts=None):
    """A filter period for the coarser collections, biased to the year end: December, the last day,
    periods that wrap over 31 Dec, the whole year, around 28/29 Feb, else random."""
    n = _ndays(leap)
    r = rng.random()
    sh, eh = rng.choice([(0, 23), (0, 23), _rand_window(rng)])
    ts = ts or rng.choice([1, 1, 2, 4])
    if r < 0.14:
        a, b = n - 30, n                                   # December
    elif r < 0.24:
        a = b = n                                          # 31 Dec only
    elif r < 0.42:
        a, b = n - rng.randrange(0, 40), rng.randrange(1, 40)   # wraps the year end
    elif r < 0.5:
        a, b = 1, n                                        # whole year
    elif r < 0.6:
        a, b = 59 - rng.randrange(0, 2), 60 + rng.randrange(0, 2)   # around 28/29 Feb
    elif r < 0.68:
        a, b = rng.randrange(2, n + 1), n                  # ... to 31 Dec
    else:
        return _rand_period(rng, leap, ts=ts)
    return _date(leap, a) + (sh,) + _date(leap, b) + (eh, ts, leap)


def _keyed_case(rng):
    """One structure-directed case for the daily / monthly / monthly-per-hour collections:
    leap-year daily collections hold day 60 (29 Feb) and day 366, requests name them, period filters
    end on / wrap over 31 Dec, monthly-per-hour keys carry sub-hourly minutes."""
    leap = rng.random() < 0.5
    n = _ndays(leap)
    ts = rng.choice([1, 1, 2, 3, 4, 6, 12])
    hdr = _key_period(rng, leap, ts=ts) if rng.random() < 0.5 else _rand_period(rng, leap, ts=ts)
    shape = rng.choice(['full', 'ends', 'ends', 'random', 'random'])
    if shape == 'full':
        doys = list(range(1, n + 1))
    elif shape == 'ends':
        doys = list(OrderedDict.fromkeys([1, 2, 59, 60, 61, n - 1, n] + rng.sample(range(1, n + 1), rng.choice([0, 3, 10]))))
    else:
        doys = rng.sample(range(1, n + 1), rng.choice([1, 3, 10, 40]))
        if rng.random() < 0.5:
            doys = list(OrderedDict.fromkeys(doys + [n]))
    if rng.random() < 0.4:
        rng.shuffle(doys)
    elif rng.random() < 0.6:
        doys.sort()
    dreq = rng.sample(doys, min(len(doys), rng.choice([0, 1, 2, 5])))
    dreq += rng.sample([n, n, 60, 365, 366, 367, 0, 1, rng.randrange(1, 368)], 3)
    dfilt = _key_period(rng, leap if rng.random() < 0.92 else not leap)
    months = rng.sample(range(1, 13), rng.choice([1, 3, 6, 12]))
    if rng.random() < 0.5:
        months = list(OrderedDict.fromkeys(months + [12, 1, 2]))
    if rng.random() < 0.5:
        months.sort()
    mreq = rng.sample(range(0, 14), rng.choice([0, 1, 3, 6])) + rng.sample([12, 1, 2], 1)
    mfilt = _key_period(rng, rng.random() < 0.5)
    step = 60 // ts
    base = list(OrderedDict.fromkeys(months[:2] + [12]))
    allk = [(m, h, mi) for m in base for h in range(24) for mi in range(0, 60, step)]
    edge = [(12, 23, 60 - step), (12, 0, 0), (base[0], 23, 60 - step), (base[0], 0, step % 60)]
    keys = list(OrderedDict.fromkeys(rng.sample(allk, min(len(allk), rng.choice([1, 5, 30, 80]))) +
                                     [k for k in edge if rng.random() < 0.5]))
    preq = rng.sample(keys, min(len(keys), 3)) + rng.sample(edge + [(13, 0, 0), (base[0], 24, 0), (12, 23, 59)], 2)
    pfilt = _key_period(rng, leap, ts=ts)
    return {'leap': leap, 'hdr': hdr, 'doys': doys, 'dreq': dreq, 'dfilt': dfilt, 'months': months,
            'mreq': mreq, 'mfilt': mfilt, 'keys': keys, 'preq': preq, 'pfilt': pfilt, 'shape': shape}


def _disc_sources(ctx, rng):
    """Discontinuous sources with holes / unsorted / repeated steps: [(fields, moys, kind)]."""
    out = []
    for _ in range(ctx.n(25, 120)):
        leap = rng.random() < 0.4
        ts = rng.choice(VALID_TS)
        step = 60 // ts
        nm = _nmin(leap)
        shape = rng.choice(['holes', 'holes', 'unsorted', 'repeated', 'year-ends', 'off-header'])
        a = rng.randrange(1, _ndays(leap) - 3)
        c = _date(leap, a) + (rng.choice([0, 0, 6]),) + _date(leap, a + rng.randrange(0, 3)) + \
            (rng.choice([23, 23, 18]), ts, leap)
        if shape == 'year-ends':
            c = (12, 30, 0, 1, 2, 23, ts, leap)
        base = _ref_moys(c)
        if shape == 'off-header':
            base = [m for m in (rng.randrange(nm) // step * step for _ in range(30))]
        if len(base) > 400:
            base = base[:200] + base[-200:]
        moys = [m for m in base if rng.random() < 0.7] or base[:1]
        moys = list(OrderedDict.fromkeys(moys))
        if shape == 'unsorted':
            rng.shuffle(moys)
        if shape == 'repeated' and moys:
            moys = moys + [moys[0], moys[-1]]
        out.append((c, moys, shape, rng.random() < 0.5))
    return out


STMTS = [lambda x, y, z: 'a > %d' % x,
         lambda x, y, z: 'a %% %d == %d' % (y, z),
         lambda x, y, z: 'a > %d and a %% %d == %d' % (x, y, z),
         lambda x, y, z: 'a < %d or a > %d' % (x, y)]


def _stmt_pred(code, x, y, z):
    return [lambda a: a > x, lambda a: a % y == z, lambda a: a > x and a % y == z,
            lambda a: a < x or a > y][code]


# ---------------------------------------------------------------------------------------------
# correspondence


def _guard(fn):
    def run(c):
        try:
            with _quiet():
                return fn(c)
        except Exception as e:
            return 'err:' + err_name(e)
    return run


def correspondence(ctx):
    rng = ctx.rng
    _float_hour_assumption(ctx)

    srcs = _sources(ctx, rng)
    period_cases, moy_cases, hoy_cases, pat_cases, val_cases = [], [], [], [], []
    budget = ctx.n(2_500_000, 12_000_000)          # total values moved through period filters
    used = 0
    for c, kind in srcs:
        ctx.count('src:' + kind)
        ctx.count('src_ts:%d' % c[6])
        ctx.count('src_leap:%s' % c[7])
        nvals = _ndays_of(c) * 24 * c[6]
        kinds = list(PERIOD_KINDS)
        if kind == 'annual':
            kinds += ['wrap-long', 'straddle', 'wrap-long']
        npf = ctx.n(6, 14) if nvals > 5000 else ctx.n(10, 22)
        for _ in range(npf):
            fk = rng.choice(kinds)
            f = _gen_filter(rng, c, fk)
            used += nvals
            if used > budget and nvals > 3000:
                continue
            if _fsteps(f) > 40000 and not (f[2] == 0 and f[5] == 23):
                continue                 # the period would be enumerated step by step (minutes per case)
            period_cases.append((c, f, kind, fk))
        smoys = _ref_moys(c)
        for req, rk in _moy_requests(rng, c, smoys, ctx.n(5, 8)):
            moy_cases.append((c, req, kind, rk))
        for _ in range(2):
            k = rng.choice([1, 3, 8])
            ms = rng.sample(smoys, min(k, len(smoys)))
            ms = list(OrderedDict.fromkeys(ms + _truncation_sensitive(smoys, rng)))
            hs = [m / 60.0 for m in ms]
            r = rng.random()
            rk = 'exact'
            if r < 0.3:
                hs += [rng.choice([ms[0] / 60.0 + 1e-9, (smoys[-1] + 60) / 60.0, -1.0, ms[0] / 60.0 + 0.004,
                                   rng.uniform(0, 8760)])]
                rk = 'foreign'
            hoy_cases.append((c, hs, kind, rk))
        if nvals <= 3000:
            for _ in range(2):
                plen = rng.choice([0, 1, 2, 3, 7, 24, nvals, nvals + 3, nvals - 1 if nvals > 1 else 1])
                pat = [rng.random() < 0.4 for _ in range(plen)]
                if rng.random() < 0.1:
                    pat = [False] * plen
                pat_cases.append((c, pat, kind))
            vals = [rng.randrange(-20, 21) for _ in range(nvals)]
            lo = rng.choice([None, -5, 0, rng.randrange(-25, 25)])
            hi = rng.choice([None, 5, 0, rng.randrange(-25, 25)])
            val_cases.append(('range', c, vals, (lo, hi)))
            code = rng.randrange(4)
            val_cases.append(('stmt', c, vals, (code, rng.randrange(-22, 22), rng.randrange(1, 7), rng.randrange(0, 3))))

    # -- period filters: continuous object and its discontinuous copy
    for c, f, kind, fk in period_cases:
        ctx.count('period:' + fk)
    compare_batch(ctx, 'cont_ap', period_cases,
                  lambda x: 'cont_ap %s %s' % (_line_ap(x[0]), _line_ap(x[1])),
                  _guard(lambda x: _show(_cont(x[0]).filter_by_analysis_period(_mk_ap(x[1])))), canon=_canon)
    small = [x for x in period_cases if _ndays_of(x[0]) * 24 * x[0][6] <= ctx.n(1500, 4000) and _fsteps(x[1]) <= 20000]
    compare_batch(ctx, 'disc_ap', small,
                  lambda x: 'disc_ap %s 1 %s %s' % (_line_ap(x[0]), _ints(_ref_moys(x[0])), _line_ap(x[1])),
                  _guard(lambda x: _show(_disc_of_cont(x[0]).filter_by_analysis_period(_mk_ap(x[1])))),
                  canon=_canon, key=lambda x: ('d', x[0], x[1]))
    compare_batch(ctx, 'ap_subset', period_cases,
                  lambda x: 'ap_subset %s %s' % (_line_ap(x[0]), _line_ap(x[1])),
                  _guard(lambda x: 'ok ' + _line_ap(_ap_fields(
                      _cont(x[0])._get_analysis_period_subset(_mk_ap(x[1]))))), canon=_canon)

    # -- explicit minute lists
    for c, req, kind, rk in moy_cases:
        ctx.count('moys:' + rk)
    compare_batch(ctx, 'cont_moys', moy_cases,
                  lambda x: 'cont_moys %s %s' % (_line_ap(x[0]), _ints(x[1])),
                  _guard(lambda x: _show(_cont(x[0]).filter_by_moys(list(x[1])))), canon=_canon)
    small = [x for x in moy_cases if _ndays_of(x[0]) * 24 * x[0][6] <= ctx.n(1500, 4000)]
    compare_batch(ctx, 'disc_moys', small,
                  lambda x: 'disc_moys %s 1 %s %s' % (_line_ap(x[0]), _ints(_ref_moys(x[0])), _ints(x[1])),
                  _guard(lambda x: _show(_disc_of_cont(x[0]).filter_by_moys(tuple(x[1])))), canon=_canon)

    # -- hour lists
    for c, hs, kind, rk in hoy_cases:
        ctx.count('hoys:' + rk)
    compare_batch(ctx, 'cont_hoys', hoy_cases,
                  lambda x: 'cont_hoys %s %d %s' % (_line_ap(x[0]), len(x[1]), ' '.join(_fbits(h) for h in x[1])),
                  _guard(lambda x: _show(_cont(x[0]).filter_by_hoys(list(x[1])))), canon=_canon,
                  key=lambda x: (x[0], tuple(repr(h) for h in x[1])))
    small = [x for x in hoy_cases if _ndays_of(x[0]) * 24 * x[0][6] <= ctx.n(1500, 4000)]
    compare_batch(ctx, 'disc_hoys', small,
                  lambda x: 'disc_hoys %s 1 %s %d %s' % (_line_ap(x[0]), _ints(_ref_moys(x[0])), len(x[1]),
                                                     ' '.join(_fbits(h) for h in x[1])),
                  _guard(lambda x: _show(_disc_of_cont(x[0]).filter_by_hoys(list(x[1])))), canon=_canon,
                  key=lambda x: ('d', x[0], tuple(repr(h) for h in x[1])))

    # -- pattern / range / statement on continuous sources
    compare_batch(ctx, 'cont_pattern', pat_cases,
                  lambda x: 'cont_pattern %s %s' % (_line_ap(x[0]), _ints([1 if b else 0 for b in x[1]])),
                  _guard(lambda x: _show(_cont(x[0]).filter_by_pattern(list(x[1])))), canon=_canon)
    rcs = [x for x in val_cases if x[0] == 'range']
    compare_batch(ctx, 'cont_range', rcs,
                  lambda x: 'cont_range %s %s %s %s' % (_line_ap(x[1]), _opt(x[3][0]), _opt(x[3][1]), _ints(x[2])),
                  _guard(lambda x: _show(_range(_cont(x[1], x[2]), x[3]))), canon=_canon,
                  key=lambda x: (x[1], x[3], tuple(x[2][:50])))
    scs = [x for x in val_cases if x[0] == 'stmt']
    compare_batch(ctx, 'cont_stmt', scs,
                  lambda x: 'cont_stmt %s %d %d %d %d %s' % ((_line_ap(x[1]),) + x[3] + (_ints(x[2]),)),
                  _guard(lambda x: _show(_cont(x[1], x[2]).filter_by_conditional_statement(STMTS[x[3][0]](*x[3][1:])))),
                  canon=_canon, key=lambda x: (x[1], x[3], tuple(x[2][:50])))

    # -- discontinuous sources with holes / unsorted steps
    dsrc = _disc_sources(ctx, rng)
    dper, dmoy, dhoy, dpat, dval = [], [], [], [], []
    for c, moys, shape, vflag in dsrc:
        ctx.count('disc_src:' + shape)
        ctx.count('disc_src_validated:%s' % vflag)
        for _ in range(3):
            a = _doy(c[7], c[0], c[1])
            fa = max(1, a - rng.randrange(0, 3))
            fb = min(_ndays(c[7]), fa + rng.randrange(0, 5))
            sh, eh = rng.choice([(0, 23), (0, 23), _rand_window(rng)])
            f = _date(c[7], fa) + (sh,) + _date(c[7], fb) + (eh, c[6], c[7])
            if shape == 'year-ends' and rng.random() < 0.6:
                f = (12, 31, sh, 1, 1, eh, c[6], c[7])
            if rng.random() < 0.08:
                f = f[:6] + (rng.choice([t for t in VALID_TS if t != c[6]]), c[7])
            dper.append((c, moys, f, vflag))
        for req, rk in _moy_requests(rng, c, moys, 3):
            dmoy.append((c, moys, req, vflag))
        ms = rng.sample(moys, min(3, len(moys)))
        dhoy.append((c, moys, [m / 60.0 for m in ms] + ([ms[0] / 60.0 + 0.004] if rng.random() < 0.3 else []), vflag))
        plen = rng.choice([0, 1, 2, 5, len(moys), len(moys) + 2])
        dpat.append((c, moys, [rng.random() < 0.5 for _ in range(plen)], vflag))
        vals = [rng.randrange(-20, 21) for _ in moys]
        dval.append(('range', c, moys, vals, (rng.choice([None, -3, 4]), rng.choice([None, 3, 12])), vflag))
        dval.append(('stmt', c, moys, vals, (rng.randrange(4), rng.randrange(-22, 22), rng.randrange(1, 7),
                                            rng.randrange(0, 3)), vflag))
    compare_batch(ctx, 'disc_ap', dper,
                  lambda x: 'disc_ap %s %s %s %s' % (_line_ap(x[0]), _b(x[3]), _ints(x[1]), _line_ap(x[2])),
                  _guard(lambda x: _show(_disc(x[0], x[1], None, x[3]).filter_by_analysis_period(_mk_ap(x[2])))),
                  canon=_canon)
    compare_batch(ctx, 'disc_moys', dmoy,
                  lambda x: 'disc_moys %s %s %s %s' % (_line_ap(x[0]), _b(x[3]), _ints(x[1]), _ints(x[2])),
                  _guard(lambda x: _show(_disc(x[0], x[1], None, x[3]).filter_by_moys(list(x[2])))), canon=_canon)
    compare_batch(ctx, 'disc_hoys', dhoy,
                  lambda x: 'disc_hoys %s %s %s %d %s' % (_line_ap(x[0]), _b(x[3]), _ints(x[1]), len(x[2]),
                                                        ' '.join(_fbits(h) for h in x[2])),
                  _guard(lambda x: _show(_disc(x[0], x[1], None, x[3]).filter_by_hoys(list(x[2])))), canon=_canon,
                  key=lambda x: (x[0], tuple(x[1]), tuple(repr(h) for h in x[2])))
    compare_batch(ctx, 'keyed_pattern', dpat,
                  lambda x: 'keyed_pattern %s %s %s %s' % (_line_ap(x[0]), _b(x[3]), _ints(x[1]),
                                                          _ints([1 if b else 0 for b in x[2]])),
                  _guard(lambda x: _show(_disc(x[0], x[1], None, x[3]).filter_by_pattern(list(x[2])))), canon=_canon)
    compare_batch(ctx, 'keyed_range', [x for x in dval if x[0] == 'range'],
                  lambda x: 'keyed_range %s %s %s %s %s' % (_line_ap(x[1]), _b(x[5]), _opt(x[4][0]), _opt(x[4][1]),
                                                           _kv(x[2], x[3])),
                  _guard(lambda x: _show(_range(_disc(x[1], x[2], x[3], x[5]), x[4]))), canon=_canon)
    compare_batch(ctx, 'keyed_stmt', [x for x in dval if x[0] == 'stmt'],
                  lambda x: 'keyed_stmt %s %s %d %d %d %d %s' % ((_line_ap(x[1]), _b(x[5])) + x[4] + (_kv(x[2], x[3]),)),
                  _guard(lambda x: _show(_disc(x[1], x[2], x[3], x[5]).filter_by_conditional_statement(
                      STMTS[x[4][0]](*x[4][1:])))), canon=_canon)

    # -- daily / monthly / monthly-per-hour collections
    dk, da, mk_, ma, pk, pa, kp = [], [], [], [], [], [], []
    for _ in range(ctx.n(70, 300)):
        kc = _keyed_case(rng)
        hdr, doys, months, keys = kc['hdr'], kc['doys'], kc['months'], kc['keys']
        ctx.count('keyed:leap=%s' % kc['leap'])
        ctx.count('keyed:daily_%s' % kc['shape'])
        if kc['leap'] and 366 in doys:
            ctx.count('keyed:daily_has_366')
            if 366 in kc['dreq']:
                ctx.count('keyed:daily_req_366')
        dk.append((hdr, doys, kc['dreq']))
        da.append((hdr, doys, kc['dfilt']))
        mk_.append((hdr, months, kc['mreq']))
        ma.append((hdr, months, kc['mfilt']))
        pk.append((hdr, keys, kc['preq']))
        pa.append((hdr, keys, kc['pfilt']))
        kp.append((hdr, doys, [rng.random() < 0.5 for _ in range(rng.choice([0, 1, 3, len(doys)]))]))
    compare_batch(ctx, 'keys', dk, lambda x: 'keys %s %s %s %s' % (_line_ap(x[0]), _vf(x[1]), _ints(x[1]), _ints(x[2])),
                  _guard(lambda x: _show(_daily(x[0], x[1], None, _vf(x[1]) == '1').filter_by_doys(list(x[2])))), canon=_canon,
                  key=lambda x: ('daily',) + tuple(map(str, x)))
    compare_batch(ctx, 'daily_ap', da,
                  lambda x: 'daily_ap %s %s %s %s' % (_line_ap(x[0]), _vf(x[1]), _ints(x[1]), _line_ap(x[2])),
                  _guard(lambda x: _show(_daily(x[0], x[1], None, _vf(x[1]) == '1').filter_by_analysis_period(_mk_ap(x[2])))),
                  canon=_canon)
    compare_batch(ctx, 'keys', mk_, lambda x: 'keys %s %s %s %s' % (_line_ap(x[0]), _vf(x[1]), _ints(x[1]), _ints(x[2])),
                  _guard(lambda x: _show(_monthly(x[0], x[1], None, _vf(x[1]) == '1').filter_by_months(list(x[2])))), canon=_canon,
                  key=lambda x: ('monthly',) + tuple(map(str, x)))
    compare_batch(ctx, 'monthly_ap', ma,
                  lambda x: 'monthly_ap %s %s %s %s' % (_line_ap(x[0]), _vf(x[1]), _ints(x[1]), _line_ap(x[2])),
                  _guard(lambda x: _show(_monthly(x[0], x[1], None, _vf(x[1]) == '1').filter_by_analysis_period(_mk_ap(x[2])))),
                  canon=_canon)
    compare_batch(ctx, 'mph_keys', pk,
                  lambda x: 'mph_keys %s %s %s %s' % (_line_ap(x[0]), _vf(x[1]), _triples(x[1]), _triples(x[2])),
                  _guard(lambda x: _show(_mph(x[0], x[1], _vf(x[1]) == '1').filter_by_months_per_hour([tuple(k) for k in x[2]]))),
                  canon=_canon)
    compare_batch(ctx, 'mph_ap', pa,
                  lambda x: 'mph_ap %s %s %s %s' % (_line_ap(x[0]), _vf(x[1]), _triples(x[1]), _line_ap(x[2])),
                  _guard(lambda x: _show(_mph(x[0], x[1], _vf(x[1]) == '1').filter_by_analysis_period(_mk_ap(x[2])))),
                  canon=_canon)
    compare_batch(ctx, 'keyed_pattern', kp,
                  lambda x: 'keyed_pattern %s %s %s %s' % (_line_ap(x[0]), _vf(x[1]), _ints(x[1]),
                                                          _ints([1 if b else 0 for b in x[2]])),
                  _guard(lambda x: _show(_daily(x[0], x[1], None, _vf(x[1]) == '1').filter_by_pattern(list(x[2])))), canon=_canon,
                  key=lambda x: ('daily',) + tuple(map(str, x)))
    _CACHE.clear()


def _vf(keys):
    """validated_a_period flag given to a keyed source: parity of its first key (both values occur)."""
    k = keys[0]
    return _b((k[1] if isinstance(k, (tuple, list)) else k) % 2 == 1)


def _opt(v):
    return 'N' if v is None else str(int(v))


def _kv(keys, vals):
    return '%d %s' % (len(keys), ' '.join('%d %d' % kv for kv in zip(keys, vals)))


def _triples(keys):
    return '%d %s' % (len(keys), ' '.join('%d %d %d' % tuple(k) for k in keys))


def _range(coll, lohi):
    lo, hi = lohi
    kw = {}
    if lo is not None:
        kw['greater_than'] = lo
    if hi is not None:
        kw['less_than'] = hi
    return coll.filter_by_range(**kw)


def _rand_period(rng, leap, ts=None):
    n = _ndays(leap)
    a, b = rng.randrange(1, n + 1), rng.randrange(1, n + 1)
    if rng.random() < 0.7 and a > b:
        a, b = b, a
    sh, eh = rng.choice([(0, 23), (0, 23), _rand_window(rng)])
    return _date(leap, a) + (sh,) + _date(leap, b) + (eh, ts or rng.choice([1, 1, 2, 4]), leap)


def _float_hour_assumption(ctx):
    """Hypothesis of theorem C02_hoys, exhaustively: round((m / 60.0) * 60) == m for every minute."""
    bad = [m for m in range(0, 527040) if int(round((m / 60.0) * 60)) != m]
    ctx.compared += 527040
    ctx.count('float_hour_assumption_minutes', 527040)
    if bad:
        ctx.disagree('float_hour_assumption', {'moy': bad[0]}, str(bad[0]), repr((bad[0] / 60.0) * 60))


# ---------------------------------------------------------------------------------------------
# property oracle (statement evaluated on the real classes; independent of the model)


def _pairs(coll):
    return [(d.moy, v) for d, v in zip(coll.datetimes, coll.values)]


def _dt_problem(coll, leap):
    """Date-times of a result must be DateTimes of the source's year kind."""
    for d in coll.datetimes:
        if bool(d.leap_year) != bool(leap):
            return 'date-time %s has leap_year=%s' % (d, d.leap_year)
    return None


def _ref_clip(src, f):
    """Steps of the filter `f` that the source `src` holds, in the filter's order, and whether the case is
    inside the property's domain for the continuous period filter (see ASSUMPTIONS)."""
    sset = set(_ref_moys(src))
    fm = _ref_moys(f)
    e = [m for m in fm if m in sset]
    if len(e) == len(fm):
        return e, True
    fd, sd = _ref_days(f), _ref_days(src)
    sdset = set(sd)
    idx = [k for k, d in enumerate(fd) if d in sdset]
    if not idx or idx != list(range(idx[0], idx[-1] + 1)):
        return e, False
    sidx = [sd.index(fd[k]) for k in idx]
    if sidx != list(range(sidx[0], sidx[-1] + 1)):
        return e, False
    if len(set(fd)) != len(fd):
        return e, False
    if fd[0] > fd[-1] and sd[0] <= sd[-1]:
        return e, False                 # a wrapping filter that leaves a non-wrapping source: not "inside"
    overnight = f[2] > f[5]
    return e, not overnight


def check_case(op, inp):
    with _quiet():
        return _check_case(op, inp)


def _fail(req, obs, sig):
    return {'required': req, 'observed': obs, 'sig': sig}


def _short(l, k=6):
    l = list(l)
    return l if len(l) <= 2 * k else l[:k] + ['...%d more...' % (len(l) - 2 * k)] + l[-k:]


def _check_case(op, inp):
    src = tuple(inp['src']) if 'src' in inp else None
    if op == 'period':
        f = tuple(inp['filter'])
        path = inp['path']
        skind = _src_kind(src)
        sig = {'path': path, 'src': skind, 'filter': inp.get('fkind', '?'),
               'filter_wraps': _ref_days(f)[0] > _ref_days(f)[-1] or
               (len(_ref_days(f)) > 1 and _ref_days(f)[0] == _ref_days(f)[-1])}
        smoys = _ref_moys(src)
        idof = {m: i for i, m in enumerate(smoys)}
        e, dom = _ref_clip(src, f)
        if not e or (path == 'cont' and not dom):
            return None                      # outside the property's quantifier
        want = [(m, idof[m]) for m in e]
        coll = _cont(src) if path == 'cont' else _disc_of_cont(src)
        try:
            r = coll.filter_by_analysis_period(_mk_ap(f))
        except Exception as ex:
            return _fail('%d pairs %s' % (len(want), _short(want, 3)), 'raises %s: %s' % (type(ex).__name__, str(ex)[:120]),
                         dict(sig, what='raises', err=type(ex).__name__))
        got = _pairs(r)
        if Counter(got) != Counter(want):
            return _fail(_short(want), _short(got), dict(sig, what='pairs'))
        hm = set(_ref_moys(_ap_fields(r.header.analysis_period)))
        out = [m for m, _ in got if m not in hm]
        if out:
            return _fail('header period %s contains every result date-time' % (r.header.analysis_period,),
                         'minute %d is not a step of it' % out[0], dict(sig, what='header'))
        p = _dt_problem(r, src[7])
        if p:
            return _fail('date-times of the source year', p, dict(sig, what='leap'))
        if got != want:
            return _fail('order of the period: %s' % _short(want), _short(got), dict(sig, what='order'))
        return None
    if op in ('moys', 'hoys'):
        path = inp['path']
        req = list(inp['req'])
        skind = _src_kind(src)
        sig = {'path': path, 'src': skind}
        smoys = _ref_moys(src)
        idof = {m: i for i, m in enumerate(smoys)}
        want = [(m, idof[m]) for m in req]
        res = {}
        for p_ in (['cont', 'disc'] if path == 'both' else [path]):
            coll = _cont(src) if p_ == 'cont' else _disc_of_cont(src)
            try:
                if op == 'moys':
                    r = coll.filter_by_moys(list(req))
                else:   # hours that are no steps of the collection (inp['foreign'], minutes) select nothing
                    hs = [m / 60.0 for m in req] + [m / 60.0 for m in inp.get('foreign', [])]
                    r = coll.filter_by_hoys(hs[1:] + hs[:1])
            except Exception as ex:
                return _fail('%d pairs %s' % (len(want), _short(want, 3)),
                             'raises %s: %s' % (type(ex).__name__, str(ex)[:120]),
                             dict(sig, path=p_, what='raises', err=type(ex).__name__))
            got = _pairs(r)
            res[p_] = got
            if Counter(got) != Counter(want):
                return _fail(_short(sorted(want)), _short(sorted(got)), dict(sig, path=p_, what='pairs'))
            if _ap_fields(r.header.analysis_period) != src:
                return _fail('header period of the source', str(r.header.analysis_period), dict(sig, path=p_, what='header'))
            p = _dt_problem(r, src[7])
            if p:
                return _fail('date-times of the source year', p, dict(sig, path=p_, what='leap'))
        if len(res) == 2 and Counter(res['cont']) != Counter(res['disc']):
            return _fail('same pairs from both paths', 'cont %s vs disc %s' % (_short(res['cont']), _short(res['disc'])),
                         dict(sig, what='cont-vs-disc'))
        return None
    if op == 'values':
        kind = inp['kind']
        vals = inp['vals']
        cls = inp['cls']
        keys = inp['keys']
        if cls == 'cont':
            coll = _cont(src, vals)
            keys = _ref_moys(src)
        elif cls == 'disc':
            coll = _disc(src, keys, vals)
        elif cls == 'daily':
            coll = _daily(src, keys, vals)
        else:
            coll = _monthly(src, keys, vals)
        sig = {'kind': kind, 'cls': cls}
        if kind == 'pattern':
            pat = inp['pattern']
            keep = [i for i in range(len(vals)) if pat[i % len(pat)]]
            call = lambda: coll.filter_by_pattern(list(pat))   # noqa: E731
        elif kind == 'range':
            lo, hi = inp['lo'], inp['hi']
            keep = [i for i, a in enumerate(vals) if (lo is None or lo < a) and (hi is None or a < hi)]
            call = lambda: _range(coll, (lo, hi))              # noqa: E731
        else:
            code, x, y, z = inp['stmt']
            pr = _stmt_pred(code, x, y, z)
            keep = [i for i, a in enumerate(vals) if pr(a)]
            call = lambda: coll.filter_by_conditional_statement(STMTS[code](x, y, z))   # noqa: E731
        if not keep:
            return None
        want = [(keys[i], vals[i]) for i in keep]
        try:
            r = call()
        except Exception as ex:
            return _fail(_short(want), 'raises %s: %s' % (type(ex).__name__, str(ex)[:120]),
                         dict(sig, what='raises', err=type(ex).__name__))
        got = _pairs(r) if cls in ('cont', 'disc') else list(zip(r.datetimes, r.values))
        if got != want:
            return _fail(_short(want), _short(got), dict(sig, what='positions'))
        return None
    if op == 'keys':
        cls = inp['cls']
        keys = [tuple(k) if isinstance(k, list) else k for k in inp['keys']]
        sig = {'cls': cls, 'by': inp['by']}
        if cls == 'daily':
            coll = _daily(src, keys)
        elif cls == 'monthly':
            coll = _monthly(src, keys)
        else:
            coll = _mph(src, keys)
        if inp['by'] == 'keys':
            req = [tuple(k) if isinstance(k, list) else k for k in inp['req']]
            call = {'daily': lambda: coll.filter_by_doys(list(req)),
                    'monthly': lambda: coll.filter_by_months(list(req)),
                    'mph': lambda: coll.filter_by_months_per_hour(list(req))}[cls]
            hdr = src
        else:
            f = tuple(inp['filter'])
            fm = _ref_moys(f)
            if cls == 'daily':
                req = set(m // 1440 + 1 for m in fm)
            else:
                y = 2016 if f[7] else 2017
                mons = set((datetime(y, 1, 1) + timedelta(minutes=m)).month for m in fm)
                if cls == 'monthly':
                    req = mons
                else:   # months of the period x times of day of the period (C04: months_per_hour is a product)
                    tod = set(m % 1440 for m in fm)
                    req = set((mo, t // 60, t % 60) for mo in mons for t in tod)
            call = lambda: coll.filter_by_analysis_period(_mk_ap(f))   # noqa: E731
            hdr = f
        want = [(k, i) for i, k in enumerate(keys) if k in req]
        if not want:
            return None
        try:
            r = call()
        except Exception as ex:
            return _fail(_short(want), 'raises %s: %s' % (type(ex).__name__, str(ex)[:120]),
                         dict(sig, what='raises', err=type(ex).__name__))
        got = list(zip(r.datetimes, r.values))
        if got != want:
            return _fail(_short(want), _short(got), dict(sig, what='pairs'))
        if _ap_fields(r.header.analysis_period) != hdr:
            return _fail('header period %s' % (hdr,), str(r.header.analysis_period), dict(sig, what='header'))
        return None
    raise ValueError('unknown op ' + op)


replay = check_case

# witnesses of the repaired defects and of the open finding (always evaluated)
CORPUS = [
    # leap-year daily collections: day 366 by key list and by periods that contain 31 Dec (seeded C02-4)
    ('keys', {'src': [1, 1, 0, 12, 31, 23, 1, True], 'cls': 'daily', 'by': 'keys', 'keys': list(range(1, 367)),
              'req': [1, 60, 365, 366]}),
    ('keys', {'src': [1, 1, 0, 12, 31, 23, 1, True], 'cls': 'daily', 'by': 'period', 'keys': list(range(1, 367)),
              'filter': [12, 1, 0, 12, 31, 23, 1, True]}),
    ('keys', {'src': [1, 1, 0, 12, 31, 23, 1, True], 'cls': 'daily', 'by': 'period', 'keys': [366, 1, 60, 2],
              'filter': [12, 30, 0, 1, 2, 23, 1, True]}),
    ('keys', {'src': [1, 1, 0, 12, 31, 23, 1, True], 'cls': 'daily', 'by': 'period', 'keys': list(range(1, 367)),
              'filter': [1, 1, 0, 12, 31, 23, 1, True]}),
    ('keys', {'src': [1, 1, 0, 12, 31, 23, 1, False], 'cls': 'daily', 'by': 'keys', 'keys': list(range(1, 366)),
              'req': [365, 1]}),
    ('keys', {'src': [1, 1, 0, 12, 31, 23, 1, True], 'cls': 'monthly', 'by': 'period', 'keys': list(range(1, 13)),
              'filter': [12, 30, 0, 1, 2, 23, 1, True]}),
    ('keys', {'src': [1, 1, 0, 12, 31, 23, 4, True], 'cls': 'mph', 'by': 'keys',
              'keys': [[12, 23, 45], [12, 23, 30], [2, 0, 15], [1, 0, 0]], 'req': [[12, 23, 45], [2, 0, 15], [12, 23, 59]]}),
    ('keys', {'src': [1, 1, 0, 12, 31, 23, 4, True], 'cls': 'mph', 'by': 'period',
              'keys': [[12, 23, 45], [12, 22, 30], [1, 0, 15], [6, 12, 0]], 'filter': [12, 30, 22, 1, 2, 23, 4, True]}),
    ('period', {'src': [12, 1, 0, 1, 31, 23, 1, False], 'path': 'cont', 'fkind': 'straddle',
                'filter': [12, 15, 0, 1, 15, 23, 1, False]}),
    ('period', {'src': [12, 1, 0, 1, 31, 23, 1, False], 'path': 'cont', 'fkind': 'inside',
                'filter': [1, 5, 0, 1, 10, 23, 1, False]}),
    ('period', {'src': [12, 1, 0, 1, 31, 23, 1, False], 'path': 'cont', 'fkind': 'inside',
                'filter': [12, 5, 0, 12, 10, 23, 1, False]}),
    ('period', {'src': [12, 1, 0, 1, 31, 23, 2, True], 'path': 'cont', 'fkind': 'window',
                'filter': [12, 30, 22, 1, 3, 5, 2, True]}),
    ('period', {'src': [12, 1, 0, 1, 31, 23, 1, False], 'path': 'cont', 'fkind': 'clip-both',
                'filter': [11, 1, 0, 2, 28, 23, 1, False]}),
    ('moys', {'src': [12, 1, 0, 1, 31, 23, 1, False], 'path': 'both', 'req': [480960]}),
    ('moys', {'src': [12, 1, 0, 1, 31, 23, 1, False], 'path': 'both', 'req': [0, 60, 525540]}),
    ('moys', {'src': [12, 30, 0, 1, 2, 23, 4, True], 'path': 'both', 'req': [0, 15, 527025, 524160]}),
    ('hoys', {'src': [12, 30, 0, 1, 2, 23, 4, True], 'path': 'both', 'req': [0, 15, 527025, 524160]}),
    ('hoys', {'src': [3, 1, 0, 3, 31, 23, 2, False], 'path': 'both', 'req': [84960, 84990], 'foreign': [84930, 129600]}),
    ('hoys', {'src': [1, 1, 0, 1, 1, 23, 30, True], 'path': 'both', 'req': [246, 490, 492, 0]}),
    ('hoys', {'src': [1, 1, 0, 1, 1, 23, 60, False], 'path': 'both', 'req': [123, 245, 247, 1439]}),
    ('period', {'src': [1, 1, 0, 12, 31, 23, 1, False], 'path': 'cont', 'fkind': 'straddle',
                'filter': [12, 31, 0, 1, 1, 23, 1, False]}),
    # repaired C02-disc-period-order: a wrapping filter on the search path answers in the period's order
    ('period', {'src': [1, 1, 0, 12, 31, 23, 1, False], 'path': 'disc', 'fkind': 'straddle',
                'filter': [12, 31, 0, 1, 1, 23, 1, False]}),
    ('period', {'src': [3, 1, 0, 3, 31, 23, 2, False], 'path': 'cont', 'fkind': 'clip-end',
                'filter': [3, 30, 0, 4, 2, 23, 2, False]}),
    ('period', {'src': [2, 27, 0, 3, 2, 23, 6, True], 'path': 'cont', 'fkind': 'single',
                'filter': [2, 29, 0, 2, 29, 23, 6, True]}),
]


def _oracle_cases(ctx):
    rng = ctx.rng
    for c in CORPUS:
        yield c
    big = ctx.searching or not ctx.quick
    srcs = _sources(ctx, rng, oracle=True)
    if ctx.searching and ctx.quick:
        srcs = srcs + [(_gen_source(rng, k, True), k) for k in ['partial', 'wrapping'] * 30]
    for c, kind in srcs:
        nvals = _ndays_of(c) * 24 * c[6]
        if nvals > (20000 if not big else 60000):
            continue
        kinds = [k for k in PERIOD_KINDS if k not in ('outside', 'two-piece', 'mismatch')]
        if kind == 'annual':
            kinds += ['wrap-long', 'straddle']
        for _ in range(ctx.n(4, 8) if nvals > 5000 else ctx.n(8, 12)):
            fk = rng.choice(kinds)
            f = _gen_filter(rng, c, fk)
            if _fsteps(f) > 40000 and not (f[2] == 0 and f[5] == 23):
                continue
            yield 'period', {'src': list(c), 'path': 'cont', 'fkind': fk, 'filter': list(f)}
            if nvals <= 1500 and _fsteps(f) <= 20000 and rng.random() < 0.5:
                yield 'period', {'src': list(c), 'path': 'disc', 'fkind': fk, 'filter': list(f)}
        smoys = _ref_moys(c)
        for _ in range(4):
            k = rng.choice([1, 2, 5, 20])
            req = rng.sample(smoys, min(k, len(smoys)))
            if rng.random() < 0.4:
                req = list(OrderedDict.fromkeys([smoys[0], smoys[-1], smoys[len(smoys) // 2]] + req))
            path = 'both' if nvals <= 1500 else 'cont'
            yield 'moys', {'src': list(c), 'path': path, 'req': req}
            if rng.random() < 0.5:
                req = list(OrderedDict.fromkeys(req + _truncation_sensitive(smoys, rng)))
                sset = set(smoys)
                nm = _nmin(c[7])
                step = 60 // c[6]
                cand = [smoys[-1] + step, smoys[0] - step, -60, nm, rng.randrange(nm) // step * step]
                foreign = [m for m in cand if m not in sset][:rng.choice([0, 1, 2])]
                yield 'hoys', {'src': list(c), 'path': path, 'req': req, 'foreign': foreign}
        if nvals <= 2500:
            vals = [rng.randrange(-20, 21) for _ in range(nvals)]
            yield 'values', {'src': list(c), 'cls': 'cont', 'keys': [], 'vals': vals, 'kind': 'pattern',
                             'pattern': [rng.random() < 0.5 for _ in range(rng.choice([1, 2, 3, 24, nvals, nvals + 2]))]}
            yield 'values', {'src': list(c), 'cls': 'cont', 'keys': [], 'vals': vals, 'kind': 'range',
                             'lo': rng.choice([None, -5, 0]), 'hi': rng.choice([None, 5, 12])}
            yield 'values', {'src': list(c), 'cls': 'cont', 'keys': [], 'vals': vals, 'kind': 'stmt',
                             'stmt': [rng.randrange(4), rng.randrange(-20, 20), rng.randrange(1, 6), rng.randrange(0, 3)]}
    for _ in range(70 if not big else 250):
        kc = _keyed_case(rng)
        leap, hdr, doys, months = kc['leap'], kc['hdr'], kc['doys'], kc['months']
        keys = [list(k) for k in kc['keys']]
        vals = [rng.randrange(-20, 21) for _ in doys]
        yield 'keys', {'src': list(hdr), 'cls': 'daily', 'by': 'keys', 'keys': doys, 'req': kc['dreq']}
        if kc['dfilt'][7] == leap:
            yield 'keys', {'src': list(hdr), 'cls': 'daily', 'by': 'period', 'keys': doys, 'filter': list(kc['dfilt'])}
        yield 'keys', {'src': list(hdr), 'cls': 'monthly', 'by': 'keys', 'keys': months, 'req': kc['mreq']}
        yield 'keys', {'src': list(hdr), 'cls': 'monthly', 'by': 'period', 'keys': months, 'filter': list(kc['mfilt'])}
        yield 'keys', {'src': list(hdr), 'cls': 'mph', 'by': 'keys', 'keys': keys, 'req': [list(k) for k in kc['preq']]}
        yield 'keys', {'src': list(hdr), 'cls': 'mph', 'by': 'period', 'keys': keys, 'filter': list(kc['pfilt'])}
        yield 'values', {'src': list(hdr), 'cls': 'daily', 'keys': doys, 'vals': vals, 'kind': 'pattern',
                         'pattern': [rng.random() < 0.5 for _ in range(rng.choice([1, 2, 3, len(doys)]))]}
        yield 'values', {'src': list(hdr), 'cls': 'daily', 'keys': doys, 'vals': vals, 'kind': 'range',
                         'lo': rng.choice([None, -5, 0]), 'hi': rng.choice([None, 5, 12])}
        dm = sorted(rng.sample(_ref_moys(hdr)[:500], min(20, len(_ref_moys(hdr)[:500]))))
        dv = [rng.randrange(-20, 21) for _ in dm]
        yield 'values', {'src': list(hdr), 'cls': 'disc', 'keys': dm, 'vals': dv, 'kind': 'stmt',
                         'stmt': [rng.randrange(4), rng.randrange(-20, 20), rng.randrange(1, 6), rng.randrange(0, 3)]}
        yield 'values', {'src': list(hdr), 'cls': 'disc', 'keys': dm, 'vals': dv, 'kind': 'pattern',
                         'pattern': [rng.random() < 0.5 for _ in range(rng.choice([1, 2, 5, len(dm) + 1]))]}


def oracle(ctx):
    def counted():
        for op, inp in _oracle_cases(ctx):
            ctx.count('oracle_%s:%s' % (op, inp.get('fkind') or inp.get('kind') or inp.get('cls') or inp.get('path')))
            yield op, inp
    run_oracle_cases(ctx, counted(), check_case)
    _CACHE.clear()
