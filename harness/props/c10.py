"""C10 — Sky models return physical irradiance and the components add up.

Model: lean/Ladybug/Model/Sky.lean (generic numeric interface; Float instance run by drv_c10);
theorems: lean/Ladybug/Props/C10.lean (real instance); tables: Gen/SkyTables (translator).
Tie: translator (Gen/SkyFormulas: every formula / branch test / per-step expression of skymodel.py, wea.py,
designday.py translated statement by statement, proved equal to the model in Proofs/C10Gen, C10_gen_eq_*;
Gen/SkyTables: constant tables, signature defaults) + correspondence on the ops below (which also covers the
hand-modelled glue: loops, None, string dispatch, table look-ups, Vector3D.angle).
Numeric property, partial by nature: closeness of different approximations (air-mass models,
extraterrestrial range, finiteness, DIRINT / illuminance sign) are SAMPLED sub-claims evaluated on
the real code (ctx.subclaim), never counted as theorems.

Round 3 (histories / failure paths / process order / rare classes):
  * object state machines Model/SkyObj (Wea; ASHRAEClearSky / ASHRAETau held by a DesignDay): state = the
    public state the user has established, no hidden slot; driver ops `hwea` / `hsky` run a whole history;
    generated histories on ONE object (reads in any order and repeated, every setter incl. in-place edits of the
    Location and of the irradiance collections, refused operations in between, failing reads) are compared
    step by step with the machine (correspondence) and, in the oracle, with (i) the clauses of the statement
    evaluated on a shadow of the public state with independently dated sun positions and (ii) a FRESH object
    constructed from that shadow.  Theorems: C10_history_refines_fresh, C10_refused_preserves, C10_read_pure,
    C10_history_closure, C10_history_up_surface, C10_sky_* (Props/C10, helper lemmas Proofs/C10Hist).
  * process order: a slice of the oracle stream is evaluated in 3-4 fresh Python processes, each in another
    order (rare classes first / last / shuffled with repeats); a failure that needs earlier calls is reported as
    op `order` ({"order": [...]}, replayed in a fresh process); in-process failures are re-verified in a fresh
    process before they are reported (`_verify_failures`).
  * rare classes as strata: day 366 / 365 / 1 / 60 / fractional days, leap-year Weas incl. 29 Feb and 31 Dec,
    year-wrapping periods, all 12 valid timesteps, single-step and sub-day Weas (explicit datetimes), sun-up
    filtered Weas, immutable collections, zeros for every optional numeric argument, key-collision variants
    (`_collide`), southern / polar locations, Wea.from_zhang_huang_solar (consumer of the split).
The consumer table of every modelled producer is in the header of the history section below.

Round 4 (input shapes / aliasing / sibling classes / conventions between modules / numeric edges / rare branches):
  * `shapes` (oracle) + `cs_shape` / `rcs_shape` (correspondence): ashrae_clear_sky, ashrae_revised_clear_sky,
    zhang_huang_solar_split and dirint get every sequence argument as list, tuple, deque, array, list subclass
    (must give the list's answer) and as generator / iter / map / reversed / filter (the list's answer or a
    TypeError), all arguments or ONE argument at a time; element i must be the answer for altitude i alone; the
    returned lists are objects of their own, survive a later call, can be edited without changing the next
    answer; arguments are left alone.  List-level model Model/SkyList + theorems C10_clear_sky_list_* (Props/C10).
  * `sky_forms`: both sky classes through every constructor form (direct, from_dict, base-class from_dict, JSON,
    from_analysis_period of a STRING-built period, duplicate, inside a DesignDay built directly / from_dict /
    from_design_day_properties / from_idf / duplicate), all timesteps: statement clauses at independently dated
    altitudes, equality with the directly built sibling, the three returned lists separate objects, edits of
    returned lists / collections do not leak.
  * `wea_forms`: a Wea built directly, with a string-built period, string-valued Location, tuple values,
    to_dict/from_dict (+JSON), duplicate, the four filters of a wider Wea, unsorted + duplicated explicit
    datetimes; magnitudes 1e-12 .. 1e+15: closure, direct horizontal, upward surface, total, facing surface.
  * `wea_zh`: Wea.from_zhang_huang_solar on VARYING weather (pressure given / None, first three hours wrap to the
    end of the data) against the split called on arguments assembled here; `wea_constructor` now compares sampled
    steps of the two clear-sky constructors with the stand-alone models (distinct optical depths per month).
  * history ops `twin` (a second object of the same class between the reads) and `scribble` (in-place edit of
    what an earlier read returned), period kind `unsorted`, magnitudes; integer altitudes everywhere;
    `branch:*` counters for every branch listed in the header of the round-4 section.

Round 6 (a bound put on ONE of several quantities linked by a relation of the statement, the partner left alone):
  class: floor / ceiling / clamp added to (or removed from, or moved on) a DERIVED output - diffuse = global -
  direct*sin(alt) in zhang_huang_solar_split and its consumer Wea.from_zhang_huang_solar, global / direct horizontal
  / reflected / total in the Wea, DISC's Kn, the clearness indices, the capped air mass - visible only in the
  region where the unbounded value CROSSES the bound.  Added: generator `gen_bound_rows` (thin air 30..65 kPa,
  jumping weather, low to middle sun; gen_pressure reaches 30 kPa); the Lean model (not the code) decides which
  candidates lie in the region (`_zh_bound_active`, `_wea_zh_active`), all of those are kept: counters
  `bound:zh_split:dhi<0`, `bound:zh_split_corr:*`, `bound:wea_zhang_huang:dhi<0`; `closure_zh` asks BOTH variants of
  the split on every such series; `wea_zh` now carries the statement itself (dni >= 0, dhi + dni*sin(alt) =
  zhang_huang_solar at altitudes dated here) next to the sibling comparison, on a thin-air stratum; Weas holding
  negative diffuse values (what the split returns there) through closure / upward surface / total = sum;
  `bound:*` counters for every clamp of the DISC / DIRINT chain (kt > 1, sin(alt) < min_sin, air mass > max, Kn < 0,
  kt' above its maximum), decided from the numbers.  Lean: C10_bound_on_one_summand (a floor / ceiling on one
  summand keeps x + y = g iff the bound is inactive, else off by the clipped amount), C10_zh_split_dhi_floor (model:
  dhi < 0 iff dni*sin(alt) > ghi; flooring dhi alone keeps closure iff dhi >= 0), C10_rebalanced_floor.
"""
import json
import math
import struct

from harness import core
from harness.core import err_name, run_oracle_cases

PROP = 'C10'
PROOF_MODULES = ['Ladybug.Props.C10', 'Ladybug.Proofs.C10Gen']
GREP_MODULES = ['Ladybug.Transc', 'Ladybug.RealInst', 'Ladybug.Model.Sky', 'Ladybug.Model.SkyObj',
                'Ladybug.Model.SkyList', 'Ladybug.Proofs.C10List',
                'Ladybug.Gen.SkyTables', 'Ladybug.Gen.SkyFormulas',
                'Ladybug.Proofs.C10Lemmas', 'Ladybug.Proofs.C10Dirint', 'Ladybug.Proofs.C10Pinned',
                'Ladybug.Proofs.C10Hist',
                'Ladybug.Drv.C10', 'Ladybug.DrvCore', 'Ladybug.Py']
RULE = ('correspondence: every skymodel.py function and the per-timestep Wea / design-day formulas on '
        'boundary-biased altitudes (-90..90 incl. 0, +-1e-9, the DISC/DIRINT thresholds 3, 3.727, the DIRINT '
        'bin edges 10/20/35/50/65, 90), months -1..14, optical depths, cloud cover/humidity/temperature/wind/'
        'pressure ranges, days of year 1..366, the 7 air-mass models (+ upper-case / unknown names), '
        'time series for DIRINT / Zhang-Huang split, real Wea objects (continuous + sun-up filtered, '
        'timestep 1/2/4, leap, both states of enforce_on_hour set AFTER construction, sun positions '
        'taken from the Wea\'s own datetimes) x surface orientations, ~10 % malformed inputs (rejections compared by error '
        'class); floats compared by value: |m - i| <= 1e-12*max(|m|,|i|) + 1e-9; a case is non-trivial when '
        'the implementation returns a value; distinct = distinct (op, request line). Oracle: the clauses of '
        'the statement on the real code (comparisons of floats with 1e-12 relative slack for round-off '
        'only). Histories: one Wea / one sky condition + design day per case, 5-40 operations drawn from reads '
        '(global / direct horizontal, directional incl. a surface facing the shadow sun, illuminance, sun-up '
        'filter, duplicate), setters (location assigned or edited in place, enforce_on_hour, both irradiance '
        'collections replaced / edited in place; date, daylight savings, clearness, tau_b, tau_d, use_2017, '
        'design-day location, sky copy) and refused operations (wrong type, misaligned or wrongly typed data, '
        'clearness outside 0..1.2, setters of the other sky model, reads with bad arguments, a read failing '
        'half-way), styles probe (all observables after every step) / read-set-read / refused-first / sparse; '
        'every read is compared with the model state machine, with the statement on the shadow state and with a '
        'fresh object; a slice of the oracle stream is re-run in fresh processes in 3-4 different orders.')
TRUSTED_BASE = [
    'translator tools/extract/sky_formulas.py + pyexpr2lean.py: that the emitted Lean definition denotes the Python '
    'statements it was made from (straight-line numeric code; each definition is also executed through the model '
    'it is proved equal to and compared with the real function)',
    'translator tools/extract/sky_tables.py: copies MONTHLY_A/B, the Zhang-Huang constants, the Perez '
    'luminous-efficacy tables, the 6x6x7x5 DIRINT matrix, signature defaults and air-mass model names',
    'hand-modelled glue around the generated pieces (loops, try/except OverflowError, None, model.lower(), '
    '`dhi == 0` / `== -1`, table look-ups, raised errors, Vector3D.angle): correspondence only',
    'IEEE-754 / libm evaluation vs the real-number semantics of the theorems is not proved; Float model and '
    'Python agree within 1e-12 relative on the generated inputs',
    'sun positions (Sunpath, property C05) and dew points (psychrometrics, property C09) are inputs of the '
    'modelled formulas, taken from the real code',
    'ladybug_geometry Vector3D.angle/magnitude modelled (acos(dot/(|a||b|)) with the round-off fallback)',
    'history layer: the shadow of the public state and the classification of an operation as accepted/refused '
    'follow the real outcome of each call (an accepted setter updates the shadow, a raised one does not); sun '
    'positions of the shadow come from a Sunpath of a fresh Location (property C05); DateTime.from_moy / '
    'AnalysisPeriod date the time steps (properties C08/C04)',
    'sampled sub-claims (air-mass agreement/monotonicity/zenith value, extraterrestrial range, finiteness, '
    'DIRINT and illuminance sign, tau-model monotonicity) are tests on the real code, not theorems',
]
ASSUMPTIONS = ['altitudes in degrees within [-90, 90]; clearness in [0, 1.2]; months 1..12 for the theorems',
               'real arithmetic (no overflow/round-off) in the theorems']

AM_MODELS = ['kastenyoung1989', 'kasten1966', 'simple', 'pickering2002', 'youngirvine1967',
             'young1994', 'gueymard1993']
RTOL = 1e-12
ATOL = 1e-9


def extract(ctx):
    from tools.extract import sky_tables, sky_formulas
    ctx.tables = sky_tables.extract()
    ctx.formulas = sky_formulas.extract()
    ctx.notes.append('translated from source this run: %d definitions (%s ...); hand-modelled glue: %s'
                     % (len(ctx.formulas['translated']), ', '.join(ctx.formulas['translated'][:6]),
                        ' | '.join(ctx.formulas['hand_modelled'])))


# ---------------------------------------------------------------------------------------------
# protocol helpers


def fb(x):
    return '%016x' % struct.unpack('<Q', struct.pack('<d', float(x)))[0]


def ofb(x):
    return 'none' if x is None else fb(x)


def unb(tok):
    if tok == 'none':
        return None
    return struct.unpack('<d', struct.pack('<Q', int(tok, 16)))[0]


def _b(x):
    return '1' if x else '0'


def close(a, b, rtol=RTOL, atol=ATOL):
    if a is None or b is None:
        return a is None and b is None
    if isinstance(a, complex) or isinstance(b, complex):
        return False
    if math.isnan(a) or math.isnan(b):
        return math.isnan(a) and math.isnan(b)
    if math.isinf(a) or math.isinf(b):
        return a == b
    return abs(a - b) <= rtol * max(abs(a), abs(b)) + atol


def _flat(v):
    if isinstance(v, (list, tuple)):
        out = []
        for x in v:
            out += _flat(x)
        return out
    return [v]


def cmp_batch(ctx, op, cases, line_fn, impl_fn, atol=ATOL):
    """Model vs implementation on `cases`; impl_fn(case) -> (possibly nested) numbers/None, or raises."""
    if not cases:
        return
    lines = [line_fn(c) for c in cases]
    outs = ctx.driver().run(lines)
    for c, line, mo in zip(cases, lines, outs):
        try:
            iv = [None if x is None else x for x in _flat(impl_fn(c))]
            ierr = None
        except Exception as e:
            iv, ierr = None, 'err:' + err_name(e)
        ctx.compared += 1
        ctx.count('op:' + op)
        ctx.case((op, line), nontrivial=ierr is None)
        if ierr is not None:
            ctx.count('err_results')
            if mo != ierr:
                ctx.disagree(op, {'case': c, 'line': line}, mo, ierr)
            continue
        ok = mo.startswith('ok')
        if ok:
            try:
                mv = [unb(t) for t in mo.split()[1:]]
            except ValueError:
                ok = False
        if ok:
            try:
                ivf = [None if x is None else (x if isinstance(x, complex) else float(x)) for x in iv]
            except (TypeError, ValueError):
                ok = False
        ok = ok and len(mv) == len(ivf) and all(close(m, i, RTOL, atol) for m, i in zip(mv, ivf))
        if not ok:
            ctx.disagree(op, {'case': c, 'line': line}, mo, 'ok ' + ' '.join(repr(x) for x in iv))
    ctx.sample({'op': op, 'request': lines[0], 'model': outs[0]})


# ---------------------------------------------------------------------------------------------
# generators (plain numbers only; nothing is produced by the code under test)

ALT_INTS = [-1, 0, 1, 3, 4, 10, 45, 90]

ALT_EDGES = [-90.0, -45.0, -3.0, -1e-9, -0.0, 0.0, 1e-300, 1e-9, 0.005, 0.0114, 0.02, 0.5, 1.0, 2.9999,
             3.0, 3.0001, 3.7, 3.727, 3.8, 5.0, 9.9999, 10.0, 10.0001, 20.0, 20.0001, 35.0, 35.0001, 50.0,
             50.0001, 65.0, 65.0001, 89.0, 89.99, 90.0]


def gen_alt(rng, up=None):
    r = rng.random()
    if up is True:
        if r < 0.3:
            return rng.choice([a for a in ALT_EDGES if a > 0])
        if r < 0.5:
            return rng.uniform(1e-6, 6.0)
        return rng.uniform(0.001, 90.0)
    if up is False:
        return rng.choice([a for a in ALT_EDGES if a <= 0] + [-rng.uniform(0, 90)])
    if r < 0.3:
        return rng.choice(ALT_EDGES)
    if r < 0.45:
        return rng.uniform(-2.0, 6.0)
    return rng.uniform(-90.0, 90.0)


def gen_pressure(rng):
    return rng.choice([101325.0, 101325, rng.uniform(55000, 108000), 80000.0, rng.uniform(30000, 65000)])


def gen_weather(rng):
    """(cloud cover 0..10, rh 1..100, T, T-3h, wind)"""
    cc = rng.choice([0, 10, 5, rng.uniform(0, 10), rng.randrange(0, 11)])
    rh = rng.choice([100, 1, rng.uniform(1, 100)])
    t = rng.uniform(-35, 45)
    t3 = t + rng.uniform(-8, 8)
    ws = rng.choice([0, rng.uniform(0, 25)])
    return cc, rh, t, t3, ws


def gen_day_series(rng, n=None):
    """A plausible day: altitudes along an arc (some below the horizon), GHI from a crude clear-sky
    guess times a cloud factor, one doy, pressures, dew points."""
    n = n or rng.choice([1, 2, 3, 8, 24, 24, 30])
    peak = rng.uniform(5, 90)
    low = rng.uniform(-60, 2)
    doy = rng.randrange(1, 367)
    alts, ghi, pres, dew = [], [], [], []
    p0 = gen_pressure(rng)
    for i in range(n):
        x = math.sin(math.pi * (i + 0.5) / n)
        a = low + (peak - low) * x
        if rng.random() < 0.15:
            a = rng.choice(ALT_EDGES)
        alts.append(a)
        g = max(0.0, 1100 * math.sin(math.radians(max(a, 0))) * rng.choice([1, 1, rng.random(), 0.1, 0]))
        if rng.random() < 0.05:
            g = rng.choice([0, -5.0, 1500.0])
        ghi.append(g)
        pres.append(p0 if rng.random() < 0.8 else gen_pressure(rng))
        dew.append(rng.uniform(-30, 28))
    return alts, ghi, [doy] * n, pres, dew


def gen_bound_rows(rng, n=None):
    """Rows (alt, doy, cc, rh, T, T-3h, wind, pressure) of a Zhang-Huang series aimed at the region where a
    DERIVED quantity of the DISC / DIRINT chain crosses one of its bounds (round 6): thin air (30..65 kPa, the
    stations above ~4000 m), a sky that changes a lot from one step to the next (cloud cover / temperature jumps:
    high stability index), low to middle sun.  There the Perez coefficient is large, DNI*sin(alt) exceeds the
    Zhang-Huang global value and diffuse = global - direct horizontal is NEGATIVE; at very low sun / small global
    values DISC's Kn is negative (clamped), the clearness indices sit on their bounds 0 / 1 and the air mass on 12."""
    n = n or rng.choice([1, 2, 3, 3, 4, 6, 8])
    p = rng.choice([rng.uniform(30000, 65000), rng.uniform(30000, 65000), 58000, 30000.0, rng.uniform(30000, 108000)])
    doy = rng.randrange(1, 367)
    rows = []
    for _ in range(n):
        a = rng.choice([rng.uniform(3.0, 90.0), rng.uniform(15.0, 40.0), rng.uniform(15.0, 40.0),
                        rng.choice([3.0001, 3.5, 3.727, 4.0, 5.0, 10.0, 20.0, 20.0001, 35.0, 35.0001, -1.0])])
        cc = rng.choice([0, 0, 1, 2, 5, 8, 10, rng.uniform(0, 10)])
        rh = rng.choice([1, 20, 80, 100, rng.uniform(1, 100)])
        t = rng.uniform(-35, 45)
        t3 = t + rng.choice([0, rng.uniform(-8, 8), -8, 8, 3, -3])
        ws = rng.choice([0, 8, rng.uniform(0, 25)])
        rows.append([a, doy, cc, rh, t, t3, ws, p if rng.random() < 0.9 else rng.uniform(30000, 108000)])
    return rows


def gen_locations(rng):
    out = [(0.0, 0.0, 0), (40.7, -74.0, -5), (-33.9, 151.2, 10), (64.1, -21.9, 0), (78.2, 15.6, 1),
           (-77.8, 166.7, 12), (23.44, 100.0, 7)]
    out.append((rng.uniform(-89, 89), rng.uniform(-179, 179), 0))
    lat, lon = rng.uniform(-66, 66), rng.uniform(-179, 179)
    out.append((lat, lon, int(round(lon / 15.0))))
    return out


def _mk_location(lat, lon, tz):
    from ladybug.location import Location
    return Location('c10', latitude=lat, longitude=lon, time_zone=tz)


def _mk_wea(lat, lon, tz, month, day, ndays, timestep, leap, dnr, dhr):
    """A continuous Wea over `ndays` whole days starting (month, day); values given as lists."""
    from ladybug.wea import Wea
    from ladybug.analysisperiod import AnalysisPeriod
    from ladybug.datacollection import HourlyContinuousCollection
    from ladybug.header import Header
    from ladybug.dt import Date
    from ladybug.datatype.energyflux import DirectNormalIrradiance, DiffuseHorizontalIrradiance
    st = Date(month, day, leap)
    end = Date.from_doy(st.doy + ndays - 1, leap)
    ap = AnalysisPeriod(st.month, st.day, 0, end.month, end.day, 23, timestep, leap)
    n = len(ap)
    dn = HourlyContinuousCollection(Header(DirectNormalIrradiance(), 'W/m2', ap), list(dnr[:n]))
    dh = HourlyContinuousCollection(Header(DiffuseHorizontalIrradiance(), 'W/m2', ap), list(dhr[:n]))
    return Wea(_mk_location(lat, lon, tz), dn, dh)


def _wea_spec(rng, big=False):
    lat, lon, tz = rng.choice(gen_locations(rng))
    leap = rng.random() < 0.3
    month = rng.randrange(1, 13)
    day = rng.randrange(1, 27)
    ndays = rng.choice([1, 2]) if not big else rng.choice([2, 5])
    ts = rng.choice([1, 1, 1, 2, 4])
    n = ndays * 24 * ts
    dnr = [rng.choice([0.0, rng.uniform(0, 1000), rng.uniform(0, 1000)]) for _ in range(n)]
    dhr = [rng.choice([0.0, rng.uniform(0, 500), rng.uniform(0, 500)]) for _ in range(n)]
    return {'lat': lat, 'lon': lon, 'tz': tz, 'month': month, 'day': day, 'ndays': ndays, 'timestep': ts,
            'leap': leap, 'dnr': dnr, 'dhr': dhr, 'sun_up_only': rng.random() < 0.25,
            # second step of the sequence build -> set flag -> evaluate (only matters for timestep 1)
            'enforce_on_hour': rng.random() < 0.5}


def _build_wea(spec):
    w = _mk_wea(spec['lat'], spec['lon'], spec['tz'], spec['month'], spec['day'], spec['ndays'],
                spec['timestep'], spec['leap'], spec['dnr'], spec['dhr'])
    if spec.get('sun_up_only'):
        try:                              # polar night: an empty selection is rejected by the collections
            w2 = w.filter_by_sun_up()
            if len(w2) > 0:
                w = w2
        except AssertionError:
            pass
    if spec.get('enforce_on_hour'):       # two-step sequence: build, THEN set the flag, then evaluate
        w.enforce_on_hour = True
    return w


def _corpus_wea(lat, lon, tz, month, day, timestep, leap, enforce):
    """Deterministic one-day Wea spec for the fixed corpus."""
    n = 24 * timestep
    return {'lat': lat, 'lon': lon, 'tz': tz, 'month': month, 'day': day, 'ndays': 1, 'timestep': timestep,
            'leap': leap, 'dnr': [800.0 + 3.0 * i for i in range(n)], 'dhr': [100.0 + 1.0 * i for i in range(n)],
            'sun_up_only': False, 'enforce_on_hour': enforce}


def _suns(wea):
    """(altitude, azimuth) per Wea datetime, computed the way wea.py does (Sunpath is property C05)."""
    from ladybug.sunpath import Sunpath
    sp = Sunpath.from_location(wea.location)
    sp.is_leap_year = wea.is_leap_year
    out = []
    for dt in wea.datetimes:
        s = sp.calculate_sun_from_date_time(dt)
        out.append((s.altitude, s.azimuth))
    return out


def _collide(rng, cases, frac=0.12):
    """Key-collision stratum: for a fraction of the cases add the same question again, the same question with ONE
    numeric argument moved a little (+0.3, truncated to int, the int as float) and with one argument swapped with
    another case's -- a memo keyed by a rounded / truncated / partial key then answers one of them wrongly, and
    every answer is compared with the model, which is a pure function of the arguments."""
    out = []
    for c in cases:
        out.append(c)
        if rng.random() >= frac:
            continue
        num = [i for i, x in enumerate(c) if isinstance(x, (int, float)) and not isinstance(x, bool)]
        if not num:
            continue
        i = rng.choice(num)
        for v in (c[i] + 0.3, float(int(c[i])), int(c[i])):
            out.append(tuple(c[:i]) + (v,) + tuple(c[i + 1:]))
        j = rng.choice(num)
        other = rng.choice(cases)
        if isinstance(other[j], (int, float)) and not isinstance(other[j], bool):
            out.append(tuple(c[:j]) + (other[j],) + tuple(c[j + 1:]))
        out.append(c)
    return out


def _zh_bound_active(ctx, cases):
    """For Zhang-Huang split cases (use_disc, rows of 9 numbers incl. dew point): does the MODEL (Lean driver, not
    the code under test) put a NEGATIVE diffuse value on some step - i.e. is the case in the region where a floor
    on the derived output would be active?  None per case when the driver cannot be asked."""
    try:
        lines = ['zhsplit %s %d %s' % (_b(c[0]), len(c[1]), ' '.join(fb(x) for r in c[1] for x in r)) for c in cases]
        outs = ctx.driver().run(lines)
        res = []
        for o in outs:
            if not o.startswith('ok'):
                res.append(None)
                continue
            v = [unb(t) for t in o.split()[1:]]
            res.append(any(x is not None and x < 0 for x in v[1::2]))
        return res
    except Exception:
        return [None] * len(cases)


# ---------------------------------------------------------------------------------------------
# correspondence


def correspondence(ctx):
    from ladybug import skymodel as sm
    rng = ctx.rng

    def N(quick, thorough):            # case counts per tier (quick scaled to ~20 s)
        return ctx.n(quick * 4, thorough)

    # --- relative air mass: 7 models x altitudes (+ name case, unknown names)
    cases = []
    for m in AM_MODELS:
        for a in ALT_EDGES + [rng.uniform(0, 90) for _ in range(N(150, 3000))] + \
                [rng.uniform(0, 5) for _ in range(N(40, 800))]:
            cases.append((m, a))
        cases.append((m.upper(), rng.uniform(0, 90)))
        cases.append((m.capitalize(), rng.uniform(-10, 0)))
    cases += [('foo', 10.0), ('foo', -1.0), ('kasten', 45.0)]
    cases += [(m, a) for m in AM_MODELS for a in ALT_INTS]          # altitudes given as Python ints
    for c in cases:
        _count_branches(ctx, 'relam', c)
    cmp_batch(ctx, 'relam', cases, lambda c: 'relam %s %s' % (c[0], fb(c[1])),
              lambda c: sm.get_relative_airmass(c[1], c[0]))
    for m, a in cases:
        ctx.count('airmass_model:' + m.lower())

    cases = [(rng.choice([None, rng.uniform(0.9, 40)]), gen_pressure(rng)) for _ in range(N(200, 4000))]
    for c in cases:
        _count_branches(ctx, 'absam', c)
    cmp_batch(ctx, 'absam', cases, lambda c: 'absam %s %s' % (ofb(c[0]), fb(c[1])),
              lambda c: sm.get_absolute_airmass(c[0], c[1]))

    cases = [(d, sc) for d in range(1, 367) for sc in (1366.1, 1370.0, 1355)]
    cases += [(366, 1366.1), (366.0, 1366.1), (1, 0), (0, 1366.1), (365.5, 1366.1), (-1, 1366.1), (367, 1366.1)]
    cases = _collide(rng, cases, 0.05)
    cmp_batch(ctx, 'extra', cases, lambda c: 'extra %s %s' % (fb(c[0]), fb(c[1])),
              lambda c: sm.get_extra_radiation(c[0], c[1]))

    cases = []
    for _ in range(N(400, 8000)):
        cases.append((rng.choice([0.0, -10.0, rng.uniform(0, 1400)]), gen_alt(rng), rng.uniform(1300, 1420),
                      rng.choice([0.065, 0.065, 0.1]), rng.choice([1, 2.0, 0.82])))
    cases = _collide(rng, cases)
    # exact pole (min_sin_altitude 0 with the sun at/below the horizon): Python raises ZeroDivisionError where
    # IEEE arithmetic gives inf that the clamp squashes; singular inputs are outside the numeric comparison
    sing = [c for c in cases if max(math.sin(math.radians(c[1])), c[3]) * c[2] == 0]
    ctx.count('kt_singular_skipped', len(sing))
    cases = [c for c in cases if c not in sing]
    cmp_batch(ctx, 'kt', cases, lambda c: 'kt ' + ' '.join(fb(x) for x in c),
              lambda c: sm.clearness_index(*c))

    cases = []
    for _ in range(N(400, 8000)):
        cases.append((rng.choice([0.0, 1.0, rng.uniform(0, 2)]), rng.choice([None, rng.uniform(0.5, 40)]),
                      rng.choice([1, 2.0, 0.82])))
    cases.append((0.5, 0.0, 1))          # ZeroDivisionError
    for c in cases:
        _count_branches(ctx, 'ktp', c)
    cmp_batch(ctx, 'ktp', cases, lambda c: 'ktp %s %s %s' % (fb(c[0]), ofb(c[1]), fb(c[2])),
              lambda c: sm.clearness_index_zenith_independent(*c))

    cases = []
    for _ in range(N(400, 8000)):
        cases.append((rng.choice([0.0, 0.6, 0.6000001, 1.0, rng.random()]), rng.uniform(0.5, 40),
                      rng.choice([12, 12, 20.0])))
    cmp_batch(ctx, 'disckn', cases, lambda c: 'disckn ' + ' '.join(fb(x) for x in c),
              lambda c: sm._disc_kn(*c))

    # --- DISC
    cases = []
    for _ in range(N(1200, 25000)):
        alt = gen_alt(rng)
        ghi = rng.choice([0.0, -5.0, rng.uniform(0, 1400), 1100 * math.sin(math.radians(max(alt, 0))) *
                          rng.random()])
        p = rng.choice([None, gen_pressure(rng), gen_pressure(rng)])
        cases.append((ghi, alt, rng.choice([rng.randrange(1, 367), rng.randrange(1, 367), 366, 365, 1, 60]),
                      p, rng.choice([0.065, 0.065, 0.1, 0]),
                      rng.choice([3, 3, 0, 5.5, -5]), rng.choice([12, 12, 20])))
        ctx.count('disc_doy:%s' % ('366' if cases[-1][2] == 366 else 'other'))
    cases = _collide(rng, [c for c in cases if c[3] is not None], 0.08) + [c for c in cases if c[3] is None]
    # exact pole of the clearness index (min_sin_altitude 0, sun at/below the horizon): see `kt`
    sing = [c for c in cases if max(math.sin(math.radians(c[1])), c[4]) <= 0]
    ctx.count('disc_singular_skipped', len(sing))
    cases = [c for c in cases if c not in sing]
    cases += [(rng.uniform(50, 900), a, rng.randrange(1, 367), 101325, 0.065, 3, 12) for a in ALT_INTS]
    for c in cases:
        _count_branches(ctx, 'disc', c)
    cmp_batch(ctx, 'disc', cases,
              lambda c: 'disc %s %s %s %s %s %s %s' % (fb(c[0]), fb(c[1]), fb(c[2]), ofb(c[3]), fb(c[4]),
                                                       fb(c[5]), fb(c[6])),
              lambda c: sm.disc(c[0], c[1], c[2], c[3], c[4], c[5], c[6]))

    # --- DIRINT on day series
    cases = []
    for _ in range(N(250, 5000)):
        alts, ghi, doys, pres, dew = gen_day_series(rng)
        ud = rng.random() < 0.7
        hd = rng.random() < 0.7
        cases.append((ud, hd, rng.choice([0.065, 0.065, 0.1]), rng.choice([3, 3, 0, 6]), ghi, alts, doys, pres,
                      dew if hd else None))
        ctx.count('dirint_len:%s' % ('1' if len(alts) == 1 else '2-8' if len(alts) <= 8 else '9+'))
        _count_branches(ctx, 'dirint', cases[-1])

    def dirint_line(c):
        xs = list(c[4]) + list(c[5]) + list(c[6]) + list(c[7]) + (list(c[8]) if c[1] else [])
        return 'dirint %s %s %s %s %d %s' % (_b(c[0]), _b(c[1]), fb(c[2]), fb(c[3]), len(c[4]),
                                             ' '.join(fb(x) for x in xs))

    cmp_batch(ctx, 'dirint', cases, dirint_line,
              lambda c: sm.dirint(c[4], c[5], c[6], c[7], use_delta_kt_prime=c[0], temp_dew=c[8],
                                  min_sin_altitude=c[2], min_altitude=c[3]))

    # --- clear-sky models
    cases = []
    for month in range(-1, 15):
        for a in ALT_EDGES + [gen_alt(rng) for _ in range(N(15, 300))]:
            cases.append((month, a, rng.choice([1, 1, 0, 0.5, 1.2, rng.uniform(0, 1.2)])))
    cases = [c for c in _collide(rng, cases, 0.05) if isinstance(c[0], int)]
    cases += [(rng.randrange(1, 13), a, rng.choice([1, 1.0])) for a in ALT_INTS]
    for c in cases:
        _count_branches(ctx, 'cs', c)
    cmp_batch(ctx, 'cs', cases, lambda c: 'cs %d %s %s' % (c[0], fb(c[1]), fb(c[2])),
              lambda c: [x[0] for x in sm.ashrae_clear_sky([c[1]], c[0], c[2])])
    cases = []
    for a in ALT_EDGES + [gen_alt(rng) for _ in range(N(400, 8000))]:
        cases.append((a, rng.uniform(0.15, 0.9), rng.uniform(1.3, 3.0), rng.random() < 0.5))
    cases += [(a, 0.4, 2, rng.random() < 0.5) for a in ALT_INTS]
    for c in cases:
        _count_branches(ctx, 'rcs', c)
    cmp_batch(ctx, 'rcs', cases, lambda c: 'rcs %s %s %s %s' % (fb(c[0]), fb(c[1]), fb(c[2]), _b(c[3])),
              lambda c: [x[0] for x in sm.ashrae_revised_clear_sky([c[0]], c[1], c[2], c[3])])

    # --- round 4: the list-taking clear-sky models fed the same numbers in every container shape; every element
    # of the answer is compared with the model's value for that altitude (the model is a function of lists)
    for fn in ('cs', 'rcs'):
        prms, memo, flat = [], {}, []
        for shape in ('list',) + SEQ_SHAPES + ONE_SHOT:
            for _ in range(N(1, 12)):
                prms.append(_gen_shape_params(rng, fn, rng.choice([1, 3, 24])))
                ctx.count('shape_corr:%s:%s' % (fn, shape))
                flat += [(shape, len(prms) - 1, i) for i in range(len(prms[-1]['alts']))]

        def shape_impl(c, fn=fn, prms=prms, memo=memo):
            shape, k, i = c
            if (shape, k) not in memo:
                cols, call = _shape_args(fn, prms[k])
                try:
                    memo[(shape, k)] = _norm_res(fn, call([_shape(shape, cols[0])]))
                except Exception as e:
                    memo[(shape, k)] = e
            r = memo[(shape, k)]
            if isinstance(r, Exception):
                raise r
            return [r[0][i], r[1][i]]

        def shape_line(c, fn=fn, prms=prms):
            q = prms[c[1]]
            if fn == 'cs':
                return 'cs %d %s %s' % (q['month'], fb(q['alts'][c[2]]), fb(q['clearness']))
            return 'rcs %s %s %s %s' % (fb(q['alts'][c[2]]), fb(q['tb']), fb(q['td']), _b(q['use2017']))

        cmp_batch(ctx, fn + '_shape', flat, shape_line, shape_impl)

        # the same calls against the LIST-level model (Model/SkyList: one pass, two lists, first error aborts)
        def list_impl(c, fn=fn, prms=prms, memo=memo):
            r = memo[c]
            if isinstance(r, Exception):
                raise r
            return [r[0], r[1]]

        def list_line(c, fn=fn, prms=prms):
            q = prms[c[1]]
            al = ' '.join(fb(a) for a in q['alts'])
            if fn == 'cs':
                return 'csl %d %s %s' % (q['month'], fb(q['clearness']), al)
            return 'rcsl %s %s %s %s' % (fb(q['tb']), fb(q['td']), _b(q['use2017']), al)

        cmp_batch(ctx, fn + 'l', sorted(memo, key=lambda c: (c[1], c[0])), list_line, list_impl)

    # --- Zhang-Huang
    cases = []
    for _ in range(N(800, 16000)):
        cc, rh, t, t3, ws = gen_weather(rng)
        cases.append((gen_alt(rng), cc, rh, t, t3, ws, rng.choice([1355, 1355, rng.uniform(1300, 1420)])))
    cases = _collide(rng, cases)
    cases += [(a, 3, 50, 20, 18, 2, 1355) for a in ALT_INTS]
    for c in cases:
        _count_branches(ctx, 'zh', c)
    cmp_batch(ctx, 'zh', cases, lambda c: 'zh ' + ' '.join(fb(x) for x in c),
              lambda c: sm.zhang_huang_solar(*c))

    from ladybug.psychrometrics import dew_point_from_db_rh
    cases = []
    for _ in range(N(200, 4000)):
        alts, _g, doys, pres, _d = gen_day_series(rng)
        rows = []
        for a, d, p in zip(alts, doys, pres):
            cc, rh, t, t3, ws = gen_weather(rng)
            rows.append((a, d, cc, rh, t, t3, ws, p, dew_point_from_db_rh(t, rh)))
        cases.append((rng.random() < 0.4, rows))
    # round 6: the region where a derived quantity crosses a bound (negative diffuse value, clamped Kn / kt / kt')
    bound_cases = []
    for _ in range(N(260, 3000)):
        rows = [tuple(r) + (dew_point_from_db_rh(r[4], r[3]),) for r in gen_bound_rows(rng)]
        bound_cases.append((rng.random() < 0.3, rows))
    cases += bound_cases

    def zs_line(c):
        return 'zhsplit %s %d %s' % (_b(c[0]), len(c[1]), ' '.join(fb(x) for r in c[1] for x in r))

    def zs_impl(c):
        cols = list(zip(*c[1]))
        dn, dh = sm.zhang_huang_solar_split(list(cols[0]), list(cols[1]), list(cols[2]), list(cols[3]),
                                            list(cols[4]), list(cols[5]), list(cols[6]), list(cols[7]), c[0])
        return [[a, b] for a, b in zip(dn, dh)]

    cmp_batch(ctx, 'zhsplit', cases, zs_line, zs_impl)
    for c, act in zip(cases, _zh_bound_active(ctx, cases)):
        if act is not None:
            ctx.count('bound:zh_split_corr:%s:%s' % ('disc' if c[0] else 'dirint', 'dhi<0' if act else 'dhi>=0'))

    # --- illuminance
    cases = []
    for _ in range(N(1500, 30000)):
        alt = gen_alt(rng, up=True) if rng.random() < 0.85 else gen_alt(rng)
        dhi = rng.choice([0, 0.0, rng.uniform(0.5, 500), rng.uniform(0.5, 500)])
        dni = rng.choice([0, rng.uniform(0, 1000), rng.uniform(0, 1000)])
        r = rng.random()
        if r < 0.05:
            dni = -rng.uniform(1, 100)              # eps < 1: ValueError
        elif r < 0.08:
            dhi = -rng.uniform(1, 100)              # log of a negative delta / eps < 1
        ghi = dhi + dni * math.sin(math.radians(max(alt, 0)))
        cases.append((alt, ghi, dni, dhi, rng.uniform(-40, 30), rng.choice([None, None, rng.uniform(1, 38)])))
    for c in cases:
        _count_branches(ctx, 'illum', c)
    cmp_batch(ctx, 'illum', cases,
              lambda c: 'illum %s %s' % (' '.join(fb(x) for x in c[:5]), ofb(c[5])),
              lambda c: sm.estimate_illuminance_from_irradiance(*c), atol=1e-7)

    # --- infrared / sky temperature
    cases = []
    for _ in range(N(400, 8000)):
        db = rng.uniform(-45, 50)
        cases.append((rng.choice([0, 10, rng.uniform(0, 10), rng.randrange(0, 11)]), db,
                      rng.choice([db, db - rng.uniform(0, 30)])))
    cases += [(5, 20.0, -273.15), (5, 20.0, -300.0)]
    cases = _collide(rng, cases)
    cmp_batch(ctx, 'hir', cases, lambda c: 'hir ' + ' '.join(fb(x) for x in c),
              lambda c: sm.calc_horizontal_infrared(*c))
    cases = [(rng.uniform(40, 700), rng.choice([1, 1, rng.uniform(0.3, 1)])) for _ in range(N(400, 8000))]
    cases += [(300.0, 0), (0.0, 1)]
    cases = _collide(rng, cases)
    cmp_batch(ctx, 'skyt', cases, lambda c: 'skyt %s %s' % (fb(c[0]), fb(c[1])),
              lambda c: sm.calc_sky_temperature(*c))

    # --- Wea: global / direct horizontal / directional irradiance per timestep
    for k in range(N(6, 60)):
        spec = _wea_spec(rng, big=not ctx.quick)
        wea = _build_wea(spec)
        suns = _suns(wea)
        dnr = list(wea.direct_normal_irradiance.values)
        dhr = list(wea.diffuse_horizontal_irradiance.values)
        ctx.count('wea:%s' % ('discontinuous' if not wea.is_continuous else 'continuous'))
        ctx.count('wea_timestep:%d' % wea.timestep)
        ctx.count('wea_enforce_on_hour:%s' % bool(wea.enforce_on_hour))

        def guarded(f):
            try:
                return f(), None
            except Exception as e:          # a changed implementation must give disagreements, not tracebacks
                return None, e

        ghi, e1 = guarded(lambda: list(wea.global_horizontal_irradiance.values))
        dh, e2 = guarded(lambda: list(wea.direct_horizontal_irradiance.values))
        idx = list(range(len(suns)))

        def pick(vals, exc, i):
            if exc is not None:
                raise exc
            return vals[i]

        cmp_batch(ctx, 'ghi', idx, lambda i: 'ghi %s %s %s' % (fb(suns[i][0]), fb(dnr[i]), fb(dhr[i])),
                  lambda i: pick(ghi, e1, i))
        cmp_batch(ctx, 'dirh', idx, lambda i: 'dirh %s %s' % (fb(suns[i][0]), fb(dnr[i])),
                  lambda i: pick(dh, e2, i))
        if wea.is_continuous:
            # Wea.estimate_illuminance_components: per step the Perez model at the Wea's own sun altitude
            from ladybug.datacollection import HourlyContinuousCollection
            from ladybug.header import Header
            from ladybug.datatype.temperature import DewPointTemperature
            dews = [rng.uniform(-30, 28) for _ in idx]
            ill, e4 = guarded(lambda: [list(c.values) for c in wea.estimate_illuminance_components(
                HourlyContinuousCollection(Header(DewPointTemperature(), 'C', wea.analysis_period), dews))])
            if ghi is not None:
                cmp_batch(ctx, 'illum_wea', idx,
                          lambda i: 'illum %s %s %s %s %s none' % (fb(suns[i][0]), fb(ghi[i]), fb(dnr[i]),
                                                                   fb(dhr[i]), fb(dews[i])),
                          lambda i: [pick(ill, e4, 0)[i] if e4 is None else pick(None, e4, 0),
                                     ill[1][i], ill[2][i], ill[3][i]], atol=1e-7)
        up = [i for i in idx if suns[i][0] > 0]
        surfaces = [(90, 180, 0.2, True), (90, 0, 0.2, True), (90, rng.uniform(0, 360), rng.random(), False),
                    (rng.uniform(-90, 90), rng.uniform(0, 360), rng.random(), True),
                    (rng.uniform(-90, 90), rng.uniform(0, 360), rng.random(), False),
                    (0, rng.choice([0, 90, 180, 270]), 0.2, rng.random() < 0.5), (-90, 0, 0.3, True)]
        if up:
            j = rng.choice(up)
            surfaces.append((suns[j][0], suns[j][1], 0.2, True))        # facing the sun of step j
        for (sa, sz, refl, iso) in surfaces[:5 if ctx.quick else 8] + surfaces[-1:]:
            res, e3 = guarded(lambda: [list(c.values) for c in
                                       wea.directional_irradiance(sa, sz, refl, iso)])
            ctx.count('surface:%s' % ('up' if sa == 90 else 'down' if sa == -90 else 'tilted'))
            for i in idx:
                _count_branches(ctx, 'dirirr', (suns[i][0], suns[i][1], sa, sz, iso))
            cmp_batch(ctx, 'dirirr', idx,
                      lambda i: 'dirirr %s %s %s %s %s %s %s %s' % (
                          fb(suns[i][0]), fb(suns[i][1]), fb(dnr[i]), fb(dhr[i]), fb(sa), fb(sz), fb(refl),
                          _b(iso)),
                      lambda i: [pick(res, e3, 0)[i] if e3 is None else pick(None, e3, 0),
                                 res[1][i], res[2][i], res[3][i]], atol=1e-7)

    # --- histories on ONE object, compared step by step with the model state machines (Model/SkyObj)
    _hist_correspondence(ctx, _WeaHist, [_gen_wea_hist(rng, ctx) for _ in range(N(10, 400))], 'hist_wea',
                         WEA_READS)
    _hist_correspondence(ctx, _SkyHist, [_gen_sky_hist(rng, ctx) for _ in range(N(10, 400))], 'hist_sky',
                         SKY_READS)

    # --- design-day sky conditions
    from ladybug.designday import ASHRAEClearSky, ASHRAETau
    from ladybug.dt import Date
    from ladybug.sunpath import Sunpath
    for k in range(N(12, 200)):
        lat, lon, tz = rng.choice(gen_locations(rng))
        loc = _mk_location(lat, lon, tz)
        month, day = rng.randrange(1, 13), rng.randrange(1, 28)
        dls = rng.random() < 0.3
        if rng.random() < 0.5:
            cl = rng.choice([1, 0, 1.2, rng.uniform(0, 1.2)])
            sky = ASHRAEClearSky(Date(month, day), cl, dls)
            mk_line = lambda a: 'ddcs %d %s %s' % (month, fb(a), fb(cl))     # noqa: E731
            ctx.count('designday:clear')
        else:
            tb, td, u = rng.uniform(0.2, 0.8), rng.uniform(1.5, 2.8), rng.random() < 0.5
            sky = ASHRAETau(Date(month, day), tb, td, u, dls)
            mk_line = lambda a: 'ddtau %s %s %s %s' % (fb(a), fb(tb), fb(td), _b(u))   # noqa: E731
            ctx.count('designday:tau')
        sp = Sunpath.from_location(loc)
        alts = [sp.calculate_sun_from_date_time(d).altitude for d in sky._get_datetimes(1)]
        try:
            rv, exc = sky.radiation_values(loc), None
        except Exception as e:
            rv, exc = None, e

        def dd_impl(i):
            if exc is not None:
                raise exc
            return [rv[0][i], rv[1][i], rv[2][i]]

        cmp_batch(ctx, 'designday', list(range(len(alts))), lambda i: mk_line(alts[i]), dd_impl)


# ---------------------------------------------------------------------------------------------
# property oracle: the statement of C10 evaluated on the real code, independent of the model


def _fin(xs):
    return all(isinstance(x, (int, float)) and math.isfinite(x) for x in xs)


def _rel(a, b, tol=1e-9, atol=1e-9):
    return abs(a - b) <= tol * max(abs(a), abs(b)) + atol


def _model_outputs(sm, name, alt, p):
    """Outputs (dict name -> value) of one sky model at altitude `alt` with parameters `p`."""
    if name == 'ashrae_clear_sky':
        dn, dh = sm.ashrae_clear_sky([alt], p['month'], p['clearness'])
        return {'dni': dn[0], 'dhi': dh[0], 'ghi': dh[0] + dn[0] * math.sin(math.radians(alt))}
    if name == 'ashrae_revised_clear_sky':
        dn, dh = sm.ashrae_revised_clear_sky([alt], p['tb'], p['td'], p['use2017'])
        return {'dni': dn[0], 'dhi': dh[0], 'ghi': dh[0] + dn[0] * math.sin(math.radians(alt))}
    if name == 'zhang_huang_solar':
        return {'ghi': sm.zhang_huang_solar(alt, p['cc'], p['rh'], p['t'], p['t3'], p['ws'])}
    if name in ('zhang_huang_split_dirint', 'zhang_huang_split_disc'):
        from ladybug.psychrometrics import dew_point_from_db_rh  # noqa: F401 (used inside the real code)
        alts = list(p['neighbours'])
        k = len(alts) // 2
        alts[k] = alt
        n = len(alts)
        dn, dh = sm.zhang_huang_solar_split(alts, [p['doy']] * n, [p['cc']] * n, [p['rh']] * n, [p['t']] * n,
                                            [p['t3']] * n, [p['ws']] * n, [p['pressure']] * n,
                                            name.endswith('disc'))
        return {'dni': dn[k], 'dhi_night_only': dh[k],
                'ghi': sm.zhang_huang_solar(alt, p['cc'], p['rh'], p['t'], p['t3'], p['ws'])}
    if name == 'disc':
        dni, kt, am = sm.disc(p['ghi'], alt, p['doy'], p['pressure'])
        return {'dni': dni}
    if name == 'dirint':
        alts = list(p['neighbours'])
        k = len(alts) // 2
        alts[k] = alt
        n = len(alts)
        ghis = [p['ghi']] * n
        dn = sm.dirint(ghis, alts, [p['doy']] * n, [p['pressure']] * n, temp_dew=[p['dew']] * n)
        return {'dni': dn[k]}
    if name == 'illuminance':
        dhi, dni = p['dhi'], p['dni']
        ghi = dhi + dni * math.sin(math.radians(max(alt, 0.0)))
        r = sm.estimate_illuminance_from_irradiance(alt, ghi, dni, dhi, p['dew'])
        return {'ghi': r[0], 'dni': r[1], 'dhi': r[2], 'zenith_lum': r[3]}
    raise ValueError('unknown model ' + name)


def _check_basic(op, inp):
    from ladybug import skymodel as sm
    if op == 'night_zero':
        name, alt = inp['model'], inp['alt']
        try:
            out = _model_outputs(sm, name, alt, inp['params'])
        except Exception as e:
            return {'required': 'all outputs 0 at altitude %r <= 0' % alt,
                    'observed': 'raises %s: %s' % (type(e).__name__, e),
                    'sig': {'model': name, 'clause': 'night_zero', 'raises': type(e).__name__}}
        bad = {k: v for k, v in out.items() if v != 0}
        if bad:
            return {'required': 'all outputs 0 at altitude %r <= 0' % alt, 'observed': bad,
                    'sig': {'model': name, 'clause': 'night_zero'}}
        return None
    if op == 'day_physical':
        name, alt = inp['model'], inp['alt']
        try:
            out = _model_outputs(sm, name, alt, inp['params'])
        except Exception as e:
            return {'required': 'finite outputs at altitude %r' % alt,
                    'observed': 'raises %s: %s' % (type(e).__name__, e),
                    'sig': {'model': name, 'clause': 'finite', 'raises': type(e).__name__}}
        out.pop('dhi_night_only', None)
        if not _fin(out.values()):
            return {'required': 'finite outputs at altitude %r' % alt, 'observed': out,
                    'sig': {'model': name, 'clause': 'finite'}}
        neg = {k: v for k, v in out.items() if k in ('dni', 'ghi') and v < 0}
        if neg:
            return {'required': 'dni >= 0 and ghi >= 0', 'observed': neg,
                    'sig': {'model': name, 'clause': 'nonneg'}}
        return None
    if op == 'clear_monotone':
        name, p, a1, a2 = inp['model'], inp['params'], inp['a1'], inp['a2']
        d1 = _model_outputs(sm, name, a1, p)['dni']
        d2 = _model_outputs(sm, name, a2, p)['dni']
        if not d1 <= d2 * (1 + 1e-12) + 1e-12:
            wobble = a2 >= 89.9 and d1 <= d2 * (1 + 1e-6)
            return {'required': 'dni(%r) <= dni(%r)' % (a1, a2), 'observed': (d1, d2),
                    'sig': {'model': name, 'clause': 'monotone',
                            'region': 'zenith_wobble_below_1e-6' if wobble else 'elsewhere'}}
        ext = min(sm.get_extra_radiation(d) for d in range(1, 367))
        if not d2 <= ext:
            return {'required': 'dni <= extraterrestrial (%r)' % ext, 'observed': d2,
                    'sig': {'model': name, 'clause': 'le_extraterrestrial'}}
        return None
    if op == 'closure_zh':
        rows = inp['rows']
        cols = list(zip(*rows))
        for ud in ([False, True] if inp.get('both') else [inp['use_disc']]):
            dn, dh = sm.zhang_huang_solar_split(*[list(c) for c in cols], ud)
            if not (len(dn) == len(dh) == len(rows)):
                return {'required': '%d pairs' % len(rows), 'observed': (len(dn), len(dh)),
                        'sig': {'clause': 'closure', 'where': 'zhang_huang_split_length'}}
            for i, (r, a, b) in enumerate(zip(rows, dn, dh)):
                g = sm.zhang_huang_solar(r[0], r[2], r[3], r[4], r[5], r[6])
                if not _rel(g, b + a * math.sin(math.radians(r[0]))):
                    return {'required': 'ghi = dhi + dni*sin(alt) = %r at step %d (use_disc=%r; dni %r, dhi %r, '
                            'altitude %r, pressure %r)' % (g, i, ud, a, b, r[0], r[7]),
                            'observed': b + a * math.sin(math.radians(r[0])),
                            'sig': {'clause': 'closure', 'where': 'zhang_huang_split'}}
        return None
    if op in ('closure_wea', 'surface_wea'):
        wea = _build_wea(inp['wea'])
        suns = _suns(wea)
        dnr = list(wea.direct_normal_irradiance.values)
        dhr = list(wea.diffuse_horizontal_irradiance.values)
        ghi = list(wea.global_horizontal_irradiance.values)
        if op == 'closure_wea':
            dho = list(wea.direct_horizontal_irradiance.values)
            if not (len(ghi) == len(dho) == len(dnr)):
                return {'required': '%d values' % len(dnr), 'observed': (len(ghi), len(dho)),
                        'sig': {'clause': 'closure', 'where': 'wea_length'}}
            for i, (alt, _az) in enumerate(suns):
                s = math.sin(math.radians(alt))
                if not _rel(ghi[i], dhr[i] + dnr[i] * s):
                    return {'required': 'ghi = dhi + dni*sin(alt) = %r at step %d' % (dhr[i] + dnr[i] * s, i),
                            'observed': ghi[i], 'sig': {'clause': 'closure', 'where': 'wea_global',
                                                        'enforce_on_hour': bool(wea.enforce_on_hour)}}
                if not _rel(dho[i], dnr[i] * s):
                    return {'required': 'direct horizontal = dni*sin(alt) = %r at step %d' % (dnr[i] * s, i),
                            'observed': dho[i], 'sig': {'clause': 'closure', 'where': 'wea_direct_horizontal'}}
            return None
        state = {'enforce_on_hour': bool(wea.enforce_on_hour), 'timestep': wea.timestep}
        if inp.get('face_all'):
            # every sun-up step: a surface whose normal is the sun vector of that step gets direct = DNI
            ups = [i for i, s_ in enumerate(suns) if s_[0] > 0][:inp.get('face_limit', 40)]
            for k in ups:
                dr = list(wea.directional_irradiance(suns[k][0], suns[k][1], 0.2, True)[1].values)
                if not _rel(dr[k], dnr[k], 1e-9, 1e-7):
                    return {'required': 'surface facing the sun of step %d (alt %r, az %r) receives dni = %r'
                            % (k, suns[k][0], suns[k][1], dnr[k]), 'observed': dr[k],
                            'sig': dict(state, clause='facing_sun')}
            return None
        sa, sz, refl, iso = inp['surface']
        face = inp.get('face_step')
        if face is not None:
            ups = [i for i, s in enumerate(suns) if s[0] > 0]
            if not ups:
                return None
            face = ups[face % len(ups)]
            sa, sz = suns[face]
        tot, dr, df, rf = [list(c.values) for c in wea.directional_irradiance(sa, sz, refl, iso)]
        for i in range(len(dnr)):
            if not _rel(tot[i], dr[i] + df[i] + rf[i]):
                return {'required': 'total = direct + diffuse + reflected = %r at step %d' % (
                    dr[i] + df[i] + rf[i], i), 'observed': tot[i], 'sig': dict(state, clause='total_sum')}
            if sa == 90 and suns[i][0] > 0 and not _rel(tot[i], ghi[i], 1e-9, 1e-7):
                return {'required': 'upward surface total = global horizontal = %r at step %d' % (ghi[i], i),
                        'observed': tot[i], 'sig': dict(state, clause='up_surface', isotropic=bool(iso))}
        if face is not None and not _rel(dr[face], dnr[face], 1e-9, 1e-7):
            return {'required': 'surface facing the sun receives dni = %r at step %d' % (dnr[face], face),
                    'observed': dr[face], 'sig': dict(state, clause='facing_sun')}
        return None
    if op == 'illum_wea':
        # Wea.estimate_illuminance_components on a real Wea: zero at night, finite and direct >= 0 by day
        from ladybug.datacollection import HourlyContinuousCollection
        from ladybug.header import Header
        from ladybug.datatype.temperature import DewPointTemperature
        wea = _build_wea(dict(inp['wea'], sun_up_only=False))
        suns = _suns(wea)
        dew = HourlyContinuousCollection(Header(DewPointTemperature(), 'C', wea.analysis_period),
                                         [inp['dew']] * len(suns))
        cols = [list(c.values) for c in wea.estimate_illuminance_components(dew)]
        for i, (alt, _az) in enumerate(suns):
            vals = [c[i] for c in cols]
            if alt <= 0 and any(v != 0 for v in vals):
                return {'required': 'illuminance 0 at sun altitude %r (step %d)' % (alt, i), 'observed': vals,
                        'sig': {'clause': 'night_zero', 'model': 'wea_illuminance',
                                'enforce_on_hour': bool(wea.enforce_on_hour)}}
            if not _fin(vals) or vals[1] < 0:
                return {'required': 'finite, direct normal illuminance >= 0 (step %d)' % i, 'observed': vals,
                        'sig': {'clause': 'nonneg', 'model': 'wea_illuminance'}}
        return None
    if op == 'wea_constructor':
        # the sky-model constructors of Wea (annual): zero at/below the horizon at the Wea's datetimes,
        # finite, DNI/GHI >= 0, closure
        from ladybug.wea import Wea
        loc = _mk_location(inp['lat'], inp['lon'], inp['tz'])
        if inp['kind'] == 'zhang_huang':
            # consumer of zhang_huang_solar_split (-> dirint / disc -> get_extra_radiation): one day of constant
            # weather; the constructor dates the sun ON the hour, so the Wea is read with enforce_on_hour
            from ladybug.analysisperiod import AnalysisPeriod
            from ladybug.datacollection import HourlyContinuousCollection
            from ladybug.header import Header
            from ladybug.datatype.fraction import TotalSkyCover, RelativeHumidity
            from ladybug.datatype.temperature import DryBulbTemperature
            from ladybug.datatype.speed import WindSpeed
            ts = inp.get('timestep', 1)
            ap = AnalysisPeriod(inp['month'], inp['day'], 0, inp['month'], inp['day'], 23, ts, inp['leap'])
            n = len(ap)

            def coll(dt_, unit, v):
                return HourlyContinuousCollection(Header(dt_, unit, ap), [v] * n)
            try:
                wea = Wea.from_zhang_huang_solar(loc, coll(TotalSkyCover(), 'tenths', inp['cc']),
                                                 coll(RelativeHumidity(), '%', inp['rh']),
                                                 coll(DryBulbTemperature(), 'C', inp['t']),
                                                 coll(WindSpeed(), 'm/s', inp['ws']), None, inp['use_disc'])
            except Exception as e:
                return {'required': 'finite irradiance for %d/%d leap=%r' % (inp['month'], inp['day'], inp['leap']),
                        'observed': 'raises %s: %s' % (type(e).__name__, e),
                        'sig': {'clause': 'finite', 'model': 'wea_zhang_huang', 'raises': type(e).__name__}}
            wea.enforce_on_hour = True
            moy0 = (_doy(inp['month'], inp['day'], inp['leap']) - 1) * 1440
            zsuns = [_sun_at((inp['lat'], inp['lon'], inp['tz']), inp['leap'], moy0 + i * (60 // ts))
                     for i in range(n)]
            zdn = list(wea.direct_normal_irradiance.values)
            zdh = list(wea.diffuse_horizontal_irradiance.values)
            for i, (alt, _az) in enumerate(zsuns):
                g = sm.zhang_huang_solar(alt, inp['cc'], inp['rh'], inp['t'], inp['t'], inp['ws'])
                if not _rel(g, zdh[i] + zdn[i] * math.sin(math.radians(alt))):
                    return {'required': 'dhi + dni*sin(alt) = zhang_huang_solar = %r at step %d' % (g, i),
                            'observed': zdh[i] + zdn[i] * math.sin(math.radians(alt)),
                            'sig': {'clause': 'closure', 'where': 'wea_zhang_huang'}}
        elif inp['kind'] == 'ashrae_clear_sky':
            wea = Wea.from_ashrae_clear_sky(loc, inp['clearness'], inp['timestep'], inp['leap'])
        else:
            tbs = inp.get('tbs') or [inp['tb']] * 12
            tds = inp.get('tds') or [inp['td']] * 12
            wea = Wea.from_ashrae_revised_clear_sky(loc, tbs, tds, inp['timestep'], inp['leap'], inp['use2017'])
        suns = _suns(wea)
        dnr = list(wea.direct_normal_irradiance.values)
        dhr = list(wea.diffuse_horizontal_irradiance.values)
        ghi = list(wea.global_horizontal_irradiance.values)
        for i, (alt, _az) in enumerate(suns):
            if alt <= 0 and (dnr[i] != 0 or dhr[i] != 0 or ghi[i] != 0):
                return {'required': 'zero at sun altitude %r (step %d)' % (alt, i),
                        'observed': (dnr[i], dhr[i], ghi[i]),
                        'sig': {'clause': 'night_zero', 'model': 'wea_' + inp['kind']}}
            if not _fin([dnr[i], dhr[i], ghi[i]]) or dnr[i] < 0 or ghi[i] < 0:
                return {'required': 'finite, dni >= 0, ghi >= 0 (step %d)' % i,
                        'observed': (dnr[i], dhr[i], ghi[i]),
                        'sig': {'clause': 'nonneg', 'model': 'wea_' + inp['kind']}}
            if not _rel(ghi[i], dhr[i] + dnr[i] * math.sin(math.radians(alt))):
                return {'required': 'ghi = dhi + dni*sin(alt) at step %d' % i, 'observed': ghi[i],
                        'sig': {'clause': 'closure', 'where': 'wea_' + inp['kind']}}
        if inp['kind'] != 'zhang_huang' and inp.get('sample'):
            # sibling agreement: the constructor's values are those of the stand-alone model at the sun altitude
            # and the MONTH of each step, both dated here (month number / month position, leap-year minutes)
            import datetime
            ts_, leap_ = inp['timestep'], bool(inp['leap'])
            for i in inp['sample']:
                i = i % len(dnr)
                moy = 60.0 * i / ts_ + (30 if ts_ == 1 else 0)
                alt = _sun_at((inp['lat'], inp['lon'], inp['tz']), leap_, moy)[0]
                mon = (datetime.datetime(2016 if leap_ else 2017, 1, 1) + datetime.timedelta(minutes=moy)).month
                if inp['kind'] == 'ashrae_clear_sky':
                    want = sm.ashrae_clear_sky([alt], mon, inp['clearness'])
                else:
                    tbs = inp.get('tbs') or [inp['tb']] * 12
                    tds = inp.get('tds') or [inp['td']] * 12
                    want = sm.ashrae_revised_clear_sky([alt], tbs[mon - 1], tds[mon - 1], inp['use2017'])
                if not (_rel(dnr[i], want[0][0], 1e-9, 1e-7) and _rel(dhr[i], want[1][0], 1e-9, 1e-7)):
                    return {'required': 'step %d (month %d, altitude %r): the stand-alone model gives %r'
                            % (i, mon, alt, (want[0][0], want[1][0])), 'observed': (dnr[i], dhr[i]),
                            'sig': {'clause': 'sibling', 'where': 'wea_' + inp['kind']}}
        return None
    if op == 'closure_designday':
        from ladybug.designday import DesignDay, DryBulbCondition, HumidityCondition, WindCondition, \
            ASHRAEClearSky, ASHRAETau
        from ladybug.dt import Date
        from ladybug.sunpath import Sunpath
        loc = _mk_location(inp['lat'], inp['lon'], inp['tz'])
        d = Date(inp['month'], inp['day'])
        if inp['sky'] == 'clear':
            sky = ASHRAEClearSky(d, inp['clearness'], inp['dls'])
        else:
            sky = ASHRAETau(d, inp['tb'], inp['td'], inp['use2017'], inp['dls'])
        dd = DesignDay('c10', 'SummerDesignDay', loc, DryBulbCondition(30, 10),
                       HumidityCondition('Wetbulb', 20, 101325), WindCondition(2, 0), sky)
        dn, dh, gh = [list(c.values) for c in dd.hourly_solar_radiation]
        sp = Sunpath.from_location(loc)
        alts = [sp.calculate_sun_from_date_time(t).altitude for t in sky._get_datetimes(1)]
        for i, alt in enumerate(alts):
            want = dh[i] + dn[i] * math.sin(math.radians(alt))
            if not _rel(gh[i], want):
                return {'required': 'ghi = dhi + dni*sin(alt) = %r at hour %d' % (want, i), 'observed': gh[i],
                        'sig': {'clause': 'closure', 'where': 'designday_' + inp['sky']}}
            if alt <= 0 and (dn[i] != 0 or dh[i] != 0 or gh[i] != 0):
                return {'required': 'zero at altitude %r' % alt, 'observed': (dn[i], dh[i], gh[i]),
                        'sig': {'clause': 'night_zero', 'model': 'designday_' + inp['sky']}}
            if dn[i] < 0 or gh[i] < 0 or not _fin([dn[i], dh[i], gh[i]]):
                return {'required': 'finite, dni >= 0, ghi >= 0', 'observed': (dn[i], dh[i], gh[i]),
                        'sig': {'clause': 'nonneg', 'model': 'designday_' + inp['sky']}}
        return None
    if op == 'airmass_zenith':
        v = sm.get_relative_airmass(90, inp['model'])
        if not (isinstance(v, float) and abs(v - 1) <= 0.01):
            return {'required': 'about 1 (within 0.01) at the zenith', 'observed': v,
                    'sig': {'model': inp['model'], 'clause': 'zenith'}}
        return None
    if op == 'airmass_monotone':
        a1, a2 = inp['a1'], inp['a2']           # 0 < a1 < a2 <= 90
        v1, v2 = sm.get_relative_airmass(a1, inp['model']), sm.get_relative_airmass(a2, inp['model'])
        if not (_fin([v1, v2]) and v1 >= v2 * (1 - 1e-12)):
            if a1 < 3.5:
                region = 'below_3.5deg'
            elif _fin([v1, v2]) and a2 >= 89.9 and v1 >= v2 * (1 - 1e-6):
                region = 'zenith_wobble_below_1e-6'
            else:
                region = 'above_3.5deg'
            return {'required': 'airmass(%r) >= airmass(%r)' % (a1, a2), 'observed': (v1, v2),
                    'sig': {'model': inp['model'], 'clause': 'monotone', 'region': region}}
        return None
    if op == 'airmass_agree':
        a = inp['alt']                          # >= 10
        vs = {m: sm.get_relative_airmass(a, m) for m in AM_MODELS}
        lo, hi = min(vs.values()), max(vs.values())
        if not (_fin(vs.values()) and lo > 0 and hi / lo - 1 <= 0.05):
            worst = max(vs, key=lambda m: abs(vs[m] - sorted(vs.values())[3]))
            return {'required': 'the 7 models within 5 %% of one another at %r deg' % a, 'observed': vs,
                    'sig': {'clause': 'agree', 'model': worst}}
        return None
    if op == 'absam_linear':
        am, p, k = inp['am'], inp['p'], inp['k']
        f = sm.get_absolute_airmass
        if not (_rel(f(am, k * p), k * f(am, p), 1e-12, 0) and _rel(f(am, 101325.), am, 1e-12, 0)
                and f(None, p) is None):
            return {'required': 'absolute air mass linear in pressure, identity at 101325 Pa',
                    'observed': (f(am, p), f(am, k * p), f(am, 101325.)), 'sig': {'clause': 'absam_linear'}}
        return None
    if op == 'extra_range':
        sc = inp['sc']
        es = [sm.get_extra_radiation(d, sc) for d in range(1, 366)]
        worst = max(abs(e / sc - 1) for e in es)
        if worst > 0.04:
            return {'required': 'within 4 % of the solar constant', 'observed': worst,
                    'sig': {'clause': 'extra_range'}}
        arg = es.index(max(es)) + 1
        if not arg <= 10:
            return {'required': 'maximum in early January (doy <= 10)', 'observed': arg,
                    'sig': {'clause': 'extra_january'}}
        return None
    if op == 'extra_day':
        doy, sc = inp['doy'], inp['sc']
        b = (2. * math.pi / 365.) * (doy - 1)
        want = sc * (1.00011 + 0.034221 * math.cos(b) + 0.00128 * math.sin(b) + 0.000719 * math.cos(2 * b) +
                     7.7e-05 * math.sin(2 * b))
        try:
            got = sm.get_extra_radiation(doy, sc)
        except Exception as e:
            return {'required': 'finite extraterrestrial irradiance on day %r' % doy,
                    'observed': 'raises %s: %s' % (type(e).__name__, e),
                    'sig': {'clause': 'extra_day', 'raises': type(e).__name__}}
        if not (_fin([got]) and abs(got / sc - 1) <= 0.04 and _rel(got, want, 1e-12, 0)):
            return {'required': 'within 4 %% of the solar constant (Spencer: %r) on day %r' % (want, doy),
                    'observed': got, 'sig': {'clause': 'extra_day'}}
        return None
    if op == 'skytemp_inverse':
        sigma = 5.6697e-8
        eps, t = inp['emissivity'], inp['t_kelvin']
        got = sm.calc_sky_temperature(eps * sigma * t ** 4, eps)
        if not _rel(got + 273.15, t, 1e-10, 0):
            return {'required': 'calc_sky_temperature(eps*sigma*T^4, eps) = T - 273.15 = %r' % (t - 273.15),
                    'observed': got, 'sig': {'clause': 'skytemp_inverse'}}
        hir = sm.calc_horizontal_infrared(inp['sky_cover'], inp['db'], inp['dp'])
        # the emissivity the infrared law used, recovered from its own output
        emiss = hir / (sigma * (inp['db'] + 273.15) ** 4)
        back = sm.calc_sky_temperature(hir, emiss)
        if not _rel(back + 273.15, inp['db'] + 273.15, 1e-10, 0):
            return {'required': 'sky temperature inverts calc_horizontal_infrared: %r' % inp['db'],
                    'observed': back, 'sig': {'clause': 'skytemp_inverse_hir'}}
        ts = sm.calc_sky_temperature(hir)
        if not _rel(sigma * (ts + 273.15) ** 4, hir, 1e-10, 0):
            return {'required': 'sigma*(Tsky+273.15)^4 = horiz_ir = %r' % hir,
                    'observed': sigma * (ts + 273.15) ** 4, 'sig': {'clause': 'skytemp_inverse_hir'}}
        return None
    raise ValueError('unknown op ' + op)


# =============================================================================================
# round 3: histories on ONE object, refused operations, fresh-object reference, process order
#
# Stateful classes the property anchors: Wea (setters location / enforce_on_hour / direct_normal_irradiance /
# diffuse_horizontal_irradiance, in-place edits of the two collections and of the Location), ASHRAEClearSky /
# ASHRAETau (setters date / daylight_savings / clearness / tau_b / tau_d / use_2017) and the DesignDay holding
# them (setters location / sky_condition).  skymodel.py is pure functions + module constants.
#
# Consumers of every modelled producer (C = compared with the model, O = oracle, H = history ops):
#   get_extra_radiation ....... direct (C extra, O extra_range/order), disc -> dirint -> zhang_huang_solar_split
#                               -> Wea.from_zhang_huang_solar (O wea_constructor kind=zhang_huang), clearness_index
#   get_relative_airmass ...... direct (C relam, O airmass_*), disc, ashrae_revised_clear_sky, illuminance
#   get_absolute_airmass ...... direct (C absam, O absam_linear), disc
#   zhang_huang_solar ......... direct (C zh, O night_zero/day_physical), zhang_huang_solar_split (C zhsplit,
#                               O closure_zh), Wea.from_zhang_huang_solar (O wea_constructor)
#   disc / dirint / _disc_kn .. direct (C disc/dirint/disckn, O), zhang_huang_solar_split (both branches)
#   ashrae_clear_sky .......... direct (C cs, O clear_monotone), ASHRAEClearSky.radiation_values (C designday,
#                               H hist_sky rad), DesignDay.hourly_solar_radiation (O closure_designday, H dd),
#                               Wea.from_ashrae_clear_sky (O wea_constructor)
#   ashrae_revised_clear_sky .. direct (C rcs, O), ASHRAETau.radiation_values (C, H), DesignDay (O, H),
#                               Wea.from_ashrae_revised_clear_sky (O wea_constructor)
#   estimate_illuminance_from_irradiance .. direct (C illum, O), Wea.estimate_illuminance_components (C illum_wea,
#                               O illum_wea, H illum)
#   calc_horizontal_infrared .. direct (C hir, O skytemp_inverse), DesignDay.hourly_horizontal_infrared (H ir)
#   calc_sky_temperature ...... direct (C skyt, O skytemp_inverse)
#   Wea sun altitudes ......... global_horizontal_irradiance (C ghi, H ghi), direct_horizontal_irradiance (C dirh,
#                               H dirh), directional_irradiance (C dirirr, H dirirr/face),
#                               estimate_illuminance_components (H illum), filter_by_sun_up (H sunup),
#                               Wea.duplicate (H dup_ghi)
# Not exercised: Wea.from_stat_file / from_epw_file (file readers, properties C01/C12), EPW.sky_temperature.

TIMESTEPS = [1, 2, 3, 4, 5, 6, 10, 12, 15, 20, 30, 60]
WEA_READS = ('ghi', 'dirh', 'dirirr', 'face', 'illum', 'sunup', 'dup_ghi')
SKY_READS = ('rad', 'dd', 'ir')

_SP_MEMO = {}
_SUN_MEMO = {}


def _sun_at(loc, sp_leap, moy, dt_leap=None):
    """(altitude, azimuth) of the sun: a Sunpath made from a FRESH Location (sun positions are property C05 and
    an input here).  The memo is the harness's own and keyed by the complete public input."""
    dt_leap = sp_leap if dt_leap is None else dt_leap
    key = (loc[0], loc[1], loc[2], bool(sp_leap), moy, bool(dt_leap))
    r = _SUN_MEMO.get(key)
    if r is None:
        from ladybug.sunpath import Sunpath
        from ladybug.dt import DateTime
        sp = _SP_MEMO.get(key[:4])
        if sp is None:
            sp = Sunpath.from_location(_mk_location(*loc))
            sp.is_leap_year = bool(sp_leap)
            _SP_MEMO[key[:4]] = sp
        s = sp.calculate_sun_from_date_time(DateTime.from_moy(moy, bool(dt_leap)))
        if len(_SUN_MEMO) > 300000:
            _SUN_MEMO.clear()
        r = _SUN_MEMO[key] = (s.altitude, s.azimuth)
    return r


def _doy(month, day, leap):
    import datetime
    return datetime.date(2016 if leap else 2017, month, day).timetuple().tm_yday


def _interleave(cols):
    n = min(len(c) for c in cols) if cols else 0
    if any(len(c) != n for c in cols):
        raise ValueError('columns of different length: %r' % [len(c) for c in cols])
    return [c[i] for i in range(n) for c in cols]


def _same(a, b, atol=1e-12):
    if a is None or b is None:
        return a is None and b is None
    try:
        if math.isnan(a) or math.isnan(b):
            return math.isnan(a) and math.isnan(b)
        return a == b or abs(a - b) <= 1e-12 * max(abs(a), abs(b)) + atol
    except TypeError:
        return False


class _Diverged(Exception):
    """the implementation accepted an argument the history generator meant as refused: nothing to compare"""


class _WeaHist(object):
    """One Wea object, its shadow (the public state the user has established) and the operations on it.

    spec: {'locs': [[lat, lon, tz], ...], 'period': {'st': [m, d], 'end': [m, d], 'timestep', 'leap'},
           'pick': None | [indices]   (explicit datetimes -> HourlyDiscontinuousCollection),
           'dnr': [...], 'dhr': [...], 'sun_up_only': bool, 'immutable': bool, 'ops': [...]}"""

    def __init__(self, spec):
        from ladybug.wea import Wea
        self.spec = spec
        p = spec['period']
        self.leap, self.ts = bool(p['leap']), p['timestep']
        self.locs = [tuple(x) for x in spec['locs']]
        self.immutable = bool(spec.get('immutable'))
        ap = self._ap()
        all_dts = list(ap.datetimes)
        pick = spec.get('pick')
        sel = list(range(len(all_dts))) if pick is None else list(pick)
        self.continuous = pick is None
        self.datetimes = None if pick is None else [all_dts[i] for i in sel]
        moys = [all_dts[i].moy for i in sel]
        dnr, dhr = list(spec['dnr'])[:len(sel)], list(spec['dhr'])[:len(sel)]
        dn, dh = self._colls(dnr, dhr)
        wea = Wea(_mk_location(*self.locs[0]), dn, dh)
        if spec.get('sun_up_only'):
            half = 30 if self.ts == 1 else 0
            up = [i for i in range(len(moys)) if _sun_at(self.locs[0], self.leap, moys[i] + half)[0] > 0]
            if up:
                wea = wea.filter_by_sun_up()
                self.continuous = False
                self.datetimes = list(wea.direct_normal_irradiance.datetimes)
                moys, dnr, dhr = [moys[i] for i in up], [dnr[i] for i in up], [dhr[i] for i in up]
        self.wea = wea
        self.immutable = 'Immutable' in type(wea.direct_normal_irradiance).__name__
        self.moys = moys
        self.base_dnr, self.base_dhr = list(dnr), list(dhr)
        self.shadow = {'loc': 0, 'enforce': False, 'dnr': list(dnr), 'dhr': list(dhr)}
        self.n = len(moys)

    def _ap(self):
        from ladybug.analysisperiod import AnalysisPeriod
        p = self.spec['period']
        return AnalysisPeriod(p['st'][0], p['st'][1], 0, p['end'][0], p['end'][1], 23, p['timestep'],
                              bool(p['leap']))

    def _coll(self, dtype, vals, datetimes='own', immutable=None):
        from ladybug.datacollection import HourlyContinuousCollection, HourlyDiscontinuousCollection
        from ladybug.header import Header
        dts = self.datetimes if datetimes == 'own' else datetimes
        unit = 'C' if dtype.__class__.__name__ == 'DewPointTemperature' else 'W/m2'
        if dts is None:
            c = HourlyContinuousCollection(Header(dtype, unit, self._ap()), list(vals))
        else:
            c = HourlyDiscontinuousCollection(Header(dtype, unit, self._ap()), list(vals), list(dts))
        if self.immutable if immutable is None else immutable:
            c = c.to_immutable()
        return c

    def _colls(self, dnr, dhr):
        from ladybug.datatype.energyflux import DirectNormalIrradiance, DiffuseHorizontalIrradiance
        return self._coll(DirectNormalIrradiance(), dnr), self._coll(DiffuseHorizontalIrradiance(), dhr)

    # -- the shadow side -------------------------------------------------------------------
    def suns(self, loc=None, enforce=None):
        sh = self.shadow
        loc = self.locs[sh['loc'] if loc is None else loc]
        enforce = sh['enforce'] if enforce is None else enforce
        half = 30 if (self.ts == 1 and not enforce) else 0
        return [_sun_at(loc, self.leap, m + half) for m in self.moys]

    def fresh(self):
        """A new Wea constructed from the shadow state only."""
        from ladybug.wea import Wea
        sh = self.shadow
        dn, dh = self._colls(sh['dnr'], sh['dhr'])
        w = Wea(_mk_location(*self.locs[sh['loc']]), dn, dh)
        if sh['enforce']:
            w.enforce_on_hour = True
        return w

    def resolve(self, op):
        """`face` -> the directional read it stands for (surface normal = shadow sun vector of a sun-up step)."""
        if op[0] != 'face':
            return op, None
        suns = self.suns()
        ups = [i for i, s in enumerate(suns) if s[0] > 0]
        if not ups:
            return ['dirirr', 90, 180, op[2], op[3]], None
        j = ups[op[1] % len(ups)]
        return ['dirirr', suns[j][0], suns[j][1], op[2], op[3]], j

    # -- the real side ---------------------------------------------------------------------
    def read(self, wea, op):
        """Flat list of numbers (per step interleaved columns) of one read on `wea`."""
        op, _j = self.resolve(op)
        name = op[0]
        if name == 'ghi':
            return list(wea.global_horizontal_irradiance.values)
        if name == 'dup_ghi':
            return list(wea.duplicate().global_horizontal_irradiance.values)
        if name == 'dirh':
            return list(wea.direct_horizontal_irradiance.values)
        if name == 'dirirr':
            return _interleave([list(c.values) for c in wea.directional_irradiance(op[1], op[2], op[3], op[4])])
        if name == 'illum':
            from ladybug.datatype.temperature import DewPointTemperature
            dew = self._coll(DewPointTemperature(), [op[1]] * self.n, immutable=False)
            return _interleave([list(c.values) for c in wea.estimate_illuminance_components(dew)])
        if name == 'sunup':
            w2 = wea.filter_by_sun_up(op[1])
            return _interleave([list(w2.direct_normal_irradiance.values),
                                list(w2.diffuse_horizontal_irradiance.values)])
        raise ValueError('unknown read ' + name)

    def _new_vals(self, base, a, b):
        return [max(0.0, v * a + b) for v in base]

    def apply(self, op):
        """Execute one op on the real object -> (status, values | None); the shadow follows accepted setters."""
        from ladybug.datatype.energyflux import DirectNormalIrradiance, DiffuseHorizontalIrradiance
        name, sh, wea = op[0], self.shadow, self.wea
        try:
            if name in WEA_READS:
                return 'ok', self.read(wea, op)
            if name == 'set_loc':
                wea.location = _mk_location(*self.locs[op[1]])
                sh['loc'] = op[1]
            elif name == 'mut_loc':
                lat, lon, tz = self.locs[op[1]]
                loc = wea.location
                loc.latitude, loc.longitude, loc.time_zone = lat, lon, tz
                sh['loc'] = op[1]
            elif name == 'set_enforce':
                wea.enforce_on_hour = op[1]
                sh['enforce'] = bool(op[1])
            elif name == 'set_dnr':
                vals = self._new_vals(self.base_dnr, op[1], op[2])
                wea.direct_normal_irradiance = self._coll(DirectNormalIrradiance(), vals)
                sh['dnr'] = vals
            elif name == 'set_dhr':
                vals = self._new_vals(self.base_dhr, op[1], op[2])
                wea.diffuse_horizontal_irradiance = self._coll(DiffuseHorizontalIrradiance(), vals)
                sh['dhr'] = vals
            elif name == 'vals_dnr':
                vals = self._new_vals(self.base_dnr, op[1], op[2])
                wea.direct_normal_irradiance.values = vals
                sh['dnr'] = list(vals)
            elif name == 'item_dnr':
                wea.direct_normal_irradiance[op[1] % self.n] = op[2]
                sh['dnr'][op[1] % self.n] = op[2]
            elif name == 'item_dhr':
                wea.diffuse_horizontal_irradiance[op[1] % self.n] = op[2]
                sh['dhr'][op[1] % self.n] = op[2]
            elif name == 'twin':
                # a SECOND Wea in the same process (other place, other data, other flag), asked the same things
                from ladybug.wea import Wea
                k = (sh['loc'] + 1 + op[1]) % len(self.locs)
                dn, dh = self._colls([v * 0.5 + 11.0 for v in sh['dnr']], [v * 2.0 + 3.0 for v in sh['dhr']])
                w2 = Wea(_mk_location(*self.locs[k]), dn, dh)
                w2.enforce_on_hour = not sh['enforce']
                w2.global_horizontal_irradiance
                w2.direct_horizontal_irradiance
                w2.directional_irradiance(30, 100, 0.5, False)
            elif name == 'scribble':
                # the caller edits what an earlier read returned (values and header metadata), in place
                rop, _j = self.resolve(op[1])
                if rop[0] in ('ghi', 'dup_ghi'):
                    got = [wea.global_horizontal_irradiance]
                elif rop[0] == 'dirh':
                    got = [wea.direct_horizontal_irradiance]
                elif rop[0] == 'dirirr':
                    got = list(wea.directional_irradiance(rop[1], rop[2], rop[3], rop[4]))
                elif rop[0] == 'sunup':
                    w2 = wea.filter_by_sun_up(rop[1])
                    got = [w2.direct_normal_irradiance, w2.diffuse_horizontal_irradiance]
                else:
                    got = []
                for c in got:
                    try:
                        c.header.metadata['c10'] = 'scribbled'
                        c.values = [-7.0] * len(c)
                    except Exception:
                        pass
            elif name == 'bad_loc':
                wea.location = {'str': 'Chicago', 'none': None, 'tuple': (41.0, -87.0)}[op[1]]
            elif name in ('bad_dnr', 'bad_dhr'):
                good, other = (DirectNormalIrradiance, DiffuseHorizontalIrradiance)
                # the refused data differ from the current ones, so that a leak into the object is observable
                cur = [v * 0.5 + 7.0 for v in (sh['dnr'] if name == 'bad_dnr' else sh['dhr'])]
                if name == 'bad_dhr':
                    good, other = other, good
                if op[1] == 'short':
                    if self.n < 2:
                        arg = 'no collection'
                    elif self.datetimes is None:     # a continuous collection of another period
                        from ladybug.analysisperiod import AnalysisPeriod
                        from ladybug.datacollection import HourlyContinuousCollection
                        from ladybug.header import Header
                        ap = AnalysisPeriod(1, 1, 0, 1, 1, 23, self.ts, self.leap)
                        if len(ap) == self.n:
                            ap = AnalysisPeriod(1, 1, 0, 1, 2, 23, self.ts, self.leap)
                        arg = HourlyContinuousCollection(Header(good(), 'W/m2', ap), [1.0] * len(ap))
                    else:
                        arg = self._coll(good(), cur[:-1], self.datetimes[:-1])
                elif op[1] == 'dtype':
                    arg = self._coll(other(), cur)
                else:
                    arg = list(cur)
                if name == 'bad_dnr':
                    wea.direct_normal_irradiance = arg
                else:
                    wea.diffuse_horizontal_irradiance = arg
                raise _Diverged()         # accepted although meant as refused: nothing to compare any more
            elif name == 'bad_dirirr':
                wea.directional_irradiance('up', 180)
            elif name == 'bad_illum':
                from ladybug.datatype.temperature import DewPointTemperature
                if op[1] == 'short' and self.n >= 2:
                    dts = None if self.datetimes is None else self.datetimes[:-1]
                    if dts is None:
                        from ladybug.analysisperiod import AnalysisPeriod
                        from ladybug.datacollection import HourlyContinuousCollection
                        from ladybug.header import Header
                        ap = AnalysisPeriod(1, 1, 0, 1, 1, 23, self.ts, self.leap)
                        if len(ap) == self.n:
                            ap = AnalysisPeriod(1, 1, 0, 1, 2, 23, self.ts, self.leap)
                        dew = HourlyContinuousCollection(Header(DewPointTemperature(), 'C', ap), [5.0] * len(ap))
                    else:
                        dew = self._coll(DewPointTemperature(), [5.0] * (self.n - 1), dts, immutable=False)
                else:                                # fails half-way: a non-number in the middle of the data
                    vals = [5.0] * self.n
                    vals[self.n // 2] = 'x'
                    dew = self._coll(DewPointTemperature(), vals, immutable=False)
                wea.estimate_illuminance_components(dew)
            elif name == 'bad_sunup':
                wea.filter_by_sun_up('x')
            elif name == 'bad_get':
                wea.get_irradiance_value(13, 1, 0)
            else:
                raise ValueError('unknown op ' + name)
            return 'ok', None
        except _Diverged:
            raise
        except Exception as e:
            return 'err:' + err_name(e), None

    # -- model side ------------------------------------------------------------------------
    def model_line(self):
        nl = len(self.locs)
        toks = ['hwea', str(self.ts), str(self.n), str(nl)]
        for k in range(nl):
            for enforce in (True, False):                 # table 0 = on the hour, table 1 = half hour
                for alt, az in self.suns(k, enforce):
                    toks += [fb(alt), fb(az)]
        toks += [fb(v) for v in self.base_dnr] + [fb(v) for v in self.base_dhr]
        return toks

    def model_tokens(self, op):
        """Tokens of one op for the model; evaluated BEFORE the op is applied (uses the shadow)."""
        if op[0] in ('twin', 'scribble'):
            return None                      # no effect on the public state: the model does not see them
        rop, _j = self.resolve(op)
        name, sh = rop[0], self.shadow
        if name in ('ghi', 'dup_ghi'):
            return ['G']
        if name == 'dirh':
            return ['H']
        if name == 'dirirr':
            return ['D', fb(rop[1]), fb(rop[2]), fb(rop[3]), _b(rop[4])]
        if name == 'illum':
            return ['I', fb(rop[1])]
        if name == 'sunup':
            return ['U', fb(rop[1])]
        if name in ('set_loc', 'mut_loc'):
            return ['L', str(rop[1])]
        if name == 'set_enforce':
            return ['E', _b(rop[1])]
        if name in ('set_dnr', 'vals_dnr'):
            if name == 'vals_dnr' and self.immutable:
                return ['X']
            vals = self._new_vals(self.base_dnr, rop[1], rop[2])
            return ['N', str(len(vals))] + [fb(v) for v in vals]
        if name == 'set_dhr':
            vals = self._new_vals(self.base_dhr, rop[1], rop[2])
            return ['F', str(len(vals))] + [fb(v) for v in vals]
        if name in ('item_dnr', 'item_dhr'):
            if self.immutable:
                return ['X']
            return ['S' if name == 'item_dnr' else 'T', str(rop[1] % self.n), fb(rop[2])]
        if name == 'bad_loc':
            return ['L', '99']
        if name == 'bad_illum' and (rop[1] != 'short' or self.n < 2):
            return None                      # fails half-way only where the sun is up at the bad entry
        if name in ('bad_dnr', 'bad_dhr') and rop[1] == 'short' and self.n >= 2:
            cur = sh['dnr'] if name == 'bad_dnr' else sh['dhr']
            return ['N' if name == 'bad_dnr' else 'F', str(self.n - 1)] + [fb(v) for v in cur[:-1]]
        return ['X']


def _status_match(model, real):
    """model status vs real status: `err:refused` stands for any rejection."""
    if model == 'err:refused':
        return real.startswith('err:')
    return model == real


def _judge_wea(h, op, status, vals):
    """Statement clauses on the shadow state + the fresh-object reference for one read -> None | failure."""
    rop, face = h.resolve(op)
    name = rop[0]
    try:
        fvals, fstatus = h.read(h.fresh(), op), 'ok'
    except Exception as e:
        fvals, fstatus = None, 'err:' + err_name(e)
    if status != 'ok' or fstatus != 'ok':
        if status != fstatus:
            return {'required': 'the read answers as on a fresh Wea with the same public state: %s' % fstatus,
                    'observed': status, 'clause': 'refines_fresh'}
        return None
    sh = h.shadow
    suns = h.suns()
    n = h.n
    dnr, dhr = sh['dnr'], sh['dhr']
    width = {'ghi': 1, 'dup_ghi': 1, 'dirh': 1, 'dirirr': 4, 'illum': 4}.get(name)
    if width is not None and len(vals) != n * width:
        return {'required': '%d values' % (n * width), 'observed': len(vals), 'clause': 'length'}
    for i in range(n if width else 0):
        alt = suns[i][0]
        s = math.sin(math.radians(alt))
        if name in ('ghi', 'dup_ghi') and not _rel(vals[i], dhr[i] + dnr[i] * s):
            return {'required': 'ghi = dhi + dni*sin(alt) = %r at step %d (sun altitude %r of the current '
                    'location / datetimes)' % (dhr[i] + dnr[i] * s, i, alt), 'observed': vals[i],
                    'clause': 'closure'}
        if name == 'dirh' and not _rel(vals[i], dnr[i] * s):
            return {'required': 'direct horizontal = dni*sin(alt) = %r at step %d' % (dnr[i] * s, i),
                    'observed': vals[i], 'clause': 'direct_horizontal'}
        if name == 'dirirr':
            tot, dr, df, rf = vals[4 * i:4 * i + 4]
            if not _rel(tot, dr + df + rf):
                return {'required': 'total = direct + diffuse + reflected = %r at step %d' % (dr + df + rf, i),
                        'observed': tot, 'clause': 'total_sum'}
            if rop[1] == 90 and alt > 0 and not _rel(tot, dhr[i] + dnr[i] * s, 1e-9, 1e-7):
                return {'required': 'upward surface total = global horizontal = %r at step %d'
                        % (dhr[i] + dnr[i] * s, i), 'observed': tot, 'clause': 'up_surface'}
            if face is not None and i == face and not _rel(dr, dnr[i], 1e-9, 1e-7):
                return {'required': 'surface facing the sun of step %d (alt %r, az %r) receives dni = %r'
                        % (i, alt, suns[i][1], dnr[i]), 'observed': dr, 'clause': 'facing_sun'}
        if name == 'illum':
            four = vals[4 * i:4 * i + 4]
            if alt <= 0 and any(v != 0 for v in four):
                return {'required': 'illuminance 0 at sun altitude %r (step %d)' % (alt, i), 'observed': four,
                        'clause': 'night_zero'}
            if not _fin(four) or four[1] < 0:
                return {'required': 'finite, direct normal illuminance >= 0 (step %d)' % i, 'observed': four,
                        'clause': 'nonneg'}
    if len(vals) != len(fvals) or not all(_same(a, b) for a, b in zip(vals, fvals)):
        k = next((i for i, (a, b) in enumerate(zip(vals, fvals)) if not _same(a, b)), min(len(vals), len(fvals)))
        return {'required': 'the values of a fresh Wea with the same public state (location %r, enforce_on_hour '
                '%r): value %d = %r' % (h.locs[sh['loc']], sh['enforce'], k,
                                        fvals[k] if k < len(fvals) else None),
                'observed': vals[k] if k < len(vals) else 'only %d values' % len(vals), 'clause': 'refines_fresh'}
    return None


def _hist_kind(prev):
    if prev is None:
        return 'first_read'
    if prev[0] in WEA_READS or prev[0] in SKY_READS:
        return 'after_read'
    return 'after_refused' if prev[1].startswith('err') else 'after_setter'


def _check_hist(inp, cls, judge, reads):
    try:
        h = cls(inp)
    except Exception as e:
        return {'required': 'the object can be constructed from valid arguments',
                'observed': 'raises %s: %s' % (type(e).__name__, e),
                'sig': {'clause': 'construct', 'raises': type(e).__name__}}
    prev = None
    seen_reads = set()
    for k, op in enumerate(inp['ops']):
        try:
            status, vals = h.apply(op)
        except _Diverged:
            return None
        if op[0] in reads:
            bad = judge(h, op, status, vals)
            if bad:
                clause = bad.pop('clause')
                bad['required'] = 'after ops %s: %s' % (json.dumps(inp['ops'][:k + 1]), bad['required'])
                bad['sig'] = dict(bad.pop('sig_extra', {}), clause=clause, obs=op[0], history=_hist_kind(prev),
                                  repeated_read=json.dumps(op) in seen_reads)
                return bad
            seen_reads.add(json.dumps(op))
        prev = (op[0], status)
    return None


# ---- sky conditions / design day ----------------------------------------------------------------


class _SkyHist(object):
    """One ASHRAEClearSky / ASHRAETau held by one DesignDay, its shadow and the operations on them.

    spec: {'sky': 'clear'|'tau', 'dates': [[m, d, leap], ...], 'locs': [[lat, lon, tz], ...],
           'init': {'date', 'dls', 'clearness', 'tb', 'td', 'u', 'loc'}, 'ops': [...]}"""

    def __init__(self, spec):
        self.spec = spec
        self.kind = spec['sky']
        self.dates = [tuple(d) for d in spec['dates']]
        self.locs = [tuple(x) for x in spec['locs']]
        self.shadow = dict(spec['init'])
        self.sky, self.dd = self._make(self.shadow)

    def _make(self, sh):
        from ladybug.designday import DesignDay, DryBulbCondition, HumidityCondition, WindCondition, \
            ASHRAEClearSky, ASHRAETau
        from ladybug.dt import Date
        m, d, leap = self.dates[sh['date']]
        if self.kind == 'clear':
            sky = ASHRAEClearSky(Date(m, d, leap), sh['clearness'], sh['dls'])
        else:
            sky = ASHRAETau(Date(m, d, leap), sh['tb'], sh['td'], sh['u'], sh['dls'])
        dd = DesignDay('c10', 'SummerDesignDay', _mk_location(*self.locs[sh['loc']]), DryBulbCondition(30, 10),
                       HumidityCondition('Wetbulb', 20, 101325), WindCondition(2, 0), sky)
        return sky, dd

    def alts(self, k, ts=1, date=None, dls=None):
        """Sun altitudes of the design day at location k, the way the sky condition dates them."""
        sh = self.shadow
        m, d, leap = self.dates[sh['date'] if date is None else date]
        start = (_doy(m, d, leap) - 1) * 1440
        if sh['dls'] if dls is None else dls:
            start -= 60
        if ts == 1:
            start += 30
        return [_sun_at(self.locs[k], False, start + (i * (1 / ts) * 60), leap)[0] for i in range(24 * ts)]

    def read(self, sky, dd, op):
        name = op[0]
        if name == 'rad':
            dn, dh, gh = sky.radiation_values(_mk_location(*self.locs[op[1]]), op[2])
            return list(dn) + list(dh) + list(gh)
        if name == 'dd':
            cols = [list(c.values) for c in dd.hourly_solar_radiation]
            return cols[0] + cols[1] + cols[2]
        if name == 'ir':
            return list(dd.hourly_horizontal_infrared.values)
        raise ValueError('unknown read ' + name)

    def apply(self, op):
        from ladybug.dt import Date
        name, sh, sky, dd = op[0], self.shadow, self.sky, self.dd
        try:
            if name in SKY_READS:
                return 'ok', self.read(sky, dd, op)
            if name == 'set_clear':
                sky.clearness = op[1]
                sh['clearness'] = op[1]
            elif name == 'set_tb':
                sky.tau_b = op[1]
                sh['tb'] = op[1]
            elif name == 'set_td':
                sky.tau_d = op[1]
                sh['td'] = op[1]
            elif name == 'set_u':
                sky.use_2017 = op[1]
                sh['u'] = bool(op[1])
            elif name == 'set_date':
                sky.date = Date(*self.dates[op[1]])
                sh['date'] = op[1]
            elif name == 'set_dls':
                sky.daylight_savings = op[1]
                sh['dls'] = bool(op[1])
            elif name == 'dd_loc':
                dd.location = _mk_location(*self.locs[op[1]])
                sh['loc'] = op[1]
            elif name == 'dd_mutloc':
                lat, lon, tz = self.locs[op[1]]
                loc = dd.location
                loc.latitude, loc.longitude, loc.time_zone = lat, lon, tz
                sh['loc'] = op[1]
            elif name == 'swap':                      # the design day gets a copy of its sky; go on with the copy
                dd.sky_condition = sky.duplicate()
                self.sky = dd.sky_condition
            elif name == 'twin':
                # a SECOND sky condition of the same class in the same process, with other settings
                m, d, leap = self.dates[(sh['date'] + 1) % len(self.dates)]
                o = dict(sh, date=(sh['date'] + 1) % len(self.dates), dls=not sh['dls'],
                         clearness=0.3 if sh['clearness'] != 0.3 else 0.9, tb=sh['tb'] * 0.5 + 0.3,
                         td=sh['td'] * 0.5 + 0.4, u=not sh['u'], loc=(sh['loc'] + 1) % len(self.locs))
                if not (leap and m == 2 and d == 29) or _dd_period_keeps_leap():
                    sky2, dd2 = self._make(o)
                    sky2.radiation_values(_mk_location(*self.locs[o['loc']]), op[1])
                    dd2.hourly_solar_radiation
            elif name == 'scribble':
                # the caller edits what an earlier read returned, in place
                for lst in sky.radiation_values(_mk_location(*self.locs[op[1]]), op[2]):
                    if isinstance(lst, list):
                        lst[:] = [-7.0] * len(lst)
                        lst.append(-8.0)
                m, d, leap = self.dates[sh['date']]
                if not (leap and m == 2 and d == 29) or _dd_period_keeps_leap():
                    for c in dd.hourly_solar_radiation:
                        try:
                            c.header.metadata['c10'] = 'scribbled'
                            c.values = [-7.0] * len(c)
                        except Exception:
                            pass
            elif name == 'bad_val':                   # a non-number for a numeric attribute
                setattr(sky, op[1], {'str': '1', 'none': None, 'list': [1.0]}[op[2]])
            elif name == 'bad_date':
                sky.date = {'str': '21 Jun', 'list': [6, 21]}[op[1]]
            elif name == 'bad_dd_loc':
                dd.location = 'Chicago'
            elif name == 'bad_dd_sky':
                dd.sky_condition = 'clear'
            elif name == 'bad_rad':
                if op[1] == 'loc':
                    sky.radiation_values(5)
                else:
                    sky.radiation_values(_mk_location(*self.locs[0]), 'x')
            else:
                raise ValueError('unknown op ' + name)
            return 'ok', None
        except Exception as e:
            return 'err:' + err_name(e), None

    def fresh(self):
        return self._make(self.shadow)

    def model_line(self):
        nd, nl = len(self.dates), len(self.locs)
        toks = ['hsky', self.kind, str(nd), str(nl)] + [str(d[0]) for d in self.dates]
        # DesignDay.analysis_period forgets the leap-year flag of the date: 29 Feb cannot be read (known finding
        # C10-designday-feb29); read from the source whether the flag is passed on (fixes/C10_designday_leap_period)
        keeps = _dd_period_keeps_leap()
        toks += [_b(keeps or not (d[2] and d[0] == 2 and d[1] == 29)) for d in self.dates]
        for di in range(nd):
            for dls in (False, True):
                for k in range(nl):
                    toks += [fb(a) for a in self.alts(k, 1, di, dls)]
        sh = self.spec['init']
        toks += [str(sh['date']), _b(sh['dls']), fb(sh['clearness']), fb(sh['tb']), fb(sh['td']), _b(sh['u']),
                 str(sh['loc'])]
        return toks

    def model_tokens(self, op):
        """None = an op the model does not see (a read it has no table for, a copy of the sky)."""
        name = op[0]
        num = lambda v: isinstance(v, (int, float)) and not isinstance(v, bool)   # noqa: E731
        if name == 'rad':
            return ['R', str(op[1])] if op[2] == 1 else None
        if name == 'dd':
            return ['Q']
        if name in ('ir', 'swap', 'twin', 'scribble'):
            return None
        if name == 'set_clear':
            return ['C', fb(op[1])] if num(op[1]) else ['X']
        if name == 'set_tb':
            return ['B', fb(op[1])] if num(op[1]) else ['X']
        if name == 'set_td':
            return ['W', fb(op[1])] if num(op[1]) else ['X']
        if name == 'set_u':
            return ['V', _b(op[1])]
        if name == 'set_date':
            return ['A', str(op[1])]
        if name == 'set_dls':
            return ['Y', _b(op[1])]
        if name in ('dd_loc', 'dd_mutloc'):
            return ['P', str(op[1])]
        if name == 'bad_dd_loc':
            return ['P', '99']
        if name == 'bad_rad' and op[1] == 'loc':
            return ['R', '99']
        return ['X']


_DD_KEEPS_LEAP = []


def _dd_period_keeps_leap():
    """Does DesignDay.analysis_period hand the leap-year flag of the sky's date to AnalysisPeriod? (source text)"""
    if not _DD_KEEPS_LEAP:
        import inspect
        from ladybug.designday import DesignDay
        try:
            _DD_KEEPS_LEAP.append('leap_year' in inspect.getsource(DesignDay.analysis_period.fget))
        except Exception:
            _DD_KEEPS_LEAP.append(False)
    return _DD_KEEPS_LEAP[0]


_EXT_MIN = []


def _ext_min():
    if not _EXT_MIN:
        # Spencer's formula evaluated here (not by the code under test): the smallest extraterrestrial irradiance
        _EXT_MIN.append(min(1366.1 * (1.00011 + 0.034221 * math.cos(b) + 0.00128 * math.sin(b) +
                                      0.000719 * math.cos(2 * b) + 7.7e-05 * math.sin(2 * b))
                            for b in [(2. * math.pi / 365.) * (d - 1) for d in range(1, 367)]))
    return _EXT_MIN[0]


def _judge_sky(h, op, status, vals):
    try:
        fsky, fdd = h.fresh()
        fvals, fstatus = h.read(fsky, fdd, op), 'ok'
    except Exception as e:
        fvals, fstatus = None, 'err:' + err_name(e)
    sh = h.shadow
    name = op[0]
    if status != 'ok' or fstatus != 'ok':
        if status != fstatus:
            return {'required': 'the read answers as on a fresh sky condition / design day with the same public '
                    'state: %s' % fstatus, 'observed': status, 'clause': 'refines_fresh'}
        m, d, leap = h.dates[sh['date']]
        return {'required': 'finite irradiance for the design day %d/%d (leap year %r)' % (m, d, leap),
                'observed': 'raises ' + status, 'clause': 'finite',
                'sig_extra': {'via': 'designday' if name in ('dd', 'ir') else 'sky_condition', 'raises': status,
                              'date': 'leap_feb29' if (leap and m == 2 and d == 29) else 'other'}}
    if name in ('rad', 'dd'):
        k, ts = (op[1], op[2]) if name == 'rad' else (sh['loc'], 1)
        alts = h.alts(k, ts)
        n = len(alts)
        if len(vals) != 3 * n:
            return {'required': '%d values' % (3 * n), 'observed': len(vals), 'clause': 'length'}
        in_range = (0 <= sh['clearness'] <= 1.2) if h.kind == 'clear' else (sh['tb'] >= 0.2 and sh['td'] >= 0)
        for i, alt in enumerate(alts):
            dn, dh, gh = vals[i], vals[n + i], vals[2 * n + i]
            want = dh + dn * math.sin(math.radians(alt))
            if not _rel(gh, want):
                return {'required': 'ghi = dhi + dni*sin(alt) = %r at hour index %d (altitude %r)' % (want, i, alt),
                        'observed': gh, 'clause': 'closure'}
            if alt <= 0 and (dn != 0 or dh != 0 or gh != 0):
                return {'required': 'zero at altitude %r (index %d)' % (alt, i), 'observed': (dn, dh, gh),
                        'clause': 'night_zero'}
            if not _fin([dn, dh, gh]) or (in_range and (dn < 0 or gh < 0)):
                return {'required': 'finite, dni >= 0, ghi >= 0 (index %d)' % i, 'observed': (dn, dh, gh),
                        'clause': 'nonneg'}
            if not dn <= _ext_min():
                return {'required': 'clear-sky direct normal <= extraterrestrial (%r); the sky condition holds '
                        'clearness=%r tau_b=%r' % (_ext_min(), sh['clearness'], sh['tb']), 'observed': dn,
                        'clause': 'le_extraterrestrial'}
    if name == 'ir':
        from ladybug import skymodel as sm
        for v in vals:
            ts_ = sm.calc_sky_temperature(v)
            if not _rel(5.6697e-8 * (ts_ + 273.15) ** 4, v, 1e-10, 0):
                return {'required': 'sigma*(Tsky+273.15)^4 = horizontal infrared = %r' % v,
                        'observed': 5.6697e-8 * (ts_ + 273.15) ** 4, 'clause': 'skytemp_inverse_hir'}
    if len(vals) != len(fvals) or not all(_same(a, b) for a, b in zip(vals, fvals)):
        k = next((i for i, (a, b) in enumerate(zip(vals, fvals)) if not _same(a, b)), min(len(vals), len(fvals)))
        return {'required': 'the values of a fresh %s sky / design day with the same public state %r: value %d = %r'
                % (h.kind, sh, k, fvals[k] if k < len(fvals) else None),
                'observed': vals[k] if k < len(vals) else 'only %d values' % len(vals), 'clause': 'refines_fresh'}
    return None


# ---- generators of histories ----------------------------------------------------------------------


def _pick_locs(rng, k=3):
    pool = gen_locations(rng)
    north = [x for x in pool if x[0] > 20]
    south = [x for x in pool if x[0] < -20]
    locs = [rng.choice(pool), rng.choice(south if rng.random() < 0.7 else north), rng.choice(pool)]
    out = []
    for x in locs:
        while list(x) in out:
            x = (x[0] * 0.5 + 1.0, x[1] * 0.5 + 1.0, x[2])
        out.append(list(x))
    return out[:k]


def _end_date(month, day, ndays, leap):
    import datetime
    d0 = datetime.date(2016 if leap else 2017, month, day)
    d1 = d0 + datetime.timedelta(days=ndays - 1)
    return [d1.month, d1.day]


def _gen_wea_hist(rng, ctx=None, nops=None):
    """A Wea history.  Strata (counted): period kind, timestep, leap, continuity, immutable twins, zeros."""
    leap = rng.random() < 0.4
    kind = rng.choice(['days', 'days', 'days', 'hours', 'single', 'wrap', 'leapday', 'lastday', 'sunup',
                       'unsorted'])
    ts = rng.choice([1, 1, 1, 2, 4, rng.choice(TIMESTEPS)])
    ndays = 1
    month, day = rng.randrange(1, 13), rng.randrange(1, 28)
    if kind == 'wrap':
        month, day, ndays = 12, 31, 2
    elif kind == 'leapday':
        leap, month, day = True, 2, rng.choice([28, 29])
        ndays = 3 - (day - 27) if rng.random() < 0.5 else 1
    elif kind == 'lastday':
        leap, month, day = rng.random() < 0.7, 12, 31
    elif kind == 'days' and ts <= 2 and rng.random() < 0.3:
        ndays = 2
    per_day = 24 * ts
    pick = None
    if kind in ('hours', 'single', 'unsorted') or per_day * ndays > 192:
        # explicit datetimes (HourlyDiscontinuousCollection): one step, a few hours, or a thinned fine grid
        total = per_day * ndays
        if kind == 'single':
            pick = [rng.randrange(total)]
        else:
            a = rng.randrange(0, max(1, total - 2))
            m = rng.choice([2, 3, ts + 1, 2 * ts + 1, 12])
            step = rng.choice([1, 1, 2]) if total <= 192 else rng.choice([1, 7, 13, ts])
            pick = sorted(set(min(total - 1, a + j * step) for j in range(m)))
            if kind == 'unsorted':               # steps in any order, one of them twice (nothing sorts or checks)
                rng.shuffle(pick)
                pick.append(pick[0])
    n = per_day * ndays
    zero = rng.random() < 0.15
    mag = rng.choice([1, 1, 1, 1, 1, 1e-12, 1e12])      # very small / very large magnitudes (relative tolerances)
    dnr = [0.0 if zero else rng.choice([0.0, 0, mag * rng.uniform(0, 1000), mag * rng.uniform(0, 1000)])
           for _ in range(n)]
    dhr = [rng.choice([0.0, 0, mag * rng.uniform(0, 500), mag * rng.uniform(0, 500)]) for _ in range(n)]
    if pick is not None:
        dnr, dhr = dnr[:len(pick)], dhr[:len(pick)]
    spec = {'locs': _pick_locs(rng),
            'period': {'st': [month, day], 'end': _end_date(month, day, ndays, leap) if kind != 'wrap' else [1, 1],
                       'timestep': ts, 'leap': leap},
            'pick': pick, 'dnr': dnr, 'dhr': dhr, 'sun_up_only': kind == 'sunup' and pick is None,
            'immutable': rng.random() < 0.2}
    m = len(pick) if pick is not None else n
    reads = [['ghi'], ['dirh'], ['dirirr', 90, 180, 0.2, True], ['dirirr', 90, rng.uniform(0, 360), 0, False],
             ['dirirr', rng.choice([0, -90, rng.uniform(-90, 90)]), rng.uniform(0, 360), rng.random(),
              rng.random() < 0.5], ['face', rng.randrange(1000), 0.2, True], ['illum', rng.uniform(-30, 28)],
             ['sunup', rng.choice([0, 0, -6, 5.0])], ['dup_ghi']]
    setters = [['set_loc', 1], ['set_loc', 2], ['set_loc', 0], ['mut_loc', 1], ['mut_loc', 2],
               ['set_enforce', True], ['set_enforce', False], ['set_enforce', 1],
               ['set_dnr', rng.choice([0, 0.5, 1]), rng.choice([0, 0.0, 25.0])],
               ['set_dhr', rng.choice([0, 0.5, 1]), rng.choice([0, 10.0])],
               ['vals_dnr', 0.25, 3.0], ['item_dnr', rng.randrange(1000), rng.choice([0, 0.0, 777.0])],
               ['item_dhr', rng.randrange(1000), rng.choice([0, 55.5])]]
    setters += [['twin', rng.randrange(2)], ['scribble', rng.choice(reads[:5] + [reads[7]])],
                ['scribble', ['ghi']]]
    refused = [['bad_loc', rng.choice(['str', 'none', 'tuple'])], ['bad_dnr', rng.choice(['short', 'dtype', 'list'])],
               ['bad_dhr', rng.choice(['short', 'dtype', 'list'])], ['bad_dirirr'],
               ['bad_illum', rng.choice(['short', 'str'])], ['bad_sunup'], ['bad_get']]
    style = rng.choice(['probe', 'probe', 'sparse', 'refuse_first', 'read_set_read'])
    nops = nops or (rng.randrange(4, 9) if m <= 96 else 4)
    ops = []
    probe = [['ghi'], ['dirh'], ['dirirr', 90, 180, 0.2, True], ['illum', 5.0]] if m <= 60 else [['ghi'], ['dirh']]
    if style == 'refuse_first':
        ops.append(rng.choice(refused))
    if style in ('read_set_read', 'probe') or rng.random() < 0.5:
        ops += [rng.choice(reads)] if style != 'probe' else list(probe)
    for _ in range(nops):
        r = rng.random()
        op = rng.choice(setters) if r < 0.5 else rng.choice(refused) if r < 0.75 else rng.choice(reads)
        ops.append(op)
        if op[0] not in WEA_READS:
            if style == 'probe':
                ops += probe
            elif style == 'read_set_read' or rng.random() < 0.6:
                ops.append(rng.choice(reads))
        elif rng.random() < 0.3:
            ops.append(op)                   # the same question twice
    if ops[-1][0] not in WEA_READS:
        ops.append(['ghi'])
    spec['ops'] = ops
    if ctx is not None:
        ctx.count('hist_wea_period:' + kind)
        ctx.count('hist_wea_timestep:%d' % ts)
        ctx.count('hist_wea_leap:%s' % leap)
        ctx.count('hist_wea_collections:%s%s' % ('explicit' if pick is not None else 'sun_up' if
                                                 spec['sun_up_only'] else 'continuous',
                                                 '_immutable' if spec['immutable'] else ''))
        ctx.count('hist_wea_style:' + style)
        ctx.count('hist_wea_magnitude:%g' % mag)
        if pick is not None and len(pick) == 1:
            ctx.count('hist_wea_single_step')
        for op in ops:
            ctx.count('hist_wea_op:' + op[0])
    return spec


def _gen_sky_hist(rng, ctx=None):
    kind = rng.choice(['clear', 'tau'])
    dates = [[rng.randrange(1, 13), rng.randrange(1, 28), False],
             [rng.choice([2, 12]), rng.choice([28, 31, 29 if rng.random() < 0.1 else 28]), True],
             [rng.choice([1, 6, 12]), rng.choice([1, 21, 31]), rng.random() < 0.3]]
    for d in dates:
        if d[0] == 2 and d[1] > 28 + (1 if d[2] else 0):
            d[1] = 28
        if d[0] == 6 and d[1] == 31:
            d[1] = 30
    spec = {'sky': kind, 'dates': dates, 'locs': _pick_locs(rng),
            'init': {'date': rng.randrange(3), 'dls': rng.random() < 0.3,
                     'clearness': rng.choice([1, 1.0, 0, 1.2, rng.uniform(0, 1.2)]), 'tb': rng.uniform(0.2, 0.8),
                     'td': rng.uniform(1.5, 2.8), 'u': rng.random() < 0.5, 'loc': 0}}
    reads = [['rad', 0, 1], ['rad', 1, 1], ['rad', 2, 1], ['dd'], ['dd'], ['rad', rng.randrange(3),
                                                                       rng.choice([2, 3, 4, 6, 12])], ['ir']]
    clear_vals = [0, 0.0, 1, 1.2, 0.5, rng.uniform(0, 1.2)]
    bad_clear = [11, -1, 1.2000000000000002, -1e-9, 1.3, 100.0, -0.5]
    setters = [['set_date', rng.randrange(3)], ['set_date', 1], ['set_dls', rng.random() < 0.5], ['set_dls', 1],
               ['dd_loc', rng.randrange(3)], ['dd_mutloc', rng.randrange(3)], ['swap']]
    setters += [['twin', rng.choice([1, 2])], ['scribble', rng.randrange(3), rng.choice([1, 1, 2])]]
    refused = [['bad_date', rng.choice(['str', 'list'])], ['bad_dd_loc'], ['bad_dd_sky'],
               ['bad_rad', rng.choice(['loc', 'ts'])]]
    if kind == 'clear':
        setters += [['set_clear', rng.choice(clear_vals)] for _ in range(3)]
        refused += [['set_clear', rng.choice(bad_clear)] for _ in range(3)]
        refused += [['bad_val', 'clearness', rng.choice(['str', 'none', 'list'])], ['set_tb', 0.4]]
    else:
        setters += [['set_tb', rng.uniform(0.2, 0.8)], ['set_td', rng.uniform(1.5, 2.8)], ['set_u', rng.random() < 0.5],
                    ['set_tb', rng.choice([0.3, 1])], ['set_td', 2]]
        refused += [['bad_val', rng.choice(['tau_b', 'tau_d']), rng.choice(['str', 'none', 'list'])],
                    ['set_clear', 1.0]]
    style = rng.choice(['probe', 'probe', 'sparse', 'refuse_first'])
    probe = [['rad', 0, 1], ['dd']]
    ops = [rng.choice(refused)] if style == 'refuse_first' else []
    ops += probe if style == 'probe' else [rng.choice(reads)]
    for _ in range(rng.randrange(4, 10)):
        r = rng.random()
        op = rng.choice(setters) if r < 0.45 else rng.choice(refused) if r < 0.8 else rng.choice(reads)
        ops.append(op)
        if op[0] not in SKY_READS:
            ops += probe if style == 'probe' else [rng.choice(reads)] if rng.random() < 0.7 else []
        elif rng.random() < 0.3:
            ops.append(op)
    if ops[-1][0] not in SKY_READS:
        ops.append(['dd'])
    spec['ops'] = ops
    if ctx is not None:
        ctx.count('hist_sky_kind:' + kind)
        ctx.count('hist_sky_style:' + style)
        for op in ops:
            ctx.count('hist_sky_op:' + op[0])
    return spec


# ---- histories: model vs implementation, step by step ---------------------------------------------


def _hist_correspondence(ctx, cls, specs, opname, reads):
    """Run every history on the real object and on the model state machine and compare each step's output."""
    runs, lines = [], []
    for spec in specs:
        try:
            h = cls(spec)
            toks = h.model_line()
            steps = []
            for op in spec['ops']:
                mt = h.model_tokens(op)         # before the op: refers to the state the op meets
                status, vals = h.apply(op)
                if mt is not None:
                    toks += mt
                    steps.append((op, status, vals))
        except _Diverged:
            ctx.count('hist_diverged')
            continue
        except Exception as e:
            ctx.disagree(opname, {'case': spec}, 'history executes', 'harness/implementation exception %s: %s'
                         % (type(e).__name__, e))
            continue
        runs.append((spec, steps))
        lines.append(' '.join(toks))
    outs = ctx.driver().run(lines)
    for (spec, steps), line, out in zip(runs, lines, outs):
        mouts = [x.strip() for x in out.split('|')] if steps else []
        ctx.compared += len(steps)
        ctx.count('op:' + opname, len(steps))
        ctx.case((opname, line), nontrivial=True)
        if len(mouts) != len(steps):
            ctx.disagree(opname, {'case': spec}, out[:300], '%d steps' % len(steps))
            continue
        for k, ((op, status, vals), mo) in enumerate(zip(steps, mouts)):
            mstatus = mo.split()[0] if mo else ''
            ok = _status_match(mstatus, status)
            if ok and status == 'ok' and op[0] in reads:
                try:
                    mv = [unb(t) for t in mo.split()[1:]]
                    ok = len(mv) == len(vals) and all(close(a, float(b), RTOL, 1e-7) for a, b in zip(mv, vals))
                except (ValueError, TypeError):
                    ok = False
            if not ok:
                ctx.disagree(opname, {'case': dict(spec, ops=spec['ops']), 'step': k, 'op': op},
                             mo[:200], '%s %s' % (status, '' if vals is None else repr(vals[:6])))
                break
    if lines:
        ctx.sample({'op': opname, 'request': lines[0][:400], 'model': outs[0][:400]})


# ---- process-order independence ---------------------------------------------------------------------

_ORDER_CHILD = ('import sys, json; sys.path.insert(0, sys.argv[1]); sys.path.insert(0, sys.argv[2]); '
                'from harness.props import c10; c10._order_child()')


def _order_child():
    """Child process: evaluate the cases read from stdin IN THE GIVEN ORDER, print the results."""
    import sys
    cases = json.load(sys.stdin)
    out = []
    for op, inp in cases:
        try:
            r = check_case(op, inp)
        except Exception as e:
            r = {'required': 'oracle evaluates', 'observed': 'exception %s: %s' % (type(e).__name__, e),
                 'sig': {'exception': type(e).__name__}}
        out.append(r)
    sys.stdout.write(json.dumps(out, default=str))


def _run_order(cases, timeout=600):
    """Evaluate `cases` in this order in a FRESH Python process -> list of results (None = holds)."""
    import os
    import subprocess
    import sys
    p = subprocess.run([sys.executable, '-c', _ORDER_CHILD, core.ROOT, core.REPO],
                       input=json.dumps(cases, default=str).encode('utf-8'), stdout=subprocess.PIPE,
                       stderr=subprocess.PIPE, timeout=timeout, env=dict(os.environ))
    if p.returncode != 0:
        return [{'required': 'the cases evaluate in a fresh process', 'observed': 'child process failed: %s'
                 % p.stderr.decode('utf-8', 'replace')[-600:], 'sig': {'clause': 'order_child_crashed'}}]
    return json.loads(p.stdout.decode('utf-8'))


def _check_order(inp):
    """Replay of a process-order failure: the stored order in a fresh process; the last case must hold."""
    res = _run_order(inp['order'])
    for i, r in enumerate(res):
        if r:
            op = inp['order'][i][0] if i < len(inp['order']) else '?'
            sig = dict(r.get('sig') or {}, inner_op=op, clause_order='process_order')
            return {'required': 'case %d (%s) of this order holds as it does in a process of its own: %s'
                    % (i, op, r.get('required')), 'observed': r.get('observed'), 'sig': sig}
    return None


def _rarity(case):
    """Sort key putting the rare classes first (leap / day 366 / failing calls / sub-hourly)."""
    s = json.dumps(case, default=str)
    score = 0
    for mark, w in (('"doy": 366', 8), ('"leap": true', 6), ('366', 2), ('bad_', 5), ('"timestep": 1,', -1),
                    ('hist_', 3), ('true', 1)):
        if mark in s:
            score -= w
    return score


def _order_slice(ctx):
    """A slice of the oracle stream evaluated in fresh processes, each with another order of the cases."""
    rng = ctx.rng
    cases = []
    for name in SKY_MODELS:
        for doy in (366, 365, 1, 60):
            p = _params(rng, name)
            if 'doy' in p:
                p['doy'] = doy
            cases.append(('day_physical', {'model': name, 'alt': gen_alt(rng, up=True), 'params': p}))
        cases.append(('night_zero', {'model': name, 'alt': gen_alt(rng, up=False), 'params': _params(rng, name)}))
    for sc in (1366.1, 1000.0):
        cases.append(('extra_range', {'sc': sc}))
    cases.append(('extra_day', {'doy': 366, 'sc': 1366.1}))
    cases.append(('extra_day', {'doy': 1, 'sc': 1366.1}))
    for m in AM_MODELS:
        cases.append(('airmass_zenith', {'model': m}))
        a1 = rng.uniform(5, 80)
        cases.append(('airmass_monotone', {'model': m, 'a1': a1, 'a2': a1 + rng.uniform(0.5, 9)}))
    cases.append(('airmass_agree', {'alt': rng.uniform(10, 90)}))
    for name in ('ashrae_clear_sky', 'ashrae_revised_clear_sky'):
        for _ in range(4):
            a1, a2 = sorted([rng.uniform(0.5, 89), rng.uniform(0.5, 89)])
            cases.append(('clear_monotone', {'model': name, 'params': _params(rng, name), 'a1': a1, 'a2': a2}))
    db = rng.uniform(-20, 40)
    cases.append(('skytemp_inverse', {'emissivity': 0.9, 't_kelvin': 280.0, 'sky_cover': 4, 'db': db, 'dp': db - 5}))
    for leap in (True, False):
        w = _corpus_wea(-33.9, 151.2, 10, 12, 31, rng.choice([1, 2]), leap, rng.random() < 0.5)
        cases.append(('closure_wea', {'wea': w}))
        cases.append(('surface_wea', {'wea': w, 'surface': [90, 0, 0.2, True]}))
    for _ in range(3):
        cases.append(('hist_wea', _gen_wea_hist(rng, nops=4)))
        cases.append(('hist_sky', _gen_sky_hist(rng)))
    cases.append(('wea_constructor', {'lat': -33.9, 'lon': 151.2, 'tz': 10, 'kind': 'zhang_huang', 'leap': True,
                                      'month': 12, 'day': 31, 'use_disc': False, 'cc': 3, 'rh': 55, 't': 24,
                                      'ws': 3}))
    cases.append(('closure_designday', {'lat': 40.7, 'lon': -74.0, 'tz': -5, 'month': 6, 'day': 21, 'dls': True,
                                        'sky': 'clear', 'clearness': 1}))
    cases = [list(c) for c in cases]
    orders = [sorted(cases, key=_rarity), list(reversed(sorted(cases, key=_rarity)))]
    sh = list(cases)
    rng.shuffle(sh)
    dup = []
    for c in sh:                                  # the same question twice in a row
        dup += [c, c] if rng.random() < 0.3 else [c]
    orders.append(dup)
    for order in orders[:3 if ctx.quick else 4]:
        ctx.count('order_processes')
        res = _run_order(order)
        for i, r in enumerate(res):
            ctx.count('oracle:order_case')
            ctx.case(('order', i, json.dumps(order[i] if i < len(order) else None, sort_keys=True, default=str)))
            if not r:
                continue
            op, inp = order[i] if i < len(order) else ('order', {})
            alone = _run_order([order[i]]) if i < len(order) else [r]
            if alone and alone[0]:
                # fails in a process of its own too: an ordinary failing input
                ctx.fail(op, inp, r.get('required'), r.get('observed'), r.get('sig'))
            else:
                prefix = order[:i + 1]
                # shrink: drop halves of the prefix while the last case still fails
                lo = 0
                while len(prefix) - lo > 2:
                    mid = lo + (len(prefix) - 1 - lo) // 2
                    cand = prefix[mid:]
                    rr = _run_order(cand)
                    if len(rr) == len(cand) and rr[-1]:
                        prefix, lo = cand, 0
                    else:
                        break
                sig = dict(r.get('sig') or {}, inner_op=op, clause_order='process_order')
                ctx.fail('order', {'order': prefix}, 'the last case holds as it does in a process of its own: %s'
                         % (r.get('required'),), r.get('observed'), sig)
            break


# =============================================================================================
# round 4: input shapes / one-shot iterables, aliasing, sibling forms, conventions between modules, numeric
# edges, rare branches.
#
# Branches of the anchored functions (counted as `branch:<function>:<branch>` by _count_branches; `x` = not
# reachable through the public API):
#   ashrae_clear_sky ............ night (alt <= 0) | day | overflow (exp overflow at alt < 0.0114 deg -> 0)
#   ashrae_revised_clear_sky .... night | day  x  coefficients 2009 | 2017
#   zhang_huang_solar ........... night | day | clamp (regression negative -> 0)
#   zhang_huang_solar_split ..... dirint | disc
#   estimate_illuminance ........ night | dhi0 (dhi == 0 -> 0.1) | eps category 0..7 | eps<1 (ValueError) |
#                                 airmass given | airmass None
#   dirint ...................... delta on | off, dew given | None, len 1 (IndexError fall-back AND index -1),
#                                 altitude bins 0..5
#   disc ........................ below_min_altitude | ghi<=0 | pressure None | computed;  _disc_kn kt<=0.6 | >0.6
#   clearness_index_zenith_independent .. airmass None | given;  get_absolute_airmass None | given
#   get_relative_airmass ........ below horizon (None) | each of the 7 formulas | unknown name (ValueError)
#   Wea.directional_irradiance .. isotropic | anisotropic (clamp 0.45 | above), sun down | behind the surface | lit
#   Wea.datetimes ............... half hour (timestep 1, not enforced) | on the step
#   Wea._aligned_collection ..... continuous | discontinuous
#   _SkyCondition._get_datetimes  daylight savings | standard  x  timestep 1 (half hour) | sub-hourly
#   Wea.from_zhang_huang_solar .. pressure None | given; first 3 hours (dry bulb of 3 h before wraps to the END
#                                 of the data) | later hours
#
# Every sequence argument is passed as list / tuple / deque / array / list subclass (must be accepted and give
# the list's values) and as generator / iter / map / reversed / filter (the list's values or a TypeError); every
# returned container is edited in place and the question asked again; two results are kept across a later call;
# every class / constructor form of sky condition, design day and Wea is exercised and compared with the directly
# constructed sibling.


class _ListSub(list):
    pass


SEQ_SHAPES = ('tuple', 'deque', 'array', 'listsub')
ONE_SHOT = ('gen', 'iter', 'map', 'reversed', 'filter')


def _shape(name, xs):
    import array
    import collections
    xs = list(xs)
    if name == 'list':
        return xs
    if name == 'tuple':
        return tuple(xs)
    if name == 'gen':
        return (v for v in xs)
    if name == 'iter':
        return iter(xs)
    if name == 'map':
        return map(lambda v: v, xs)
    if name == 'reversed':
        return reversed(xs[::-1])
    if name == 'filter':
        return filter(lambda v: True, xs)
    if name == 'deque':
        return collections.deque(xs)
    if name == 'array':
        return array.array('d', [float(v) for v in xs])
    if name == 'listsub':
        return _ListSub(xs)
    raise ValueError('unknown shape ' + name)


def _shape_args(fn, p):
    """(sequence arguments as lists, call(list of sequence arguments) -> result) of one list-taking function."""
    from ladybug import skymodel as sm
    if fn == 'cs':
        return [list(p['alts'])], lambda a: sm.ashrae_clear_sky(a[0], p['month'], p['clearness'])
    if fn == 'rcs':
        return [list(p['alts'])], lambda a: sm.ashrae_revised_clear_sky(a[0], p['tb'], p['td'], p['use2017'])
    if fn == 'zhs':
        cols = [list(c) for c in zip(*p['rows'])]
        return cols, lambda a: sm.zhang_huang_solar_split(a[0], a[1], a[2], a[3], a[4], a[5], a[6], a[7],
                                                          p['use_disc'])
    if fn == 'dirint':
        cols = [list(p['ghi']), list(p['alts']), list(p['doys']), list(p['pres']), list(p['dew'])]
        return cols, lambda a: sm.dirint(a[0], a[1], a[2], a[3], use_delta_kt_prime=p['ud'], temp_dew=a[4])
    raise ValueError('unknown function ' + fn)


def _norm_res(fn, r):
    return [list(r)] if fn == 'dirint' else [list(x) for x in r]


def _eq_lists(a, b):
    return len(a) == len(b) and all(len(x) == len(y) and all(_same(u, v, 0) for u, v in zip(x, y))
                                    for x, y in zip(a, b))


def _gen_shape_params(rng, fn, n=None):
    n = n if n is not None else rng.choice([1, 2, 3, 8, 24])
    alts = [rng.choice([gen_alt(rng), gen_alt(rng), int(gen_alt(rng))]) for _ in range(n)]
    if fn == 'cs':
        return {'alts': alts, 'month': rng.randrange(1, 13), 'clearness': rng.choice([1, 1.0, 0.5, 1.2])}
    if fn == 'rcs':
        return {'alts': alts, 'tb': rng.uniform(0.2, 0.8), 'td': rng.uniform(1.5, 2.8), 'use2017': rng.random() < 0.5}
    if fn == 'zhs':
        rows = []
        doy, p0 = rng.randrange(1, 367), gen_pressure(rng)
        for a in alts:
            cc, rh, t, t3, ws = gen_weather(rng)
            rows.append([a, doy, cc, rh, t, t3, ws, p0])
        return {'rows': rows, 'use_disc': rng.random() < 0.5}
    if fn == 'dirint':
        return {'ghi': [max(0.0, 1000 * math.sin(math.radians(max(a, 0))) * rng.random()) for a in alts],
                'alts': alts, 'doys': [rng.randrange(1, 367)] * n, 'pres': [gen_pressure(rng)] * n,
                'dew': [rng.uniform(-30, 28) for _ in alts], 'ud': rng.random() < 0.7}
    raise ValueError(fn)


def _check_shapes(inp):
    """The list-taking sky models: the answer does not depend on the container the numbers come in, element i
    depends on altitude i only, results are containers of their own, arguments are left alone."""
    import copy
    fn, shape, p = inp['fn'], inp['shape'], inp['params']
    cols, call = _shape_args(fn, p)
    n = len(cols[0])

    def sig(clause, **kw):
        return dict({'clause': clause, 'fn': fn, 'shape': shape}, **kw)

    try:
        base = _norm_res(fn, call([list(c) for c in cols]))
    except Exception as e:
        return {'required': 'values for %d altitudes given as lists' % n,
                'observed': 'raises %s: %s' % (type(e).__name__, e), 'sig': sig('finite', raises=type(e).__name__)}
    if any(len(x) != n for x in base):
        return {'required': 'one value per altitude (%d)' % n, 'observed': [len(x) for x in base],
                'sig': sig('length')}
    if shape == 'alias':
        args1 = [list(c) for c in cols]
        keep = copy.deepcopy(args1)
        r1 = call(args1)
        conts = [r1] if fn == 'dirint' else list(r1)
        ids = [id(c) for c in conts] + [id(a) for a in args1]
        if len(set(ids)) != len(ids):
            return {'required': 'the returned lists are objects of their own (not one another, not an argument)',
                    'observed': 'shared: %r' % [type(c).__name__ for c in conts],
                    'sig': sig('alias', what='shared_container')}
        if args1 != keep:
            return {'required': 'the arguments are left as they were', 'observed': 'arguments modified',
                    'sig': sig('alias', what='input_modified')}
        snap = _norm_res(fn, r1)
        cols2, call2 = _shape_args(fn, inp['params2'])
        r2 = call2([list(c) for c in cols2])
        snap2 = _norm_res(fn, r2)
        conts2 = [r2] if fn == 'dirint' else list(r2)
        if _norm_res(fn, r1) != snap or set(id(c) for c in conts) & set(id(c) for c in conts2):
            return {'required': 'an earlier result is not changed by a later call: %r' % (snap[0][:4],),
                    'observed': _norm_res(fn, r1)[0][:4], 'sig': sig('alias', what='later_call_changes_result')}
        for c in conts:
            if isinstance(c, list):
                c[:] = [-7.0] * len(c)
                c.append(-8.0)
        r3 = _norm_res(fn, call([list(c) for c in cols]))
        if not _eq_lists(r3, snap) or _norm_res(fn, r2) != snap2:
            return {'required': 'editing a returned list does not change the next answer: %r' % (snap[0][:4],),
                    'observed': r3[0][:4], 'sig': sig('alias', what='edit_leaks')}
    elif shape != 'list':
        which = inp.get('which')
        args = [_shape(shape, c) if which is None or which == k else list(c) for k, c in enumerate(cols)]
        try:
            got = _norm_res(fn, call(args))
        except TypeError as e:
            if shape in ONE_SHOT:
                return None                   # refused: the documented argument type is a list
            return {'required': 'a %s of the same numbers is accepted like a list' % shape,
                    'observed': 'raises TypeError: %s' % e, 'sig': sig('shape_independent', raises='TypeError')}
        except Exception as e:
            return {'required': 'a %s of the same numbers is accepted like a list' % shape,
                    'observed': 'raises %s: %s' % (type(e).__name__, e),
                    'sig': sig('shape_independent', raises=type(e).__name__)}
        if not _eq_lists(got, base):
            return {'required': 'the values computed from the same numbers given as a list: %d x %r ...'
                    % (n, [x[:3] for x in base]), 'observed': '%r x %r ...' % ([len(x) for x in got],
                                                                               [x[:3] for x in got]),
                    'sig': sig('shape_independent')}
    if fn in ('cs', 'rcs'):
        for i in range(n):
            one = _norm_res(fn, call([[cols[0][i]]]))
            if not all(_same(one[k][0], base[k][i], 0) for k in range(2)):
                return {'required': 'element %d is the answer for altitude %r alone: %r' % (
                    i, cols[0][i], [one[0][0], one[1][0]]), 'observed': [base[0][i], base[1][i]],
                    'sig': sig('pointwise')}
    return None


# ---- sibling forms of sky conditions / design days ---------------------------------------------------

SKY_FORMS = ('direct', 'dict', 'base_dict', 'json', 'period', 'dup', 'dd', 'dd_dict', 'dd_props', 'dd_idf',
             'dd_dup')


def _sky_alts(loc, m, d, leap, dls, ts):
    start = (_doy(m, d, leap) - 1) * 1440 - (60 if dls else 0) + (30 if ts == 1 else 0)
    return [_sun_at(tuple(loc), False, start + (i * (1 / ts) * 60), leap)[0] for i in range(24 * ts)]


def _sky_build(inp, form):
    from ladybug.designday import DesignDay, DryBulbCondition, HumidityCondition, WindCondition, \
        ASHRAEClearSky, ASHRAETau, _SkyCondition
    from ladybug.dt import Date
    from ladybug.analysisperiod import AnalysisPeriod
    m, d, leap, dls = inp['month'], inp['day'], bool(inp['leap']), bool(inp['dls'])
    clear = inp['sky'] == 'clear'
    date = Date(m, d, leap)
    if clear:
        sky = ASHRAEClearSky(date, inp['clearness'], dls)
    else:
        sky = ASHRAETau(date, inp['tb'], inp['td'], inp['use2017'], dls)
    loc = _mk_location(*inp['loc'])
    if form == 'direct':
        return sky, None
    if form == 'dict':
        return type(sky).from_dict(sky.to_dict()), None
    if form == 'base_dict':
        return _SkyCondition.from_dict(sky.to_dict()), None
    if form == 'json':
        return type(sky).from_dict(json.loads(json.dumps(sky.to_dict()))), None
    if form == 'period':
        ap = AnalysisPeriod.from_string('%d/%d to %d/%d between 0 and 23 @1%s' % (m, d, m, d, '*' if leap else ''))
        if clear:
            return ASHRAEClearSky.from_analysis_period(ap, inp['clearness'], dls), None
        return ASHRAETau.from_analysis_period(ap, inp['tb'], inp['td'], inp['use2017'], dls), None
    if form == 'dup':
        return sky.duplicate(), None
    dd = DesignDay('c10', 'SummerDesignDay', loc, DryBulbCondition(30, 10),
                   HumidityCondition('Wetbulb', 20, 101325), WindCondition(2, 0), sky)
    if form == 'dd_dict':
        dd = DesignDay.from_dict(json.loads(json.dumps(dd.to_dict())))
    elif form == 'dd_dup':
        dd = dd.duplicate()
    elif form == 'dd_idf':
        dd = DesignDay.from_idf(dd.to_idf(), loc)
    elif form == 'dd_props':
        model = 'ASHRAEClearSky' if clear else 'ASHRAETau2017' if inp['use2017'] else 'ASHRAETau'
        props = [inp['clearness']] if clear else [inp['tb'], inp['td']]
        dd = DesignDay.from_design_day_properties('c10', 'SummerDesignDay', loc, date, 30, 10, 'Wetbulb', 20,
                                                  101325, 2, 0, model, props)
        dd.sky_condition.daylight_savings = dls
    elif form != 'dd':
        raise ValueError('unknown form ' + form)
    return dd.sky_condition, dd


def _check_sky_forms(inp):
    form, ts, kind = inp['form'], inp.get('ts', 1), inp['sky']

    def fail(required, observed, clause, **kw):
        return {'required': required, 'observed': observed,
                'sig': dict({'clause': clause, 'form': form, 'sky': kind}, **kw)}

    try:
        sky, dd = _sky_build(inp, form)
        ref_sky, _ = _sky_build(inp, 'direct')
        loc = _mk_location(*inp['loc'])
        if dd is not None and ts == 1:
            vals = [list(c.values) for c in dd.hourly_solar_radiation]
        else:
            vals = [list(x) for x in sky.radiation_values(loc, ts)]
        ref = [list(x) for x in ref_sky.radiation_values(_mk_location(*inp['loc']), ts)]
    except Exception as e:
        return fail('irradiance of the %s sky built as %r' % (kind, form),
                    'raises %s: %s' % (type(e).__name__, e), 'finite', raises=type(e).__name__)
    alts = _sky_alts(inp['loc'], inp['month'], inp['day'], inp['leap'], inp['dls'], ts)
    n = len(alts)
    if len(vals) != 3 or any(len(x) != n for x in vals):
        return fail('3 x %d values' % n, [len(x) for x in vals], 'length')
    in_range = (0 <= inp['clearness'] <= 1.2) if kind == 'clear' else (inp['tb'] >= 0.2 and inp['td'] >= 0)
    for i, alt in enumerate(alts):
        dn, dh, gh = vals[0][i], vals[1][i], vals[2][i]
        want = dh + dn * math.sin(math.radians(alt))
        if not _rel(gh, want):
            return fail('ghi = dhi + dni*sin(alt) = %r at index %d (altitude %r)' % (want, i, alt), gh, 'closure')
        if alt <= 0 and (dn != 0 or dh != 0 or gh != 0):
            return fail('zero at altitude %r (index %d)' % (alt, i), (dn, dh, gh), 'night_zero')
        if not _fin([dn, dh, gh]) or (in_range and (dn < 0 or gh < 0)):
            return fail('finite, dni >= 0, ghi >= 0 (index %d)' % i, (dn, dh, gh), 'nonneg')
        if not dn <= _ext_min():
            return fail('clear-sky direct normal <= extraterrestrial (%r)' % _ext_min(), dn, 'le_extraterrestrial')
    if not _eq_lists(vals, ref):
        k = next(((c, i) for c in range(3) for i in range(min(len(vals[c]), len(ref[c])))
                  if not _same(vals[c][i], ref[c][i], 0)), (0, 0))
        return fail('the values of the sky condition constructed directly (column %d, index %d): %r'
                    % (k[0], k[1], ref[k[0]][k[1]]), vals[k[0]][k[1]], 'sibling')
    # aliasing: the three returned lists are objects of their own; editing them does not change the next answer
    raw = sky.radiation_values(loc, ts)
    if len(set(id(x) for x in raw)) != len(raw):
        return fail('direct, diffuse and global lists are three separate objects', 'shared list', 'alias',
                    what='shared_container')
    snap = [list(x) for x in raw]
    for x in raw:
        if isinstance(x, list):
            x[:] = [-7.0] * len(x)
            x.append(-8.0)
    again = [list(x) for x in sky.radiation_values(loc, ts)]
    if not _eq_lists(again, snap):
        return fail('editing a returned list does not change the next answer', 'next answer differs', 'alias',
                    what='edit_leaks')
    if dd is not None:
        cols = dd.hourly_solar_radiation
        for c in cols:
            try:
                c.values = [-7.0] * len(c)
            except Exception:
                pass
        again = [list(c.values) for c in dd.hourly_solar_radiation]
        ref1 = [list(x) for x in sky.radiation_values(loc, 1)]
        if not _eq_lists(again, ref1):
            return fail('editing a returned collection does not change the next answer', 'next answer differs',
                        'alias', what='edit_leaks_designday')
    return None


# ---- sibling forms of a Wea ----------------------------------------------------------------------------

WEA_FORMS = ('direct', 'period_string', 'str_location', 'tuple_values', 'dict', 'json', 'dup', 'filter_ap',
             'filter_moys', 'filter_hoys', 'filter_pattern', 'unsorted')


def _wea_form_build(inp):
    """-> (wea, moys, dnr, dhr): the Wea in the asked form and the steps / values it must hold."""
    from ladybug.wea import Wea
    from ladybug.location import Location
    from ladybug.analysisperiod import AnalysisPeriod
    from ladybug.datacollection import HourlyContinuousCollection, HourlyDiscontinuousCollection
    from ladybug.header import Header
    from ladybug.datatype.energyflux import DirectNormalIrradiance, DiffuseHorizontalIrradiance
    form = inp['form']
    lat, lon, tz = inp['loc']
    m, d, nd, ts, leap = inp['month'], inp['day'], inp['ndays'], inp['timestep'], bool(inp['leap'])
    n = nd * 24 * ts
    dnr, dhr = list(inp['dnr'])[:n], list(inp['dhr'])[:n]
    moy0 = (_doy(m, d, leap) - 1) * 1440
    moys = [moy0 + i * 60 // ts for i in range(n)]
    loc = _mk_location(lat, lon, tz)
    if form == 'str_location':
        loc = Location('c10', latitude=repr(float(lat)), longitude=repr(float(lon)), time_zone=repr(float(tz)))

    def period(days):
        em, ed = _end_date(m, d, days, leap)
        return AnalysisPeriod(m, d, 0, em, ed, 23, ts, leap)

    def mk(ap, a, b):
        return Wea(loc, HourlyContinuousCollection(Header(DirectNormalIrradiance(), 'W/m2', ap), a),
                   HourlyContinuousCollection(Header(DiffuseHorizontalIrradiance(), 'W/m2', ap), b))

    ap = period(nd)
    if form == 'period_string':
        ap = AnalysisPeriod.from_string(str(ap))
    if form.startswith('filter_'):
        extra = 24 * ts
        wide = mk(period(nd + 1), dnr + [999.0] * extra, dhr + [888.0] * extra)
        if form == 'filter_ap':
            w = wide.filter_by_analysis_period(ap)
        elif form == 'filter_moys':
            w = wide.filter_by_moys(list(moys))
        elif form == 'filter_hoys':
            w = wide.filter_by_hoys([x / 60.0 for x in moys])
        else:
            w = wide.filter_by_pattern([True] * n + [False] * extra)
    elif form == 'unsorted':
        order = list(inp['order'])
        dts = list(ap.datetimes)
        sel = [dts[i % n] for i in order]
        moys = [moys[i % n] for i in order]
        dnr, dhr = [dnr[i % n] for i in order], [dhr[i % n] for i in order]
        w = Wea(loc, HourlyDiscontinuousCollection(Header(DirectNormalIrradiance(), 'W/m2', ap), dnr, sel),
                HourlyDiscontinuousCollection(Header(DiffuseHorizontalIrradiance(), 'W/m2', ap), dhr, sel))
    elif form == 'tuple_values':
        w = mk(ap, tuple(dnr), tuple(dhr))
    else:
        w = mk(ap, list(dnr), list(dhr))
    if form == 'dict':
        w = Wea.from_dict(w.to_dict())
    elif form == 'json':
        w = Wea.from_dict(json.loads(json.dumps(w.to_dict())))
    elif form == 'dup':
        w = w.duplicate()
    if inp.get('enforce'):
        w.enforce_on_hour = True
    return w, moys, dnr, dhr


def _check_wea_forms(inp):
    form = inp['form']
    ts, enforce, leap = inp['timestep'], bool(inp.get('enforce')), bool(inp['leap'])

    def fail(required, observed, clause, **kw):
        return {'required': required, 'observed': observed,
                'sig': dict({'clause': clause, 'form': form, 'timestep': ts, 'leap': leap}, **kw)}

    try:
        w, moys, dnr, dhr = _wea_form_build(inp)
        ghi = list(w.global_horizontal_irradiance.values)
        dho = list(w.direct_horizontal_irradiance.values)
        got_dnr = list(w.direct_normal_irradiance.values)
        got_dhr = list(w.diffuse_horizontal_irradiance.values)
    except Exception as e:
        return fail('a Wea built as %r answers' % form, 'raises %s: %s' % (type(e).__name__, e), 'finite',
                    raises=type(e).__name__)
    n = len(moys)
    if not (len(ghi) == len(dho) == len(got_dnr) == n):
        return fail('%d steps' % n, (len(ghi), len(dho), len(got_dnr)), 'length')
    if not (_eq_lists([got_dnr], [dnr]) and _eq_lists([got_dhr], [dhr])):
        return fail('the Wea holds the irradiance values it was given', 'other values', 'sibling')
    half = 30 if (ts == 1 and not enforce) else 0
    suns = [_sun_at(tuple(inp['loc']), leap, mo + half) for mo in moys]
    for i, (alt, _az) in enumerate(suns):
        s = math.sin(math.radians(alt))
        if not _rel(ghi[i], dhr[i] + dnr[i] * s):
            return fail('ghi = dhi + dni*sin(alt) = %r at step %d (minute of year %d, altitude %r)'
                        % (dhr[i] + dnr[i] * s, i, moys[i] + half, alt), ghi[i], 'closure')
        if not _rel(dho[i], dnr[i] * s):
            return fail('direct horizontal = dni*sin(alt) = %r at step %d' % (dnr[i] * s, i), dho[i],
                        'direct_horizontal')
    ups = [i for i, s_ in enumerate(suns) if s_[0] > 0]
    try:
        cols = [list(c.values) for c in w.directional_irradiance(90, inp.get('az', 180), inp.get('refl', 0.2),
                                                                 inp.get('iso', True))]
        for i in range(n):
            if not _rel(cols[0][i], cols[1][i] + cols[2][i] + cols[3][i]):
                return fail('total = direct + diffuse + reflected at step %d' % i, cols[0][i], 'total_sum')
            if suns[i][0] > 0 and not _rel(cols[0][i], ghi[i], 1e-9, 1e-7):
                return fail('upward surface total = global horizontal = %r at step %d' % (ghi[i], i), cols[0][i],
                            'up_surface')
        if ups:
            k = ups[inp.get('face', 0) % len(ups)]
            dr = list(w.directional_irradiance(suns[k][0], suns[k][1], 0.2, True)[1].values)
            if not _rel(dr[k], dnr[k], 1e-9, 1e-7):
                return fail('surface facing the sun of step %d (alt %r, az %r) receives dni = %r'
                            % (k, suns[k][0], suns[k][1], dnr[k]), dr[k], 'facing_sun')
    except Exception as e:
        return fail('directional irradiance of a Wea built as %r' % form,
                    'raises %s: %s' % (type(e).__name__, e), 'finite', raises=type(e).__name__)
    return None


def _gen_wea_form(rng, form=None):
    form = form or rng.choice(WEA_FORMS)
    lat, lon, tz = rng.choice(gen_locations(rng))
    leap = rng.random() < 0.4
    ts = rng.choice([1, 1, 2, rng.choice(TIMESTEPS)])
    nd = 1 if ts > 4 else rng.choice([1, 2])
    month, day = rng.choice([(2, 27), (2, 28), (12, 30), (rng.randrange(1, 13), rng.randrange(1, 26))])
    if form.startswith('filter_') and (month, day) == (12, 30) and nd == 2:
        nd = 1                                    # the wider Wea of the filter forms must end within the year
    n = nd * 24 * ts
    scale = rng.choice([1, 1, 1, 1e-12, 1e12])
    spec = {'form': form, 'loc': [lat, lon, tz], 'month': month, 'day': day, 'ndays': nd, 'timestep': ts,
            'leap': leap, 'dnr': [scale * rng.choice([0.0, rng.uniform(0, 1000)]) for _ in range(n)],
            'dhr': [scale * rng.choice([0.0, rng.uniform(0, 500)]) for _ in range(n)],
            'enforce': rng.random() < 0.4, 'az': rng.choice([180, 0, rng.uniform(0, 360)]),
            'refl': rng.choice([0.2, 0, rng.random()]), 'iso': rng.random() < 0.6, 'face': rng.randrange(1000)}
    if form == 'unsorted':
        k = rng.randrange(2, 9)
        order = [rng.randrange(n) for _ in range(k)]
        order.append(order[0])                    # one step twice
        spec['order'] = order
    return spec


# ---- Wea.from_zhang_huang_solar against the split evaluated on independently assembled arguments ---------

def _check_wea_zh(inp):
    from ladybug import skymodel as sm
    from ladybug.wea import Wea
    from ladybug.analysisperiod import AnalysisPeriod
    from ladybug.datacollection import HourlyContinuousCollection
    from ladybug.header import Header
    from ladybug.datatype.fraction import TotalSkyCover, RelativeHumidity
    from ladybug.datatype.temperature import DryBulbTemperature
    from ladybug.datatype.speed import WindSpeed
    from ladybug.datatype.pressure import AtmosphericStationPressure
    ts, leap, nd = inp['timestep'], bool(inp['leap']), inp['ndays']
    m, d = inp['month'], inp['day']
    em, ed = _end_date(m, d, nd, leap)
    ap = AnalysisPeriod(m, d, 0, em, ed, 23, ts, leap)
    n = nd * 24 * ts
    sigd = {'clause': 'sibling', 'where': 'wea_zhang_huang_varying', 'pressure': inp['pres'] is not None,
            'use_disc': bool(inp['use_disc'])}

    def coll(dt_, unit, v):
        return HourlyContinuousCollection(Header(dt_, unit, ap), list(v)[:n])
    try:
        pres = None if inp['pres'] is None else coll(AtmosphericStationPressure(), 'Pa', inp['pres'])
        wea = Wea.from_zhang_huang_solar(_mk_location(*inp['loc']), coll(TotalSkyCover(), 'tenths', inp['cc']),
                                         coll(RelativeHumidity(), '%', inp['rh']),
                                         coll(DryBulbTemperature(), 'C', inp['t']),
                                         coll(WindSpeed(), 'm/s', inp['ws']), pres, inp['use_disc'])
        got = [list(wea.direct_normal_irradiance.values), list(wea.diffuse_horizontal_irradiance.values)]
    except Exception as e:
        return {'required': 'a Wea from %d steps of weather' % n, 'observed': 'raises %s: %s'
                % (type(e).__name__, e), 'sig': dict(sigd, clause='finite', raises=type(e).__name__)}
    moy0 = (_doy(m, d, leap) - 1) * 1440
    moys = [moy0 + i * 60 // ts for i in range(n)]
    alts = [_sun_at(tuple(inp['loc']), leap, mo)[0] for mo in moys]
    doys = [mo // 1440 + 1 for mo in moys]
    t = list(inp['t'])[:n]
    t3 = [t[i - 3 * ts] for i in range(n)]            # 3 h earlier; the first 3 h take the END of the data
    p = [101325] * n if inp['pres'] is None else list(inp['pres'])[:n]
    want = sm.zhang_huang_solar_split(alts, doys, list(inp['cc'])[:n], list(inp['rh'])[:n], t, t3,
                                      list(inp['ws'])[:n], p, inp['use_disc'])
    want = [list(want[0]), list(want[1])]
    # round 6: the statement itself on the Wea's two columns, evaluated without the split: direct normal never
    # negative and diffuse + direct*sin(altitude) = the Zhang-Huang global value of the step (also where the
    # diffuse value is negative: thin air, jumping weather)
    if len(got[0]) == n and len(got[1]) == n:
        cc_, rh_, ws_ = list(inp['cc'])[:n], list(inp['rh'])[:n], list(inp['ws'])[:n]
        for i in range(n):
            g = sm.zhang_huang_solar(alts[i], cc_[i], rh_[i], t[i], t3[i], ws_[i])
            clo = got[1][i] + got[0][i] * math.sin(math.radians(alts[i]))
            if not _rel(g, clo, 1e-9, 1e-7):
                return {'required': 'dhi + dni*sin(alt) = zhang_huang_solar = %r at step %d (altitude %r, '
                        'pressure %r)' % (g, i, alts[i], p[i]), 'observed': clo,
                        'sig': dict(sigd, clause='closure')}
            if got[0][i] < 0:
                return {'required': 'dni >= 0 at step %d' % i, 'observed': got[0][i],
                        'sig': dict(sigd, clause='nonneg')}
    for c in range(2):
        if len(got[c]) != n:
            return {'required': '%d values' % n, 'observed': len(got[c]), 'sig': dict(sigd, clause='length')}
        for i in range(n):
            if not _rel(got[c][i], want[c][i], 1e-9, 1e-7):
                return {'required': 'zhang_huang_solar_split on the same weather (column %d, step %d%s): %r'
                        % (c, i, ', dry bulb of 3 h before wraps' if i < 3 * ts else '', want[c][i]),
                        'observed': got[c][i], 'sig': dict(sigd, first_hours=i < 3 * ts)}
    return None


def _wea_zh_active(ctx, cands):
    """Which `wea_zh` inputs lie in the region where the split's diffuse value is negative on some step - decided
    by the Lean model on arguments assembled here (sun altitudes dated by the harness), not by the code under test."""
    from ladybug.psychrometrics import dew_point_from_db_rh
    cases = []
    for inp in cands:
        ts, leap, n = inp['timestep'], bool(inp['leap']), inp['ndays'] * 24 * inp['timestep']
        moy0 = (_doy(inp['month'], inp['day'], leap) - 1) * 1440
        moys = [moy0 + i * 60 // ts for i in range(n)]
        t = list(inp['t'])[:n]
        pr = [101325] * n if inp['pres'] is None else list(inp['pres'])[:n]
        cases.append((bool(inp['use_disc']),
                      [(_sun_at(tuple(inp['loc']), leap, moys[i])[0], moys[i] // 1440 + 1, inp['cc'][i], inp['rh'][i],
                        t[i], t[i - 3 * ts], inp['ws'][i], pr[i], dew_point_from_db_rh(t[i], inp['rh'][i]))
                       for i in range(n)]))
    return _zh_bound_active(ctx, cases)


def _gen_wea_zh(rng, thin=False):
    lat, lon, tz = rng.choice(gen_locations(rng))
    leap = rng.random() < 0.4
    ts = rng.choice([1, 1, 2, 3])
    nd = rng.choice([1, 2])
    if thin:
        # round 6: a station in thin air (30..62 kPa) under a sky that jumps from step to step - the region
        # where the diffuse value derived from global and direct is negative
        ts, nd = rng.choice([1, 1, 2]), 1
        month, day = rng.randrange(1, 13), rng.randrange(1, 28)
        n = 24 * ts
        ws = [gen_bound_rows(rng, 1)[0] for _ in range(n)]
        pr = rng.uniform(30000, 62000)
        return {'loc': [lat, lon, tz], 'leap': leap, 'timestep': ts, 'ndays': nd, 'month': month, 'day': day,
                'cc': [w[2] for w in ws], 'rh': [w[3] for w in ws], 't': [w[4] for w in ws],
                'ws': [w[6] for w in ws], 'pres': [pr] * n, 'use_disc': rng.random() < 0.15}
    month, day = rng.choice([(12, 30), (2, 28), (rng.randrange(1, 13), rng.randrange(1, 27))])
    n = nd * 24 * ts
    ws = [gen_weather(rng) for _ in range(n)]
    return {'loc': [lat, lon, tz], 'leap': leap, 'timestep': ts, 'ndays': nd, 'month': month, 'day': day,
            'cc': [w[0] for w in ws], 'rh': [w[1] for w in ws], 't': [w[2] for w in ws], 'ws': [w[4] for w in ws],
            'pres': None if rng.random() < 0.35 else [rng.uniform(60000, 105000) for _ in range(n)]
            if rng.random() < 0.5 else [rng.uniform(30000, 62000)] * n,
            'use_disc': rng.random() < 0.5}


# ---- branch counters --------------------------------------------------------------------------------------

def _spencer(doy, sc):
    b = (2. * math.pi / 365.) * (doy - 1)
    return sc * (1.00011 + 0.034221 * math.cos(b) + 0.00128 * math.sin(b) + 0.000719 * math.cos(2 * b) +
                 7.7e-05 * math.sin(2 * b))


def _count_branches(ctx, op, c):
    """Which branch of the anchored function an input takes, decided here from the numbers (not by the code)."""
    def hit(name):
        ctx.count('branch:' + name)
    try:
        if op == 'cs':
            month, alt = c[0], c[1]
            if alt <= 0:
                hit('ashrae_clear_sky:night')
            elif 1 <= month <= 12 and 0.186 / math.sin(math.radians(alt)) > 709.0:
                hit('ashrae_clear_sky:overflow_or_near')
            else:
                hit('ashrae_clear_sky:day')
        elif op == 'rcs':
            hit('ashrae_revised_clear_sky:%s:%s' % ('night' if c[0] <= 0 else 'day', '2017' if c[3] else '2009'))
        elif op == 'zh':
            alt, cc, rh, t, t3, ws, irr = c
            if alt <= 0:
                hit('zhang_huang_solar:night')
            else:
                k = cc / 10.0
                g = irr * math.sin(math.radians(alt)) * (0.5598 + 0.4982 * k - 0.6762 * k ** 2 + 0.02842 * (t - t3)
                                                         - 0.00317 * rh + 0.014 * ws) - 17.853
                hit('zhang_huang_solar:%s' % ('clamp' if g < 0 else 'day'))
        elif op == 'illum':
            alt, _ghi, dni, dhi, _dew, am = c
            if alt <= 0:
                hit('illuminance:night')
            else:
                hit('illuminance:airmass_%s' % ('none' if am is None else 'given'))
                if dhi == 0:
                    hit('illuminance:dhi0')
                    dhi = 0.1
                z3 = 1.041 * math.radians(90 - alt) ** 3
                eps = ((dhi + dni) / dhi + z3) / (1 + z3)
                cat = next((k for k, e in enumerate([1.065, 1.23, 1.5, 1.95, 2.8, 4.5, 6.2]) if eps < e), 7)
                hit('illuminance:eps<1' if eps < 1 else 'illuminance:eps_category_%d' % cat)
        elif op == 'disc':
            ghi, alt, doy, p, min_sin, min_alt, _mx = c
            if not alt > min_alt:
                hit('disc:below_min_altitude')
            elif not ghi > 0:
                hit('disc:ghi<=0')
            else:
                hit('disc:pressure_%s' % ('none' if p is None else 'given'))
                kt = ghi / (_spencer(doy, 1370.) * max(math.sin(math.radians(alt)), min_sin))
                hit('disc_kn:kt%s0.6' % ('<=' if min(max(kt, 0), 1) <= 0.6 else '>'))
                # round 6: which of the bounds of the chain is ACTIVE on this input (decided from the numbers)
                ctx.count('bound:clearness_index:kt%s1' % ('>' if kt > 1 else '<='))
                ctx.count('bound:clearness_index:sin_alt%smin_sin' % ('<' if math.sin(math.radians(alt)) < min_sin
                                                                      else '>='))
                kt = min(max(kt, 0), 1)
                z = 90.0 - alt
                am = 1.0 / (math.cos(math.radians(z)) + 0.15 * (93.885 - z) ** -1.253)
                if p is not None:
                    am = am * p / 101325.0
                ctx.count('bound:disc_kn:airmass%smax' % ('>' if am > _mx else '<='))
                am = min(am, _mx)
                if kt <= 0.6:
                    a_, b_, c_ = (0.512 - 1.56 * kt + 2.286 * kt ** 2 - 2.222 * kt ** 3, 0.37 + 0.962 * kt,
                                  -0.28 + 0.932 * kt - 2.048 * kt ** 2)
                else:
                    a_, b_, c_ = (-5.743 + 21.77 * kt - 27.49 * kt ** 2 + 11.56 * kt ** 3,
                                  41.4 - 118.5 * kt + 66.05 * kt ** 2 + 31.9 * kt ** 3,
                                  -47.01 + 184.2 * kt - 222.0 * kt ** 2 + 73.81 * kt ** 3)
                kn = (0.866 - 0.122 * am + 0.0121 * am ** 2 - 0.000653 * am ** 3 + 1.4e-05 * am ** 4) - \
                    (a_ + b_ * math.exp(c_ * am))
                ctx.count('bound:disc:kn%s0' % ('<' if kn < 0 else '>='))
        elif op == 'dirint':
            ud, hd, _ms, _ma, ghi, alts = c[0], c[1], c[2], c[3], c[4], c[5]
            hit('dirint:delta_%s' % ('on' if ud else 'off'))
            hit('dirint:dew_%s' % ('given' if hd else 'none'))
            if len(alts) == 1:
                hit('dirint:single_step')
            for a in alts:
                hit('dirint:alt_bin_%d' % (0 if a > 65 else 1 if a > 50 else 2 if a > 35 else 3 if a > 20 else
                                           4 if a > 10 else 5))
        elif op == 'relam':
            m, a = c
            hit('relative_airmass:%s' % ('below_horizon' if a < 0 else m.lower() if m.lower() in AM_MODELS
                                         else 'unknown_name'))
        elif op == 'ktp':
            hit('kt_prime:airmass_%s' % ('none' if c[1] is None else 'given'))
            if c[1]:
                raw = c[0] / (1.031 * math.exp(-1.4 / (0.9 + 9.4 / c[1])) + 0.1)
                ctx.count('bound:kt_prime:%s' % ('above_max' if raw > c[2] else 'below_0' if raw < 0 else 'inside'))
        elif op == 'absam':
            hit('absolute_airmass:%s' % ('none' if c[0] is None else 'given'))
        elif op == 'dirirr':
            salt, saz, sa, sz, iso = c
            cosi = (math.sin(math.radians(salt)) * math.sin(math.radians(sa)) + math.cos(math.radians(salt)) *
                    math.cos(math.radians(sa)) * math.cos(math.radians(saz - sz)))
            hit('directional:%s' % ('sun_down' if salt <= 0 else 'behind_surface' if cosi <= 0 else 'lit'))
            if iso:
                hit('directional:isotropic')
            else:
                y = 0.55 + 0.437 * cosi + 0.313 * cosi * 0.313 * cosi
                hit('directional:anisotropic_%s' % ('clamp' if y < 0.45 else 'above'))
    except Exception:
        ctx.count('branch:uncounted')


def check_case(op, inp):
    if op == 'hist_wea':
        return _check_hist(inp, _WeaHist, _judge_wea, WEA_READS)
    if op == 'hist_sky':
        return _check_hist(inp, _SkyHist, _judge_sky, SKY_READS)
    if op == 'order':
        return _check_order(inp)
    if op == 'shapes':
        return _check_shapes(inp)
    if op == 'sky_forms':
        return _check_sky_forms(inp)
    if op == 'wea_forms':
        return _check_wea_forms(inp)
    if op == 'wea_zh':
        return _check_wea_zh(inp)
    return _check_basic(op, inp)

replay = check_case

SUBCLAIM_OPS = {'airmass_zenith': 'airmass_about_1_at_zenith', 'airmass_monotone': 'airmass_monotone',
                'airmass_agree': 'airmass_models_agree_above_10deg', 'extra_range': 'extraterrestrial_range',
                'day_physical': 'finite_and_nonnegative'}

FIXED_CORPUS = [
    # known finding: Young & Irvine 1967 turns over below 3.44 deg (example_input of C10-youngirvine-horizon)
    ('airmass_monotone', {'model': 'youngirvine1967', 'a1': 1.0, 'a2': 3.0}),
    # the 'simple' model at the zenith and on the way down (defect repaired by fixes/C10_simple_airmass_radians)
    ('airmass_zenith', {'model': 'simple'}),
    ('airmass_monotone', {'model': 'simple', 'a1': 30.0, 'a2': 60.0}),
    # known finding: Kasten-type corrections make four formulas dip by < 1e-7 within 0.03 deg of the zenith
    ('airmass_monotone', {'model': 'kastenyoung1989', 'a1': 89.98, 'a2': 90.0}),
    ('airmass_agree', {'alt': 45.0}),
    ('night_zero', {'model': 'ashrae_clear_sky', 'alt': 0.0, 'params': {'month': 6, 'clearness': 1}}),
    ('night_zero', {'model': 'disc', 'alt': 2.5, 'params': {'ghi': 50.0, 'doy': 100, 'pressure': 101325}}),
    ('skytemp_inverse', {'emissivity': 0.85, 't_kelvin': 288.15, 'sky_cover': 3, 'db': 15.0, 'dp': 5.0}),
    ('extra_range', {'sc': 1366.1}),
    ('extra_day', {'doy': 366, 'sc': 1366.1}),
    # known finding C10-designday-feb29: DesignDay.analysis_period drops the leap flag of the sky's date
    ('hist_sky', {'sky': 'clear', 'dates': [[2, 29, True], [2, 28, True]], 'locs': [[40.7, -74.0, -5]],
                  'init': {'date': 0, 'dls': False, 'clearness': 1, 'tb': 0.4, 'td': 2.0, 'u': False, 'loc': 0},
                  'ops': [['rad', 0, 1], ['dd']]}),
    # a refused clearness leaves the sky condition as it was (failure path), read before and after
    ('hist_sky', {'sky': 'clear', 'dates': [[3, 21, False]], 'locs': [[-0.18, -78.47, -5]],
                  'init': {'date': 0, 'dls': False, 'clearness': 1.1, 'tb': 0.4, 'td': 2.0, 'u': False, 'loc': 0},
                  'ops': [['rad', 0, 1], ['set_clear', 11], ['rad', 0, 1], ['dd'], ['ir'], ['set_clear', -1],
                          ['dd']]}),
    # read -> new location -> read on ONE Wea (both ways of changing the place), then the flag, then the data
    ('hist_wea', {'locs': [[41.98, -87.92, -6], [-33.87, 151.21, 10], [64.1, -21.9, 0]],
                  'period': {'st': [6, 21], 'end': [6, 21], 'timestep': 1, 'leap': False}, 'pick': None,
                  'dnr': [500.0] * 24, 'dhr': [100.0] * 24, 'sun_up_only': False, 'immutable': False,
                  'ops': [['ghi'], ['dirh'], ['illum', 8.0], ['set_loc', 1], ['ghi'], ['dirh'],
                          ['dirirr', 90, 180, 0.2, True], ['illum', 8.0], ['sunup', 0], ['mut_loc', 2], ['ghi'],
                          ['set_enforce', True], ['ghi'], ['bad_dnr', 'dtype'], ['ghi'], ['item_dnr', 12, 0],
                          ['ghi'], ['dup_ghi'], ['face', 3, 0.2, True]]}),
]
# round 4: one-shot iterables / other containers, aliasing, sibling forms (fixed examples of each class)
_DAY_ALTS = [-40.0, -12.5, 0.0, 3, 10.0, 35.5, 62.25, 90, 48.0, 20, 1e-9, -1.0]
for _fn, _prm in (('cs', {'alts': _DAY_ALTS, 'month': 6, 'clearness': 1}),
                  ('rcs', {'alts': _DAY_ALTS, 'tb': 0.4, 'td': 2.0, 'use2017': False}),
                  ('rcs', {'alts': _DAY_ALTS, 'tb': 0.33, 'td': 2.4, 'use2017': True})):
    for _sh in ('gen', 'iter', 'map', 'tuple', 'alias'):
        FIXED_CORPUS.append(('shapes', {'fn': _fn, 'shape': _sh, 'params': _prm,
                                        'params2': dict(_prm, alts=[a + 1 for a in _DAY_ALTS])}))
for _kind in ('clear', 'tau'):
    for _form in ('direct', 'dd', 'dd_dict', 'period'):
        FIXED_CORPUS.append(('sky_forms', {'sky': _kind, 'form': _form, 'month': 7, 'day': 21, 'leap': False,
                                           'dls': _form == 'dd', 'clearness': 1.1, 'tb': 0.45, 'td': 2.1,
                                           'use2017': False, 'loc': [40.7, -74.0, -5], 'ts': 1}))
for _form in ('period_string', 'dict', 'filter_moys', 'unsorted'):
    FIXED_CORPUS.append(('wea_forms', {'form': _form, 'loc': [-33.9, 151.2, 10], 'month': 2, 'day': 28, 'ndays': 2,
                                       'timestep': 2, 'leap': True, 'dnr': [600.0 + i for i in range(96)],
                                       'dhr': [90.0 + i for i in range(96)], 'enforce': False, 'az': 135,
                                       'refl': 0.3, 'iso': False, 'face': 5, 'order': [30, 5, 70, 22, 30]}))
# real Wea objects: build, set enforce_on_hour (second step), then evaluate -- both flag states, timestep 1 and
# >1, leap / non-leap, northern and southern hemisphere
for _loc, _md, _ts, _leap in (((41.98, -87.92, -6), (6, 21), 1, False), ((-33.9, 151.2, 10), (12, 21), 1, True),
                              ((41.98, -87.92, -6), (3, 20), 2, False), ((-33.9, 151.2, 10), (6, 21), 4, False)):
    for _enf in (False, True):
        _w = _corpus_wea(_loc[0], _loc[1], _loc[2], _md[0], _md[1], _ts, _leap, _enf)
        FIXED_CORPUS.append(('closure_wea', {'wea': _w}))
        FIXED_CORPUS.append(('surface_wea', {'wea': _w, 'surface': [90, 0, 0.2, True]}))
        FIXED_CORPUS.append(('surface_wea', {'wea': _w, 'surface': [0, 0, 0.2, True], 'face_all': True}))
        FIXED_CORPUS.append(('illum_wea', {'wea': _w, 'dew': 8.0}))


def _params(rng, name):
    cc, rh, t, t3, ws = gen_weather(rng)
    if name == 'ashrae_clear_sky':
        return {'month': rng.randrange(1, 13), 'clearness': rng.choice([1, 1.2, 0.5, rng.uniform(0, 1.2)])}
    if name == 'ashrae_revised_clear_sky':
        return {'tb': rng.uniform(0.2, 0.8), 'td': rng.uniform(1.5, 2.8), 'use2017': rng.random() < 0.5}
    if name == 'zhang_huang_solar':
        return {'cc': cc, 'rh': rh, 't': t, 't3': t3, 'ws': ws}
    nb = [gen_alt(rng) for _ in range(rng.choice([1, 3, 5]))]
    if name.startswith('zhang_huang_split'):
        return {'cc': cc, 'rh': rh, 't': t, 't3': t3, 'ws': ws, 'doy': rng.randrange(1, 367),
                'pressure': gen_pressure(rng), 'neighbours': nb}
    if name in ('disc', 'dirint'):
        return {'ghi': rng.choice([rng.uniform(0, 1200), rng.uniform(0, 300), 0.0]), 'doy': rng.randrange(1, 367),
                'pressure': gen_pressure(rng), 'dew': rng.uniform(-30, 28), 'neighbours': nb}
    if name == 'illuminance':
        return {'dhi': rng.choice([0, rng.uniform(1, 500)]), 'dni': rng.choice([0, rng.uniform(0, 1000)]),
                'dew': rng.uniform(-40, 30)}
    raise ValueError(name)


SKY_MODELS = ['ashrae_clear_sky', 'ashrae_revised_clear_sky', 'zhang_huang_solar', 'zhang_huang_split_dirint',
              'zhang_huang_split_disc', 'disc', 'dirint', 'illuminance']


def _oracle_cases(ctx):
    rng = ctx.rng
    big = ctx.searching or not ctx.quick
    for c in FIXED_CORPUS:
        yield c
    for name in SKY_MODELS:
        for _ in range(600 if big else 360):
            yield 'night_zero', {'model': name, 'alt': gen_alt(rng, up=False), 'params': _params(rng, name)}
        if name == 'disc':
            for _ in range(100):    # DISC's own minimum altitude (3 deg): zero below it
                yield 'night_zero', {'model': name, 'alt': rng.choice([3.0, 2.9999, rng.uniform(0, 3)]),
                                     'params': _params(rng, name)}
        for _ in range(3000 if big else 1200):
            yield 'day_physical', {'model': name, 'alt': gen_alt(rng, up=True), 'params': _params(rng, name)}
    for name in ('ashrae_clear_sky', 'ashrae_revised_clear_sky'):
        for _ in range(4000 if big else 1500):
            a1, a2 = sorted([gen_alt(rng, up=True), gen_alt(rng, up=True)])
            if rng.random() < 0.3:
                a2 = min(90.0, a1 + rng.choice([1e-9, 1e-4, 0.01]))
            yield 'clear_monotone', {'model': name, 'params': _params(rng, name), 'a1': a1, 'a2': a2}
    for _ in range(300 if big else 120):
        alts, _g, doys, pres, _d = gen_day_series(rng)
        rows = []
        for a, d, p in zip(alts, doys, pres):
            cc, rh, t, t3, ws = gen_weather(rng)
            rows.append([a, d, cc, rh, t, t3, ws, p])
        yield 'closure_zh', {'rows': rows, 'use_disc': rng.random() < 0.5}
    # round 6: series aimed at the region where the derived diffuse value is negative (a floor on it alone would
    # be active there); the Lean model says which candidates are in the region: all of those are kept, and a
    # share of the others; both variants of the split are asked on every kept series
    from ladybug.psychrometrics import dew_point_from_db_rh
    cand = [gen_bound_rows(rng) for _ in range(2400 if big else 900)]
    act = _zh_bound_active(ctx, [(False, [tuple(r) + (dew_point_from_db_rh(r[4], r[3]),) for r in rows])
                                 for rows in cand]) if ctx.driver_ok else [None] * len(cand)
    for k, (rows, a) in enumerate(zip(cand, act)):
        if a or k % 3 == 0:
            ctx.count('bound:zh_split:%s' % ('unknown' if a is None else 'dhi<0' if a else 'dhi>=0'))
            yield 'closure_zh', {'rows': rows, 'use_disc': False, 'both': True}
    for _ in range(60 if big else 24):
        spec = _wea_spec(rng)
        yield 'closure_wea', {'wea': spec}
        yield 'surface_wea', {'wea': spec, 'surface': [90, rng.choice([0, 180, rng.uniform(0, 360)]),
                                                       rng.choice([0.2, rng.random()]), rng.random() < 0.6]}
        yield 'surface_wea', {'wea': spec, 'surface': [rng.uniform(-90, 90), rng.uniform(0, 360), rng.random(),
                                                       rng.random() < 0.5]}
        yield 'surface_wea', {'wea': spec, 'surface': [0, 0, 0.2, True], 'face_step': rng.randrange(1000)}
        yield 'surface_wea', {'wea': spec, 'surface': [90, 0, 0.2, True]}
        yield 'surface_wea', {'wea': spec, 'surface': [0, 0, 0.2, True], 'face_all': True, 'face_limit': 12}
        yield 'illum_wea', {'wea': spec, 'dew': rng.uniform(-30, 28)}
        if rng.random() < 0.5:
            # round 6: a Wea holding what the Zhang-Huang split really returns in thin air - NEGATIVE diffuse values
            # by day (and direct values at night): global < direct horizontal, global < 0; the relations of the
            # statement hold there as everywhere, a bound on one derived quantity alone does not
            neg = dict(spec, dhr=[-rng.uniform(0, 200) if rng.random() < 0.4 else v for v in spec['dhr']],
                       dnr=[0.0 if rng.random() < 0.2 else v for v in spec['dnr']])
            ctx.count('bound:wea:negative_diffuse_values')
            yield 'closure_wea', {'wea': neg}
            yield 'surface_wea', {'wea': neg, 'surface': [90, 0, rng.choice([0.2, rng.random()]), rng.random() < 0.6]}
            yield 'surface_wea', {'wea': neg, 'surface': [rng.uniform(-90, 90), rng.uniform(0, 360), rng.random(),
                                                          rng.random() < 0.5]}
    # histories on one object: reads in any order and repeated, every setter, refused operations in between
    n_hist = 500 if not ctx.quick else 150 if big else 70
    for _ in range(n_hist):
        yield 'hist_wea', _gen_wea_hist(rng, ctx)
    for _ in range(n_hist):
        yield 'hist_sky', _gen_sky_hist(rng, ctx)
    # round 4: container shapes / aliasing of the list-taking models, sibling forms of skies, design days, Weas
    for fn in ('cs', 'rcs', 'zhs', 'dirint'):
        for shape in ('list', 'alias') + SEQ_SHAPES + ONE_SHOT:
            for _ in range(6 if big else 3):
                prm = _gen_shape_params(rng, fn)
                inp = {'fn': fn, 'shape': shape, 'params': prm, 'params2': _gen_shape_params(rng, fn)}
                if shape not in ('list', 'alias') and fn in ('zhs', 'dirint') and rng.random() < 0.5:
                    inp['which'] = rng.randrange(8 if fn == 'zhs' else 5)     # only ONE argument in this shape
                ctx.count('shape:%s:%s' % (fn, shape))
                yield 'shapes', inp
    for form in SKY_FORMS:
        for kind in ('clear', 'tau'):
            for _ in range(4 if big else 2):
                leap = rng.random() < 0.3 and form != 'dd_idf'       # the IDF text has no leap-year field
                lat, lon, tz = rng.choice(gen_locations(rng))
                ctx.count('sky_form:%s:%s' % (kind, form))
                yield 'sky_forms', {'sky': kind, 'form': form, 'month': rng.randrange(1, 13),
                                    'day': rng.randrange(1, 28), 'leap': leap, 'dls': rng.random() < 0.4,
                                    'clearness': rng.choice([1, 0, 1.2, rng.uniform(0, 1.2)]),
                                    'tb': rng.uniform(0.2, 0.8), 'td': rng.uniform(1.5, 2.8),
                                    'use2017': rng.random() < 0.5, 'loc': [lat, lon, tz],
                                    'ts': rng.choice([1, 1, 2, 3, 4, 12])}
    for form in WEA_FORMS:
        for _ in range(8 if big else 3):
            ctx.count('wea_form:' + form)
            yield 'wea_forms', _gen_wea_form(rng, form)
    for _ in range(40 if big else 12):
        inp = _gen_wea_zh(rng)
        ctx.count('branch:wea_zhang_huang:pressure_%s' % ('none' if inp['pres'] is None else 'given'))
        yield 'wea_zh', inp
    cand = [_gen_wea_zh(rng, thin=True) for _ in range(600 if big else 300)]
    act = _wea_zh_active(ctx, cand) if ctx.driver_ok else [None] * len(cand)
    for k, (inp, a) in enumerate(zip(cand, act)):
        if a or k % 8 == 0:
            ctx.count('bound:wea_zhang_huang:%s' % ('unknown' if a is None else 'dhi<0' if a else 'dhi>=0'))
            yield 'wea_zh', inp
    # rare day numbers / solar constants of the extraterrestrial irradiance, one by one
    for doy in [1, 2, 59, 60, 61, 365, 366, 100.5, 365.99] + [rng.randrange(1, 367) for _ in range(40)]:
        yield 'extra_day', {'doy': doy, 'sc': rng.choice([1366.1, 1366.1, 1355, 1000.0])}
    # Wea.from_zhang_huang_solar: the consumer of the split (leap years incl. 29 Feb and day 366, both splits)
    for _ in range(24 if big else 8):
        lat, lon, tz = rng.choice(gen_locations(rng))
        leap = rng.random() < 0.6
        month, day = rng.choice([(12, 31), (2, 29 if leap else 28), (1, 1), (rng.randrange(1, 13),
                                                                            rng.randrange(1, 28))])
        cc, rh, t, _t3, ws = gen_weather(rng)
        ctx.count('wea_zhang_huang_leap:%s' % leap)
        yield 'wea_constructor', {'lat': lat, 'lon': lon, 'tz': tz, 'kind': 'zhang_huang', 'leap': leap,
                                  'month': month, 'day': day, 'use_disc': rng.random() < 0.5, 'cc': cc, 'rh': rh,
                                  't': t, 'ws': ws, 'timestep': rng.choice([1, 1, 2, 3])}
    for _j in range(6 if big else 2):
        lat, lon, tz = rng.choice(gen_locations(rng))
        base = {'lat': lat, 'lon': lon, 'tz': tz, 'timestep': rng.choice([1, 1, 2]) if big else 1,
                'leap': rng.random() < 0.3}
        nst = (8784 if base['leap'] else 8760) * base['timestep']
        base['sample'] = [0, 1, nst - 1, nst - 2, 1416 * base['timestep'], 1440 * base['timestep']] + \
            [rng.randrange(nst) for _ in range(150)]
        if _j % 2 == 0:
            yield 'wea_constructor', dict(base, kind='ashrae_clear_sky', clearness=rng.choice([1, 1.2, 0.8]))
        else:
            yield 'wea_constructor', dict(base, kind='ashrae_revised_clear_sky', tb=0.4, td=2.0,
                                          tbs=[rng.uniform(0.2, 0.8) for _ in range(12)],
                                          tds=[rng.uniform(1.5, 2.8) for _ in range(12)],
                                          use2017=rng.random() < 0.5)
    for _ in range(100 if big else 36):
        lat, lon, tz = rng.choice(gen_locations(rng))
        base = {'lat': lat, 'lon': lon, 'tz': tz, 'month': rng.randrange(1, 13), 'day': rng.randrange(1, 28),
                'dls': rng.random() < 0.3}
        if rng.random() < 0.5:
            yield 'closure_designday', dict(base, sky='clear', clearness=rng.choice([1, 1.2, rng.uniform(0, 1.2)]))
        else:
            yield 'closure_designday', dict(base, sky='tau', tb=rng.uniform(0.2, 0.8), td=rng.uniform(1.5, 2.8),
                                            use2017=rng.random() < 0.5)
    for m in AM_MODELS:
        yield 'airmass_zenith', {'model': m}
        for _k in range(2000 if big else 900):
            # youngirvine1967 below 3.5 deg is a known finding (fixed corpus + 3 generated pairs only,
            # so that known failures do not exhaust the failure budget of the run)
            low_ok = m != 'youngirvine1967' or _k < 3
            a1, a2 = sorted([rng.uniform(3.5, 90), rng.uniform(3.5, 90)] if rng.random() < 0.7 or not low_ok
                            else [rng.uniform(1e-3, 5), rng.uniform(1e-3, 90)])
            if rng.random() < 0.2:
                a2 = min(90.0, a1 + rng.choice([0.001, 0.01, 0.1]))
            if a1 < a2:
                yield 'airmass_monotone', {'model': m, 'a1': a1, 'a2': a2}
    for a in [10.0, 10.5, 45.0, 89.0, 90.0] + [rng.uniform(10, 90) for _ in range(3000 if big else 1200)]:
        yield 'airmass_agree', {'alt': a}
    for _ in range(2000 if big else 900):
        yield 'absam_linear', {'am': rng.uniform(0.9, 40), 'p': rng.uniform(50000, 110000),
                               'k': rng.choice([2.0, 0.5, rng.uniform(0.1, 3)])}
    for sc in (1366.1, 1370.0, 1355.0, 1000.0):
        yield 'extra_range', {'sc': sc}
    for _ in range(3000 if big else 1200):
        db = rng.uniform(-45, 50)
        yield 'skytemp_inverse', {'emissivity': rng.uniform(0.3, 1.0), 't_kelvin': rng.uniform(180, 330),
                                  'sky_cover': rng.choice([0, 10, rng.uniform(0, 10)]), 'db': db,
                                  'dp': db - rng.uniform(0, 30)}


def oracle(ctx):
    def check_and_count(op, inp):
        res = check_case(op, inp)
        if op in SUBCLAIM_OPS:
            ctx.subclaim(SUBCLAIM_OPS[op], res is None)
        elif op == 'clear_monotone' and inp['model'] == 'ashrae_revised_clear_sky':
            ctx.subclaim('tau_model_monotone_and_below_extraterrestrial', res is None)
        elif op == 'night_zero' and 'model' in inp:
            ctx.count('night_zero:' + inp['model'])
        return res

    executed = []

    def recording(op, inp):
        executed.append([op, inp])
        return check_and_count(op, inp)

    run_oracle_cases(ctx, _oracle_cases(ctx), recording)
    if len(ctx.failures) < 200:
        _order_slice(ctx)
    _verify_failures(ctx, executed)


def _verify_failures(ctx, executed):
    """Make the reported failing input replayable: a failure found in this (long-lived) process is re-evaluated
    in a FRESH process; when it only fails after earlier calls (module-level state), it is turned into an `order`
    failure carrying the shortest prefix of the executed oracle cases that reproduces it."""
    known = core.load_known(PROP)
    tried = 0
    for idx, f in enumerate(ctx.failures):
        if f['op'] == 'order' or any(core.matches(f['sig'], k) for k in known):
            continue
        tried += 1
        if tried > 4:
            break
        alone = _run_order([[f['op'], f['input']]])
        if alone and alone[0]:
            if idx:                                   # a verified failure goes first
                ctx.failures.insert(0, ctx.failures.pop(idx))
            return
        key = json.dumps([f['op'], f['input']], sort_keys=True, default=str)
        pos = next((i for i, c in enumerate(executed) if json.dumps(c, sort_keys=True, default=str) == key), None)
        if pos is None:
            continue
        same = [c for c in executed[:pos] if c[0] == f['op']][-40:]
        for prefix in (same, executed[max(0, pos - 60):pos]):
            order = prefix + [[f['op'], f['input']]]
            res = _run_order(order)
            if len(res) == len(order) and res[-1]:
                while len(order) > 2:                 # shrink: drop the first half while the last still fails
                    cand = order[(len(order) - 1) // 2:]
                    rr = _run_order(cand)
                    if len(rr) == len(cand) and rr[-1]:
                        order = cand
                    else:
                        break
                while len(order) > 2:                 # then single cases from the front
                    cand = order[1:]
                    rr = _run_order(cand)
                    if len(rr) == len(cand) and rr[-1]:
                        order = cand
                    else:
                        break
                sig = dict(f['sig'], inner_op=f['op'], clause_order='process_order', op='order')
                ctx.failures.pop(idx)
                ctx.failures.insert(0, {'op': 'order', 'input': {'order': order},
                                        'required': 'the last case holds as it does in a process of its own: %s'
                                        % (f['required'],), 'observed': f['observed'], 'sig': sig})
                return


LEVEL_TEXT = ('Machine-checked Lean 4 theorems over the real-number instance of an executable model of '
              'skymodel.py and of the Wea / design-day irradiance formulas: every model returns 0 at or below the '
              'horizon (DISC below its minimum altitude), GHI = DHI + DNI*sin(altitude) in the Wea, design-day and '
              'Zhang-Huang split code, absolute air mass is linear in pressure, ASHRAE clear-sky DNI is '
              'non-negative, non-decreasing in altitude on (0, 90] and below the extraterrestrial value, '
              'Zhang-Huang and DISC outputs are clamped non-negative, calc_sky_temperature inverts the infrared '
              'law, and the directional-irradiance identities (upward surface = global horizontal, total = sum, '
              'surface facing the sun receives DNI); for the stateful classes (Wea, ASHRAEClearSky / ASHRAETau in a '
              'DesignDay) an object state machine with theorems for ALL histories: every read after any history '
              'equals the read of a fresh object with the established public state, refused operations and reads '
              'leave the state unchanged, closure / upward-surface / clearness-range / below-extraterrestrial hold '
              'after any history. The same definitions, run on Float by a compiled driver, are '
              'compared with the real functions on every run; tables are regenerated from the source. '
              'PARTIAL: closeness of the 7 air-mass formulas, the extraterrestrial range, finiteness and the '
              'sign of DIRINT / illuminance outputs are sampled on the real code only.')
LEVEL_NOTE = ('Trusted: Lean kernel; axioms propext/Classical.choice/Quot.sound only; the table extractor; the '
              'correspondence run (agreement within 1e-12 relative on generated inputs only); IEEE/libm vs real '
              'arithmetic is not proved; sun positions (C05) and dew points (C09) are inputs. Sampled sub-claims '
              'are tests, not theorems.')
TECHNIQUE = ('Lean 4 proof over the reals (Mathlib analysis lemmas for exp/sin/arccos/rpow) about a polymorphic '
             'model whose Float instance is differential-tested against skymodel.py / wea.py / designday.py')
