"""C10 — Sky models return physical irradiance and the components add up.

Model: lean/Ladybug/Model/Sky.lean (generic numeric interface; Float instance run by drv_c10);
theorems: lean/Ladybug/Props/C10.lean (real instance); tables: Gen/SkyTables (translator).
Tie: translator (Gen/SkyFormulas: every formula / branch test / per-step expression of skymodel.py, wea.py,
designday.py translated statement by statement, proved equal to the model in Proofs/C10Gen, C10_gen_eq_*;
Gen/SkyTables: constant tables, signature defaults) + correspondence on the ops below (which also covers the
hand-modelled glue: loops, None, string dispatch, table look-ups, Vector3D.angle).
Numeric property, partial by nature: closeness of different approximations (air-mass models,
extraterrestrial range, finiteness, DIRINT / illuminance sign) are SAMPLED sub-claims evaluated on
the real code (ctx.subclaim), never counted as theorems.
"""
import math
import struct

from harness import core
from harness.core import err_name, run_oracle_cases

PROP = 'C10'
PROOF_MODULES = ['Ladybug.Props.C10', 'Ladybug.Proofs.C10Gen']
GREP_MODULES = ['Ladybug.Transc', 'Ladybug.RealInst', 'Ladybug.Model.Sky', 'Ladybug.Gen.SkyTables', 'Ladybug.Gen.SkyFormulas',
                'Ladybug.Proofs.C10Lemmas', 'Ladybug.Proofs.C10Dirint', 'Ladybug.Proofs.C10Pinned',
                'Ladybug.Drv.C10', 'Ladybug.DrvCore', 'Ladybug.Py']
RULE = ('correspondence: every skymodel.py function and the per-timestep Wea / design-day formulas on '
        'boundary-biased altitudes (-90..90 incl. 0, +-1e-9, the DISC/DIRINT thresholds 3, 3.727, the DIRINT '
        'bin edges 10/20/35/50/65, 90), months -1..14, optical depths, cloud cover/humidity/temperature/wind/'
        'pressure ranges, days of year 1..366, the 7 air-mass models (+ upper-case / unknown names), '
        'time series for DIRINT / Zhang-Huang split, real Wea objects (continuous + sun-up filtered, '
        'timestep 1/2/4, leap, both states of enforce_on_hour set AFTER construction, sun positions '
        'taken from the Wea\'s own datetimes) x surface orientations, ~10 % malformed inputs (rejections compared by error '
        'class); floats compared by value: |m - i| <= 1e-12*max(|m|,|i|) + 1e-9; a case is non-trivial when '
        'the implementation returns a value; distinct = distinct (op, request line). Oracle: the clauses of '
        'the statement on the real code (comparisons of floats with 1e-12 relative slack for round-off '
        'only).')
TRUSTED_BASE = [
    'translator tools/extract/sky_formulas.py + pyexpr2lean.py: that the emitted Lean definition denotes the Python '
    'statements it was made from (straight-line numeric code; each definition is also executed through the model '
    'it is proved equal to and compared with the real function)',
    'translator tools/extract/sky_tables.py: copies MONTHLY_A/B, the Zhang-Huang constants, the Perez '
    'luminous-efficacy tables, the 6x6x7x5 DIRINT matrix, signature defaults and air-mass model names',
    'hand-modelled glue around the generated pieces (loops, try/except OverflowError, None, model.lower(), '
    '`dhi == 0` / `== -1`, table look-ups, raised errors, Vector3D.angle): correspondence only',
    'IEEE-754 / libm evaluation vs the real-number semantics of the theorems is not proved; Float model and '
    'Python agree within 1e-12 relative on the generated inputs',
    'sun positions (Sunpath, property C05) and dew points (psychrometrics, property C09) are inputs of the '
    'modelled formulas, taken from the real code',
    'ladybug_geometry Vector3D.angle/magnitude modelled (acos(dot/(|a||b|)) with the round-off fallback)',
    'sampled sub-claims (air-mass agreement/monotonicity/zenith value, extraterrestrial range, finiteness, '
    'DIRINT and illuminance sign, tau-model monotonicity) are tests on the real code, not theorems',
]
ASSUMPTIONS = ['altitudes in degrees within [-90, 90]; clearness in [0, 1.2]; months 1..12 for the theorems',
               'real arithmetic (no overflow/round-off) in the theorems']

AM_MODELS = ['kastenyoung1989', 'kasten1966', 'simple', 'pickering2002', 'youngirvine1967',
             'young1994', 'gueymard1993']
RTOL = 1e-12
ATOL = 1e-9


def extract(ctx):
    from tools.extract import sky_tables, sky_formulas
    ctx.tables = sky_tables.extract()
    ctx.formulas = sky_formulas.extract()
    ctx.notes.append('translated from source this run: %d definitions (%s ...); hand-modelled glue: %s'
                     % (len(ctx.formulas['translated']), ', '.join(ctx.formulas['translated'][:6]),
                        ' | '.join(ctx.formulas['hand_modelled'])))


# ---------------------------------------------------------------------------------------------
# protocol helpers


def fb(x):
    return '%016x' % struct.unpack('<Q', struct.pack('<d', float(x)))[0]


def ofb(x):
    return 'none' if x is None else fb(x)


def unb(tok):
    if tok == 'none':
        return None
    return struct.unpack('<d', struct.pack('<Q', int(tok, 16)))[0]


def _b(x):
    return '1' if x else '0'


def close(a, b, rtol=RTOL, atol=ATOL):
    if a is None or b is None:
        return a is None and b is None
    if isinstance(a, complex) or isinstance(b, complex):
        return False
    if math.isnan(a) or math.isnan(b):
        return math.isnan(a) and math.isnan(b)
    if math.isinf(a) or math.isinf(b):
        return a == b
    return abs(a - b) <= rtol * max(abs(a), abs(b)) + atol


def _flat(v):
    if isinstance(v, (list, tuple)):
        out = []
        for x in v:
            out += _flat(x)
        return out
    return [v]


def cmp_batch(ctx, op, cases, line_fn, impl_fn, atol=ATOL):
    """Model vs implementation on `cases`; impl_fn(case) -> (possibly nested) numbers/None, or raises."""
    if not cases:
        return
    lines = [line_fn(c) for c in cases]
    outs = ctx.driver().run(lines)
    for c, line, mo in zip(cases, lines, outs):
        try:
            iv = [None if x is None else x for x in _flat(impl_fn(c))]
            ierr = None
        except Exception as e:
            iv, ierr = None, 'err:' + err_name(e)
        ctx.compared += 1
        ctx.count('op:' + op)
        ctx.case((op, line), nontrivial=ierr is None)
        if ierr is not None:
            ctx.count('err_results')
            if mo != ierr:
                ctx.disagree(op, {'case': c, 'line': line}, mo, ierr)
            continue
        ok = mo.startswith('ok')
        if ok:
            try:
                mv = [unb(t) for t in mo.split()[1:]]
            except ValueError:
                ok = False
        if ok:
            try:
                ivf = [None if x is None else (x if isinstance(x, complex) else float(x)) for x in iv]
            except (TypeError, ValueError):
                ok = False
        ok = ok and len(mv) == len(ivf) and all(close(m, i, RTOL, atol) for m, i in zip(mv, ivf))
        if not ok:
            ctx.disagree(op, {'case': c, 'line': line}, mo, 'ok ' + ' '.join(repr(x) for x in iv))
    ctx.sample({'op': op, 'request': lines[0], 'model': outs[0]})


# ---------------------------------------------------------------------------------------------
# generators (plain numbers only; nothing is produced by the code under test)

ALT_EDGES = [-90.0, -45.0, -3.0, -1e-9, -0.0, 0.0, 1e-300, 1e-9, 0.005, 0.0114, 0.02, 0.5, 1.0, 2.9999,
             3.0, 3.0001, 3.7, 3.727, 3.8, 5.0, 9.9999, 10.0, 10.0001, 20.0, 20.0001, 35.0, 35.0001, 50.0,
             50.0001, 65.0, 65.0001, 89.0, 89.99, 90.0]


def gen_alt(rng, up=None):
    r = rng.random()
    if up is True:
        if r < 0.3:
            return rng.choice([a for a in ALT_EDGES if a > 0])
        if r < 0.5:
            return rng.uniform(1e-6, 6.0)
        return rng.uniform(0.001, 90.0)
    if up is False:
        return rng.choice([a for a in ALT_EDGES if a <= 0] + [-rng.uniform(0, 90)])
    if r < 0.3:
        return rng.choice(ALT_EDGES)
    if r < 0.45:
        return rng.uniform(-2.0, 6.0)
    return rng.uniform(-90.0, 90.0)


def gen_pressure(rng):
    return rng.choice([101325.0, 101325, rng.uniform(55000, 108000), 80000.0])


def gen_weather(rng):
    """(cloud cover 0..10, rh 1..100, T, T-3h, wind)"""
    cc = rng.choice([0, 10, 5, rng.uniform(0, 10), rng.randrange(0, 11)])
    rh = rng.choice([100, 1, rng.uniform(1, 100)])
    t = rng.uniform(-35, 45)
    t3 = t + rng.uniform(-8, 8)
    ws = rng.choice([0, rng.uniform(0, 25)])
    return cc, rh, t, t3, ws


def gen_day_series(rng, n=None):
    """A plausible day: altitudes along an arc (some below the horizon), GHI from a crude clear-sky
    guess times a cloud factor, one doy, pressures, dew points."""
    n = n or rng.choice([1, 2, 3, 8, 24, 24, 30])
    peak = rng.uniform(5, 90)
    low = rng.uniform(-60, 2)
    doy = rng.randrange(1, 367)
    alts, ghi, pres, dew = [], [], [], []
    p0 = gen_pressure(rng)
    for i in range(n):
        x = math.sin(math.pi * (i + 0.5) / n)
        a = low + (peak - low) * x
        if rng.random() < 0.15:
            a = rng.choice(ALT_EDGES)
        alts.append(a)
        g = max(0.0, 1100 * math.sin(math.radians(max(a, 0))) * rng.choice([1, 1, rng.random(), 0.1, 0]))
        if rng.random() < 0.05:
            g = rng.choice([0, -5.0, 1500.0])
        ghi.append(g)
        pres.append(p0 if rng.random() < 0.8 else gen_pressure(rng))
        dew.append(rng.uniform(-30, 28))
    return alts, ghi, [doy] * n, pres, dew


def gen_locations(rng):
    out = [(0.0, 0.0, 0), (40.7, -74.0, -5), (-33.9, 151.2, 10), (64.1, -21.9, 0), (78.2, 15.6, 1),
           (-77.8, 166.7, 12), (23.44, 100.0, 7)]
    out.append((rng.uniform(-89, 89), rng.uniform(-179, 179), 0))
    lat, lon = rng.uniform(-66, 66), rng.uniform(-179, 179)
    out.append((lat, lon, int(round(lon / 15.0))))
    return out


def _mk_location(lat, lon, tz):
    from ladybug.location import Location
    return Location('c10', latitude=lat, longitude=lon, time_zone=tz)


def _mk_wea(lat, lon, tz, month, day, ndays, timestep, leap, dnr, dhr):
    """A continuous Wea over `ndays` whole days starting (month, day); values given as lists."""
    from ladybug.wea import Wea
    from ladybug.analysisperiod import AnalysisPeriod
    from ladybug.datacollection import HourlyContinuousCollection
    from ladybug.header import Header
    from ladybug.dt import Date
    from ladybug.datatype.energyflux import DirectNormalIrradiance, DiffuseHorizontalIrradiance
    st = Date(month, day, leap)
    end = Date.from_doy(st.doy + ndays - 1, leap)
    ap = AnalysisPeriod(st.month, st.day, 0, end.month, end.day, 23, timestep, leap)
    n = len(ap)
    dn = HourlyContinuousCollection(Header(DirectNormalIrradiance(), 'W/m2', ap), list(dnr[:n]))
    dh = HourlyContinuousCollection(Header(DiffuseHorizontalIrradiance(), 'W/m2', ap), list(dhr[:n]))
    return Wea(_mk_location(lat, lon, tz), dn, dh)


def _wea_spec(rng, big=False):
    lat, lon, tz = rng.choice(gen_locations(rng))
    leap = rng.random() < 0.3
    month = rng.randrange(1, 13)
    day = rng.randrange(1, 27)
    ndays = rng.choice([1, 2]) if not big else rng.choice([2, 5])
    ts = rng.choice([1, 1, 1, 2, 4])
    n = ndays * 24 * ts
    dnr = [rng.choice([0.0, rng.uniform(0, 1000), rng.uniform(0, 1000)]) for _ in range(n)]
    dhr = [rng.choice([0.0, rng.uniform(0, 500), rng.uniform(0, 500)]) for _ in range(n)]
    return {'lat': lat, 'lon': lon, 'tz': tz, 'month': month, 'day': day, 'ndays': ndays, 'timestep': ts,
            'leap': leap, 'dnr': dnr, 'dhr': dhr, 'sun_up_only': rng.random() < 0.25,
            # second step of the sequence build -> set flag -> evaluate (only matters for timestep 1)
            'enforce_on_hour': rng.random() < 0.5}


def _build_wea(spec):
    w = _mk_wea(spec['lat'], spec['lon'], spec['tz'], spec['month'], spec['day'], spec['ndays'],
                spec['timestep'], spec['leap'], spec['dnr'], spec['dhr'])
    if spec.get('sun_up_only'):
        try:                              # polar night: an empty selection is rejected by the collections
            w2 = w.filter_by_sun_up()
            if len(w2) > 0:
                w = w2
        except AssertionError:
            pass
    if spec.get('enforce_on_hour'):       # two-step sequence: build, THEN set the flag, then evaluate
        w.enforce_on_hour = True
    return w


def _corpus_wea(lat, lon, tz, month, day, timestep, leap, enforce):
    """Deterministic one-day Wea spec for the fixed corpus."""
    n = 24 * timestep
    return {'lat': lat, 'lon': lon, 'tz': tz, 'month': month, 'day': day, 'ndays': 1, 'timestep': timestep,
            'leap': leap, 'dnr': [800.0 + 3.0 * i for i in range(n)], 'dhr': [100.0 + 1.0 * i for i in range(n)],
            'sun_up_only': False, 'enforce_on_hour': enforce}


def _suns(wea):
    """(altitude, azimuth) per Wea datetime, computed the way wea.py does (Sunpath is property C05)."""
    from ladybug.sunpath import Sunpath
    sp = Sunpath.from_location(wea.location)
    sp.is_leap_year = wea.is_leap_year
    out = []
    for dt in wea.datetimes:
        s = sp.calculate_sun_from_date_time(dt)
        out.append((s.altitude, s.azimuth))
    return out


# ---------------------------------------------------------------------------------------------
# correspondence


def correspondence(ctx):
    from ladybug import skymodel as sm
    rng = ctx.rng

    def N(quick, thorough):            # case counts per tier (quick scaled to ~20 s)
        return ctx.n(quick * 4, thorough)

    # --- relative air mass: 7 models x altitudes (+ name case, unknown names)
    cases = []
    for m in AM_MODELS:
        for a in ALT_EDGES + [rng.uniform(0, 90) for _ in range(N(150, 3000))] + \
                [rng.uniform(0, 5) for _ in range(N(40, 800))]:
            cases.append((m, a))
        cases.append((m.upper(), rng.uniform(0, 90)))
        cases.append((m.capitalize(), rng.uniform(-10, 0)))
    cases += [('foo', 10.0), ('foo', -1.0), ('kasten', 45.0)]
    cmp_batch(ctx, 'relam', cases, lambda c: 'relam %s %s' % (c[0], fb(c[1])),
              lambda c: sm.get_relative_airmass(c[1], c[0]))
    for m, a in cases:
        ctx.count('airmass_model:' + m.lower())

    cases = [(rng.choice([None, rng.uniform(0.9, 40)]), gen_pressure(rng)) for _ in range(N(200, 4000))]
    cmp_batch(ctx, 'absam', cases, lambda c: 'absam %s %s' % (ofb(c[0]), fb(c[1])),
              lambda c: sm.get_absolute_airmass(c[0], c[1]))

    cases = [(d, sc) for d in range(1, 367) for sc in (1366.1, 1370.0, 1355)]
    cmp_batch(ctx, 'extra', cases, lambda c: 'extra %s %s' % (fb(c[0]), fb(c[1])),
              lambda c: sm.get_extra_radiation(c[0], c[1]))

    cases = []
    for _ in range(N(400, 8000)):
        cases.append((rng.choice([0.0, -10.0, rng.uniform(0, 1400)]), gen_alt(rng), rng.uniform(1300, 1420),
                      rng.choice([0.065, 0.065, 0.1]), rng.choice([1, 2.0, 0.82])))
    cmp_batch(ctx, 'kt', cases, lambda c: 'kt ' + ' '.join(fb(x) for x in c),
              lambda c: sm.clearness_index(*c))

    cases = []
    for _ in range(N(400, 8000)):
        cases.append((rng.choice([0.0, 1.0, rng.uniform(0, 2)]), rng.choice([None, rng.uniform(0.5, 40)]),
                      rng.choice([1, 2.0, 0.82])))
    cases.append((0.5, 0.0, 1))          # ZeroDivisionError
    cmp_batch(ctx, 'ktp', cases, lambda c: 'ktp %s %s %s' % (fb(c[0]), ofb(c[1]), fb(c[2])),
              lambda c: sm.clearness_index_zenith_independent(*c))

    cases = []
    for _ in range(N(400, 8000)):
        cases.append((rng.choice([0.0, 0.6, 0.6000001, 1.0, rng.random()]), rng.uniform(0.5, 40),
                      rng.choice([12, 12, 20.0])))
    cmp_batch(ctx, 'disckn', cases, lambda c: 'disckn ' + ' '.join(fb(x) for x in c),
              lambda c: sm._disc_kn(*c))

    # --- DISC
    cases = []
    for _ in range(N(1200, 25000)):
        alt = gen_alt(rng)
        ghi = rng.choice([0.0, -5.0, rng.uniform(0, 1400), 1100 * math.sin(math.radians(max(alt, 0))) *
                          rng.random()])
        p = rng.choice([None, gen_pressure(rng), gen_pressure(rng)])
        cases.append((ghi, alt, rng.randrange(1, 367), p, rng.choice([0.065, 0.065, 0.1]),
                      rng.choice([3, 3, 0, 5.5, -5]), rng.choice([12, 12, 20])))
    cmp_batch(ctx, 'disc', cases,
              lambda c: 'disc %s %s %s %s %s %s %s' % (fb(c[0]), fb(c[1]), fb(c[2]), ofb(c[3]), fb(c[4]),
                                                       fb(c[5]), fb(c[6])),
              lambda c: sm.disc(c[0], c[1], c[2], c[3], c[4], c[5], c[6]))

    # --- DIRINT on day series
    cases = []
    for _ in range(N(250, 5000)):
        alts, ghi, doys, pres, dew = gen_day_series(rng)
        ud = rng.random() < 0.7
        hd = rng.random() < 0.7
        cases.append((ud, hd, rng.choice([0.065, 0.065, 0.1]), rng.choice([3, 3, 0, 6]), ghi, alts, doys, pres,
                      dew if hd else None))
        ctx.count('dirint_len:%s' % ('1' if len(alts) == 1 else '2-8' if len(alts) <= 8 else '9+'))

    def dirint_line(c):
        xs = list(c[4]) + list(c[5]) + list(c[6]) + list(c[7]) + (list(c[8]) if c[1] else [])
        return 'dirint %s %s %s %s %d %s' % (_b(c[0]), _b(c[1]), fb(c[2]), fb(c[3]), len(c[4]),
                                             ' '.join(fb(x) for x in xs))

    cmp_batch(ctx, 'dirint', cases, dirint_line,
              lambda c: sm.dirint(c[4], c[5], c[6], c[7], use_delta_kt_prime=c[0], temp_dew=c[8],
                                  min_sin_altitude=c[2], min_altitude=c[3]))

    # --- clear-sky models
    cases = []
    for month in range(-1, 15):
        for a in ALT_EDGES + [gen_alt(rng) for _ in range(N(15, 300))]:
            cases.append((month, a, rng.choice([1, 1, 0, 0.5, 1.2, rng.uniform(0, 1.2)])))
    cmp_batch(ctx, 'cs', cases, lambda c: 'cs %d %s %s' % (c[0], fb(c[1]), fb(c[2])),
              lambda c: [x[0] for x in sm.ashrae_clear_sky([c[1]], c[0], c[2])])
    cases = []
    for a in ALT_EDGES + [gen_alt(rng) for _ in range(N(400, 8000))]:
        cases.append((a, rng.uniform(0.15, 0.9), rng.uniform(1.3, 3.0), rng.random() < 0.5))
    cmp_batch(ctx, 'rcs', cases, lambda c: 'rcs %s %s %s %s' % (fb(c[0]), fb(c[1]), fb(c[2]), _b(c[3])),
              lambda c: [x[0] for x in sm.ashrae_revised_clear_sky([c[0]], c[1], c[2], c[3])])

    # --- Zhang-Huang
    cases = []
    for _ in range(N(800, 16000)):
        cc, rh, t, t3, ws = gen_weather(rng)
        cases.append((gen_alt(rng), cc, rh, t, t3, ws, rng.choice([1355, 1355, rng.uniform(1300, 1420)])))
    cmp_batch(ctx, 'zh', cases, lambda c: 'zh ' + ' '.join(fb(x) for x in c),
              lambda c: sm.zhang_huang_solar(*c))

    from ladybug.psychrometrics import dew_point_from_db_rh
    cases = []
    for _ in range(N(200, 4000)):
        alts, _g, doys, pres, _d = gen_day_series(rng)
        rows = []
        for a, d, p in zip(alts, doys, pres):
            cc, rh, t, t3, ws = gen_weather(rng)
            rows.append((a, d, cc, rh, t, t3, ws, p, dew_point_from_db_rh(t, rh)))
        cases.append((rng.random() < 0.4, rows))

    def zs_line(c):
        return 'zhsplit %s %d %s' % (_b(c[0]), len(c[1]), ' '.join(fb(x) for r in c[1] for x in r))

    def zs_impl(c):
        cols = list(zip(*c[1]))
        dn, dh = sm.zhang_huang_solar_split(list(cols[0]), list(cols[1]), list(cols[2]), list(cols[3]),
                                            list(cols[4]), list(cols[5]), list(cols[6]), list(cols[7]), c[0])
        return [[a, b] for a, b in zip(dn, dh)]

    cmp_batch(ctx, 'zhsplit', cases, zs_line, zs_impl)

    # --- illuminance
    cases = []
    for _ in range(N(1500, 30000)):
        alt = gen_alt(rng, up=True) if rng.random() < 0.85 else gen_alt(rng)
        dhi = rng.choice([0, 0.0, rng.uniform(0.5, 500), rng.uniform(0.5, 500)])
        dni = rng.choice([0, rng.uniform(0, 1000), rng.uniform(0, 1000)])
        r = rng.random()
        if r < 0.05:
            dni = -rng.uniform(1, 100)              # eps < 1: ValueError
        elif r < 0.08:
            dhi = -rng.uniform(1, 100)              # log of a negative delta / eps < 1
        ghi = dhi + dni * math.sin(math.radians(max(alt, 0)))
        cases.append((alt, ghi, dni, dhi, rng.uniform(-40, 30), rng.choice([None, None, rng.uniform(1, 38)])))
    cmp_batch(ctx, 'illum', cases,
              lambda c: 'illum %s %s' % (' '.join(fb(x) for x in c[:5]), ofb(c[5])),
              lambda c: sm.estimate_illuminance_from_irradiance(*c), atol=1e-7)

    # --- infrared / sky temperature
    cases = []
    for _ in range(N(400, 8000)):
        db = rng.uniform(-45, 50)
        cases.append((rng.choice([0, 10, rng.uniform(0, 10), rng.randrange(0, 11)]), db,
                      rng.choice([db, db - rng.uniform(0, 30)])))
    cases += [(5, 20.0, -273.15), (5, 20.0, -300.0)]
    cmp_batch(ctx, 'hir', cases, lambda c: 'hir ' + ' '.join(fb(x) for x in c),
              lambda c: sm.calc_horizontal_infrared(*c))
    cases = [(rng.uniform(40, 700), rng.choice([1, 1, rng.uniform(0.3, 1)])) for _ in range(N(400, 8000))]
    cases += [(300.0, 0), (0.0, 1)]
    cmp_batch(ctx, 'skyt', cases, lambda c: 'skyt %s %s' % (fb(c[0]), fb(c[1])),
              lambda c: sm.calc_sky_temperature(*c))

    # --- Wea: global / direct horizontal / directional irradiance per timestep
    for k in range(N(6, 60)):
        spec = _wea_spec(rng, big=not ctx.quick)
        wea = _build_wea(spec)
        suns = _suns(wea)
        dnr = list(wea.direct_normal_irradiance.values)
        dhr = list(wea.diffuse_horizontal_irradiance.values)
        ctx.count('wea:%s' % ('discontinuous' if not wea.is_continuous else 'continuous'))
        ctx.count('wea_timestep:%d' % wea.timestep)
        ctx.count('wea_enforce_on_hour:%s' % bool(wea.enforce_on_hour))

        def guarded(f):
            try:
                return f(), None
            except Exception as e:          # a changed implementation must give disagreements, not tracebacks
                return None, e

        ghi, e1 = guarded(lambda: list(wea.global_horizontal_irradiance.values))
        dh, e2 = guarded(lambda: list(wea.direct_horizontal_irradiance.values))
        idx = list(range(len(suns)))

        def pick(vals, exc, i):
            if exc is not None:
                raise exc
            return vals[i]

        cmp_batch(ctx, 'ghi', idx, lambda i: 'ghi %s %s %s' % (fb(suns[i][0]), fb(dnr[i]), fb(dhr[i])),
                  lambda i: pick(ghi, e1, i))
        cmp_batch(ctx, 'dirh', idx, lambda i: 'dirh %s %s' % (fb(suns[i][0]), fb(dnr[i])),
                  lambda i: pick(dh, e2, i))
        if wea.is_continuous:
            # Wea.estimate_illuminance_components: per step the Perez model at the Wea's own sun altitude
            from ladybug.datacollection import HourlyContinuousCollection
            from ladybug.header import Header
            from ladybug.datatype.temperature import DewPointTemperature
            dews = [rng.uniform(-30, 28) for _ in idx]
            ill, e4 = guarded(lambda: [list(c.values) for c in wea.estimate_illuminance_components(
                HourlyContinuousCollection(Header(DewPointTemperature(), 'C', wea.analysis_period), dews))])
            if ghi is not None:
                cmp_batch(ctx, 'illum_wea', idx,
                          lambda i: 'illum %s %s %s %s %s none' % (fb(suns[i][0]), fb(ghi[i]), fb(dnr[i]),
                                                                   fb(dhr[i]), fb(dews[i])),
                          lambda i: [pick(ill, e4, 0)[i] if e4 is None else pick(None, e4, 0),
                                     ill[1][i], ill[2][i], ill[3][i]], atol=1e-7)
        up = [i for i in idx if suns[i][0] > 0]
        surfaces = [(90, 180, 0.2, True), (90, 0, 0.2, True), (90, rng.uniform(0, 360), rng.random(), False),
                    (rng.uniform(-90, 90), rng.uniform(0, 360), rng.random(), True),
                    (rng.uniform(-90, 90), rng.uniform(0, 360), rng.random(), False),
                    (0, rng.choice([0, 90, 180, 270]), 0.2, rng.random() < 0.5), (-90, 0, 0.3, True)]
        if up:
            j = rng.choice(up)
            surfaces.append((suns[j][0], suns[j][1], 0.2, True))        # facing the sun of step j
        for (sa, sz, refl, iso) in surfaces[:5 if ctx.quick else 8] + surfaces[-1:]:
            res, e3 = guarded(lambda: [list(c.values) for c in
                                       wea.directional_irradiance(sa, sz, refl, iso)])
            ctx.count('surface:%s' % ('up' if sa == 90 else 'down' if sa == -90 else 'tilted'))
            cmp_batch(ctx, 'dirirr', idx,
                      lambda i: 'dirirr %s %s %s %s %s %s %s %s' % (
                          fb(suns[i][0]), fb(suns[i][1]), fb(dnr[i]), fb(dhr[i]), fb(sa), fb(sz), fb(refl),
                          _b(iso)),
                      lambda i: [pick(res, e3, 0)[i] if e3 is None else pick(None, e3, 0),
                                 res[1][i], res[2][i], res[3][i]], atol=1e-7)

    # --- design-day sky conditions
    from ladybug.designday import ASHRAEClearSky, ASHRAETau
    from ladybug.dt import Date
    from ladybug.sunpath import Sunpath
    for k in range(N(12, 200)):
        lat, lon, tz = rng.choice(gen_locations(rng))
        loc = _mk_location(lat, lon, tz)
        month, day = rng.randrange(1, 13), rng.randrange(1, 28)
        dls = rng.random() < 0.3
        if rng.random() < 0.5:
            cl = rng.choice([1, 0, 1.2, rng.uniform(0, 1.2)])
            sky = ASHRAEClearSky(Date(month, day), cl, dls)
            mk_line = lambda a: 'ddcs %d %s %s' % (month, fb(a), fb(cl))     # noqa: E731
            ctx.count('designday:clear')
        else:
            tb, td, u = rng.uniform(0.2, 0.8), rng.uniform(1.5, 2.8), rng.random() < 0.5
            sky = ASHRAETau(Date(month, day), tb, td, u, dls)
            mk_line = lambda a: 'ddtau %s %s %s %s' % (fb(a), fb(tb), fb(td), _b(u))   # noqa: E731
            ctx.count('designday:tau')
        sp = Sunpath.from_location(loc)
        alts = [sp.calculate_sun_from_date_time(d).altitude for d in sky._get_datetimes(1)]
        try:
            rv, exc = sky.radiation_values(loc), None
        except Exception as e:
            rv, exc = None, e

        def dd_impl(i):
            if exc is not None:
                raise exc
            return [rv[0][i], rv[1][i], rv[2][i]]

        cmp_batch(ctx, 'designday', list(range(len(alts))), lambda i: mk_line(alts[i]), dd_impl)


# ---------------------------------------------------------------------------------------------
# property oracle: the statement of C10 evaluated on the real code, independent of the model


def _fin(xs):
    return all(isinstance(x, (int, float)) and math.isfinite(x) for x in xs)


def _rel(a, b, tol=1e-9, atol=1e-9):
    return abs(a - b) <= tol * max(abs(a), abs(b)) + atol


def _model_outputs(sm, name, alt, p):
    """Outputs (dict name -> value) of one sky model at altitude `alt` with parameters `p`."""
    if name == 'ashrae_clear_sky':
        dn, dh = sm.ashrae_clear_sky([alt], p['month'], p['clearness'])
        return {'dni': dn[0], 'dhi': dh[0], 'ghi': dh[0] + dn[0] * math.sin(math.radians(alt))}
    if name == 'ashrae_revised_clear_sky':
        dn, dh = sm.ashrae_revised_clear_sky([alt], p['tb'], p['td'], p['use2017'])
        return {'dni': dn[0], 'dhi': dh[0], 'ghi': dh[0] + dn[0] * math.sin(math.radians(alt))}
    if name == 'zhang_huang_solar':
        return {'ghi': sm.zhang_huang_solar(alt, p['cc'], p['rh'], p['t'], p['t3'], p['ws'])}
    if name in ('zhang_huang_split_dirint', 'zhang_huang_split_disc'):
        from ladybug.psychrometrics import dew_point_from_db_rh  # noqa: F401 (used inside the real code)
        alts = list(p['neighbours'])
        k = len(alts) // 2
        alts[k] = alt
        n = len(alts)
        dn, dh = sm.zhang_huang_solar_split(alts, [p['doy']] * n, [p['cc']] * n, [p['rh']] * n, [p['t']] * n,
                                            [p['t3']] * n, [p['ws']] * n, [p['pressure']] * n,
                                            name.endswith('disc'))
        return {'dni': dn[k], 'dhi_night_only': dh[k],
                'ghi': sm.zhang_huang_solar(alt, p['cc'], p['rh'], p['t'], p['t3'], p['ws'])}
    if name == 'disc':
        dni, kt, am = sm.disc(p['ghi'], alt, p['doy'], p['pressure'])
        return {'dni': dni}
    if name == 'dirint':
        alts = list(p['neighbours'])
        k = len(alts) // 2
        alts[k] = alt
        n = len(alts)
        ghis = [p['ghi']] * n
        dn = sm.dirint(ghis, alts, [p['doy']] * n, [p['pressure']] * n, temp_dew=[p['dew']] * n)
        return {'dni': dn[k]}
    if name == 'illuminance':
        dhi, dni = p['dhi'], p['dni']
        ghi = dhi + dni * math.sin(math.radians(max(alt, 0.0)))
        r = sm.estimate_illuminance_from_irradiance(alt, ghi, dni, dhi, p['dew'])
        return {'ghi': r[0], 'dni': r[1], 'dhi': r[2], 'zenith_lum': r[3]}
    raise ValueError('unknown model ' + name)


def check_case(op, inp):
    from ladybug import skymodel as sm
    if op == 'night_zero':
        name, alt = inp['model'], inp['alt']
        try:
            out = _model_outputs(sm, name, alt, inp['params'])
        except Exception as e:
            return {'required': 'all outputs 0 at altitude %r <= 0' % alt,
                    'observed': 'raises %s: %s' % (type(e).__name__, e),
                    'sig': {'model': name, 'clause': 'night_zero', 'raises': type(e).__name__}}
        bad = {k: v for k, v in out.items() if v != 0}
        if bad:
            return {'required': 'all outputs 0 at altitude %r <= 0' % alt, 'observed': bad,
                    'sig': {'model': name, 'clause': 'night_zero'}}
        return None
    if op == 'day_physical':
        name, alt = inp['model'], inp['alt']
        try:
            out = _model_outputs(sm, name, alt, inp['params'])
        except Exception as e:
            return {'required': 'finite outputs at altitude %r' % alt,
                    'observed': 'raises %s: %s' % (type(e).__name__, e),
                    'sig': {'model': name, 'clause': 'finite', 'raises': type(e).__name__}}
        out.pop('dhi_night_only', None)
        if not _fin(out.values()):
            return {'required': 'finite outputs at altitude %r' % alt, 'observed': out,
                    'sig': {'model': name, 'clause': 'finite'}}
        neg = {k: v for k, v in out.items() if k in ('dni', 'ghi') and v < 0}
        if neg:
            return {'required': 'dni >= 0 and ghi >= 0', 'observed': neg,
                    'sig': {'model': name, 'clause': 'nonneg'}}
        return None
    if op == 'clear_monotone':
        name, p, a1, a2 = inp['model'], inp['params'], inp['a1'], inp['a2']
        d1 = _model_outputs(sm, name, a1, p)['dni']
        d2 = _model_outputs(sm, name, a2, p)['dni']
        if not d1 <= d2 * (1 + 1e-12) + 1e-12:
            wobble = a2 >= 89.9 and d1 <= d2 * (1 + 1e-6)
            return {'required': 'dni(%r) <= dni(%r)' % (a1, a2), 'observed': (d1, d2),
                    'sig': {'model': name, 'clause': 'monotone',
                            'region': 'zenith_wobble_below_1e-6' if wobble else 'elsewhere'}}
        ext = min(sm.get_extra_radiation(d) for d in range(1, 367))
        if not d2 <= ext:
            return {'required': 'dni <= extraterrestrial (%r)' % ext, 'observed': d2,
                    'sig': {'model': name, 'clause': 'le_extraterrestrial'}}
        return None
    if op == 'closure_zh':
        rows = inp['rows']
        cols = list(zip(*rows))
        dn, dh = sm.zhang_huang_solar_split(*[list(c) for c in cols], inp['use_disc'])
        for r, a, b in zip(rows, dn, dh):
            g = sm.zhang_huang_solar(r[0], r[2], r[3], r[4], r[5], r[6])
            if not _rel(g, b + a * math.sin(math.radians(r[0]))):
                return {'required': 'ghi = dhi + dni*sin(alt) = %r' % g,
                        'observed': b + a * math.sin(math.radians(r[0])),
                        'sig': {'clause': 'closure', 'where': 'zhang_huang_split'}}
        return None
    if op in ('closure_wea', 'surface_wea'):
        wea = _build_wea(inp['wea'])
        suns = _suns(wea)
        dnr = list(wea.direct_normal_irradiance.values)
        dhr = list(wea.diffuse_horizontal_irradiance.values)
        ghi = list(wea.global_horizontal_irradiance.values)
        if op == 'closure_wea':
            dho = list(wea.direct_horizontal_irradiance.values)
            if not (len(ghi) == len(dho) == len(dnr)):
                return {'required': '%d values' % len(dnr), 'observed': (len(ghi), len(dho)),
                        'sig': {'clause': 'closure', 'where': 'wea_length'}}
            for i, (alt, _az) in enumerate(suns):
                s = math.sin(math.radians(alt))
                if not _rel(ghi[i], dhr[i] + dnr[i] * s):
                    return {'required': 'ghi = dhi + dni*sin(alt) = %r at step %d' % (dhr[i] + dnr[i] * s, i),
                            'observed': ghi[i], 'sig': {'clause': 'closure', 'where': 'wea_global',
                                                        'enforce_on_hour': bool(wea.enforce_on_hour)}}
                if not _rel(dho[i], dnr[i] * s):
                    return {'required': 'direct horizontal = dni*sin(alt) = %r at step %d' % (dnr[i] * s, i),
                            'observed': dho[i], 'sig': {'clause': 'closure', 'where': 'wea_direct_horizontal'}}
            return None
        state = {'enforce_on_hour': bool(wea.enforce_on_hour), 'timestep': wea.timestep}
        if inp.get('face_all'):
            # every sun-up step: a surface whose normal is the sun vector of that step gets direct = DNI
            ups = [i for i, s_ in enumerate(suns) if s_[0] > 0][:inp.get('face_limit', 40)]
            for k in ups:
                dr = list(wea.directional_irradiance(suns[k][0], suns[k][1], 0.2, True)[1].values)
                if not _rel(dr[k], dnr[k], 1e-9, 1e-7):
                    return {'required': 'surface facing the sun of step %d (alt %r, az %r) receives dni = %r'
                            % (k, suns[k][0], suns[k][1], dnr[k]), 'observed': dr[k],
                            'sig': dict(state, clause='facing_sun')}
            return None
        sa, sz, refl, iso = inp['surface']
        face = inp.get('face_step')
        if face is not None:
            ups = [i for i, s in enumerate(suns) if s[0] > 0]
            if not ups:
                return None
            face = ups[face % len(ups)]
            sa, sz = suns[face]
        tot, dr, df, rf = [list(c.values) for c in wea.directional_irradiance(sa, sz, refl, iso)]
        for i in range(len(dnr)):
            if not _rel(tot[i], dr[i] + df[i] + rf[i]):
                return {'required': 'total = direct + diffuse + reflected = %r at step %d' % (
                    dr[i] + df[i] + rf[i], i), 'observed': tot[i], 'sig': dict(state, clause='total_sum')}
            if sa == 90 and suns[i][0] > 0 and not _rel(tot[i], ghi[i], 1e-9, 1e-7):
                return {'required': 'upward surface total = global horizontal = %r at step %d' % (ghi[i], i),
                        'observed': tot[i], 'sig': dict(state, clause='up_surface', isotropic=bool(iso))}
        if face is not None and not _rel(dr[face], dnr[face], 1e-9, 1e-7):
            return {'required': 'surface facing the sun receives dni = %r at step %d' % (dnr[face], face),
                    'observed': dr[face], 'sig': dict(state, clause='facing_sun')}
        return None
    if op == 'illum_wea':
        # Wea.estimate_illuminance_components on a real Wea: zero at night, finite and direct >= 0 by day
        from ladybug.datacollection import HourlyContinuousCollection
        from ladybug.header import Header
        from ladybug.datatype.temperature import DewPointTemperature
        wea = _build_wea(dict(inp['wea'], sun_up_only=False))
        suns = _suns(wea)
        dew = HourlyContinuousCollection(Header(DewPointTemperature(), 'C', wea.analysis_period),
                                         [inp['dew']] * len(suns))
        cols = [list(c.values) for c in wea.estimate_illuminance_components(dew)]
        for i, (alt, _az) in enumerate(suns):
            vals = [c[i] for c in cols]
            if alt <= 0 and any(v != 0 for v in vals):
                return {'required': 'illuminance 0 at sun altitude %r (step %d)' % (alt, i), 'observed': vals,
                        'sig': {'clause': 'night_zero', 'model': 'wea_illuminance',
                                'enforce_on_hour': bool(wea.enforce_on_hour)}}
            if not _fin(vals) or vals[1] < 0:
                return {'required': 'finite, direct normal illuminance >= 0 (step %d)' % i, 'observed': vals,
                        'sig': {'clause': 'nonneg', 'model': 'wea_illuminance'}}
        return None
    if op == 'wea_constructor':
        # the sky-model constructors of Wea (annual): zero at/below the horizon at the Wea's datetimes,
        # finite, DNI/GHI >= 0, closure
        from ladybug.wea import Wea
        loc = _mk_location(inp['lat'], inp['lon'], inp['tz'])
        if inp['kind'] == 'ashrae_clear_sky':
            wea = Wea.from_ashrae_clear_sky(loc, inp['clearness'], inp['timestep'], inp['leap'])
        else:
            wea = Wea.from_ashrae_revised_clear_sky(loc, [inp['tb']] * 12, [inp['td']] * 12, inp['timestep'],
                                                    inp['leap'], inp['use2017'])
        suns = _suns(wea)
        dnr = list(wea.direct_normal_irradiance.values)
        dhr = list(wea.diffuse_horizontal_irradiance.values)
        ghi = list(wea.global_horizontal_irradiance.values)
        for i, (alt, _az) in enumerate(suns):
            if alt <= 0 and (dnr[i] != 0 or dhr[i] != 0 or ghi[i] != 0):
                return {'required': 'zero at sun altitude %r (step %d)' % (alt, i),
                        'observed': (dnr[i], dhr[i], ghi[i]),
                        'sig': {'clause': 'night_zero', 'model': 'wea_' + inp['kind']}}
            if not _fin([dnr[i], dhr[i], ghi[i]]) or dnr[i] < 0 or ghi[i] < 0:
                return {'required': 'finite, dni >= 0, ghi >= 0 (step %d)' % i,
                        'observed': (dnr[i], dhr[i], ghi[i]),
                        'sig': {'clause': 'nonneg', 'model': 'wea_' + inp['kind']}}
            if not _rel(ghi[i], dhr[i] + dnr[i] * math.sin(math.radians(alt))):
                return {'required': 'ghi = dhi + dni*sin(alt) at step %d' % i, 'observed': ghi[i],
                        'sig': {'clause': 'closure', 'where': 'wea_' + inp['kind']}}
        return None
    if op == 'closure_designday':
        from ladybug.designday import DesignDay, DryBulbCondition, HumidityCondition, WindCondition, \
            ASHRAEClearSky, ASHRAETau
        from ladybug.dt import Date
        from ladybug.sunpath import Sunpath
        loc = _mk_location(inp['lat'], inp['lon'], inp['tz'])
        d = Date(inp['month'], inp['day'])
        if inp['sky'] == 'clear':
            sky = ASHRAEClearSky(d, inp['clearness'], inp['dls'])
        else:
            sky = ASHRAETau(d, inp['tb'], inp['td'], inp['use2017'], inp['dls'])
        dd = DesignDay('c10', 'SummerDesignDay', loc, DryBulbCondition(30, 10),
                       HumidityCondition('Wetbulb', 20, 101325), WindCondition(2, 0), sky)
        dn, dh, gh = [list(c.values) for c in dd.hourly_solar_radiation]
        sp = Sunpath.from_location(loc)
        alts = [sp.calculate_sun_from_date_time(t).altitude for t in sky._get_datetimes(1)]
        for i, alt in enumerate(alts):
            want = dh[i] + dn[i] * math.sin(math.radians(alt))
            if not _rel(gh[i], want):
                return {'required': 'ghi = dhi + dni*sin(alt) = %r at hour %d' % (want, i), 'observed': gh[i],
                        'sig': {'clause': 'closure', 'where': 'designday_' + inp['sky']}}
            if alt <= 0 and (dn[i] != 0 or dh[i] != 0 or gh[i] != 0):
                return {'required': 'zero at altitude %r' % alt, 'observed': (dn[i], dh[i], gh[i]),
                        'sig': {'clause': 'night_zero', 'model': 'designday_' + inp['sky']}}
            if dn[i] < 0 or gh[i] < 0 or not _fin([dn[i], dh[i], gh[i]]):
                return {'required': 'finite, dni >= 0, ghi >= 0', 'observed': (dn[i], dh[i], gh[i]),
                        'sig': {'clause': 'nonneg', 'model': 'designday_' + inp['sky']}}
        return None
    if op == 'airmass_zenith':
        v = sm.get_relative_airmass(90, inp['model'])
        if not (isinstance(v, float) and abs(v - 1) <= 0.01):
            return {'required': 'about 1 (within 0.01) at the zenith', 'observed': v,
                    'sig': {'model': inp['model'], 'clause': 'zenith'}}
        return None
    if op == 'airmass_monotone':
        a1, a2 = inp['a1'], inp['a2']           # 0 < a1 < a2 <= 90
        v1, v2 = sm.get_relative_airmass(a1, inp['model']), sm.get_relative_airmass(a2, inp['model'])
        if not (_fin([v1, v2]) and v1 >= v2 * (1 - 1e-12)):
            if a1 < 3.5:
                region = 'below_3.5deg'
            elif _fin([v1, v2]) and a2 >= 89.9 and v1 >= v2 * (1 - 1e-6):
                region = 'zenith_wobble_below_1e-6'
            else:
                region = 'above_3.5deg'
            return {'required': 'airmass(%r) >= airmass(%r)' % (a1, a2), 'observed': (v1, v2),
                    'sig': {'model': inp['model'], 'clause': 'monotone', 'region': region}}
        return None
    if op == 'airmass_agree':
        a = inp['alt']                          # >= 10
        vs = {m: sm.get_relative_airmass(a, m) for m in AM_MODELS}
        lo, hi = min(vs.values()), max(vs.values())
        if not (_fin(vs.values()) and lo > 0 and hi / lo - 1 <= 0.05):
            worst = max(vs, key=lambda m: abs(vs[m] - sorted(vs.values())[3]))
            return {'required': 'the 7 models within 5 %% of one another at %r deg' % a, 'observed': vs,
                    'sig': {'clause': 'agree', 'model': worst}}
        return None
    if op == 'absam_linear':
        am, p, k = inp['am'], inp['p'], inp['k']
        f = sm.get_absolute_airmass
        if not (_rel(f(am, k * p), k * f(am, p), 1e-12, 0) and _rel(f(am, 101325.), am, 1e-12, 0)
                and f(None, p) is None):
            return {'required': 'absolute air mass linear in pressure, identity at 101325 Pa',
                    'observed': (f(am, p), f(am, k * p), f(am, 101325.)), 'sig': {'clause': 'absam_linear'}}
        return None
    if op == 'extra_range':
        sc = inp['sc']
        es = [sm.get_extra_radiation(d, sc) for d in range(1, 366)]
        worst = max(abs(e / sc - 1) for e in es)
        if worst > 0.04:
            return {'required': 'within 4 % of the solar constant', 'observed': worst,
                    'sig': {'clause': 'extra_range'}}
        arg = es.index(max(es)) + 1
        if not arg <= 10:
            return {'required': 'maximum in early January (doy <= 10)', 'observed': arg,
                    'sig': {'clause': 'extra_january'}}
        return None
    if op == 'skytemp_inverse':
        sigma = 5.6697e-8
        eps, t = inp['emissivity'], inp['t_kelvin']
        got = sm.calc_sky_temperature(eps * sigma * t ** 4, eps)
        if not _rel(got + 273.15, t, 1e-10, 0):
            return {'required': 'calc_sky_temperature(eps*sigma*T^4, eps) = T - 273.15 = %r' % (t - 273.15),
                    'observed': got, 'sig': {'clause': 'skytemp_inverse'}}
        hir = sm.calc_horizontal_infrared(inp['sky_cover'], inp['db'], inp['dp'])
        # the emissivity the infrared law used, recovered from its own output
        emiss = hir / (sigma * (inp['db'] + 273.15) ** 4)
        back = sm.calc_sky_temperature(hir, emiss)
        if not _rel(back + 273.15, inp['db'] + 273.15, 1e-10, 0):
            return {'required': 'sky temperature inverts calc_horizontal_infrared: %r' % inp['db'],
                    'observed': back, 'sig': {'clause': 'skytemp_inverse_hir'}}
        ts = sm.calc_sky_temperature(hir)
        if not _rel(sigma * (ts + 273.15) ** 4, hir, 1e-10, 0):
            return {'required': 'sigma*(Tsky+273.15)^4 = horiz_ir = %r' % hir,
                    'observed': sigma * (ts + 273.15) ** 4, 'sig': {'clause': 'skytemp_inverse_hir'}}
        return None
    raise ValueError('unknown op ' + op)


replay = check_case

SUBCLAIM_OPS = {'airmass_zenith': 'airmass_about_1_at_zenith', 'airmass_monotone': 'airmass_monotone',
                'airmass_agree': 'airmass_models_agree_above_10deg', 'extra_range': 'extraterrestrial_range',
                'day_physical': 'finite_and_nonnegative'}

FIXED_CORPUS = [
    # known finding: Young & Irvine 1967 turns over below 3.44 deg (example_input of C10-youngirvine-horizon)
    ('airmass_monotone', {'model': 'youngirvine1967', 'a1': 1.0, 'a2': 3.0}),
    # the 'simple' model at the zenith and on the way down (defect repaired by fixes/C10_simple_airmass_radians)
    ('airmass_zenith', {'model': 'simple'}),
    ('airmass_monotone', {'model': 'simple', 'a1': 30.0, 'a2': 60.0}),
    # known finding: Kasten-type corrections make four formulas dip by < 1e-7 within 0.03 deg of the zenith
    ('airmass_monotone', {'model': 'kastenyoung1989', 'a1': 89.98, 'a2': 90.0}),
    ('airmass_agree', {'alt': 45.0}),
    ('night_zero', {'model': 'ashrae_clear_sky', 'alt': 0.0, 'params': {'month': 6, 'clearness': 1}}),
    ('night_zero', {'model': 'disc', 'alt': 2.5, 'params': {'ghi': 50.0, 'doy': 100, 'pressure': 101325}}),
    ('skytemp_inverse', {'emissivity': 0.85, 't_kelvin': 288.15, 'sky_cover': 3, 'db': 15.0, 'dp': 5.0}),
    ('extra_range', {'sc': 1366.1}),
]
# real Wea objects: build, set enforce_on_hour (second step), then evaluate -- both flag states, timestep 1 and
# >1, leap / non-leap, northern and southern hemisphere
for _loc, _md, _ts, _leap in (((41.98, -87.92, -6), (6, 21), 1, False), ((-33.9, 151.2, 10), (12, 21), 1, True),
                              ((41.98, -87.92, -6), (3, 20), 2, False), ((-33.9, 151.2, 10), (6, 21), 4, False)):
    for _enf in (False, True):
        _w = _corpus_wea(_loc[0], _loc[1], _loc[2], _md[0], _md[1], _ts, _leap, _enf)
        FIXED_CORPUS.append(('closure_wea', {'wea': _w}))
        FIXED_CORPUS.append(('surface_wea', {'wea': _w, 'surface': [90, 0, 0.2, True]}))
        FIXED_CORPUS.append(('surface_wea', {'wea': _w, 'surface': [0, 0, 0.2, True], 'face_all': True}))
        FIXED_CORPUS.append(('illum_wea', {'wea': _w, 'dew': 8.0}))


def _params(rng, name):
    cc, rh, t, t3, ws = gen_weather(rng)
    if name == 'ashrae_clear_sky':
        return {'month': rng.randrange(1, 13), 'clearness': rng.choice([1, 1.2, 0.5, rng.uniform(0, 1.2)])}
    if name == 'ashrae_revised_clear_sky':
        return {'tb': rng.uniform(0.2, 0.8), 'td': rng.uniform(1.5, 2.8), 'use2017': rng.random() < 0.5}
    if name == 'zhang_huang_solar':
        return {'cc': cc, 'rh': rh, 't': t, 't3': t3, 'ws': ws}
    nb = [gen_alt(rng) for _ in range(rng.choice([1, 3, 5]))]
    if name.startswith('zhang_huang_split'):
        return {'cc': cc, 'rh': rh, 't': t, 't3': t3, 'ws': ws, 'doy': rng.randrange(1, 367),
                'pressure': gen_pressure(rng), 'neighbours': nb}
    if name in ('disc', 'dirint'):
        return {'ghi': rng.choice([rng.uniform(0, 1200), rng.uniform(0, 300), 0.0]), 'doy': rng.randrange(1, 367),
                'pressure': gen_pressure(rng), 'dew': rng.uniform(-30, 28), 'neighbours': nb}
    if name == 'illuminance':
        return {'dhi': rng.choice([0, rng.uniform(1, 500)]), 'dni': rng.choice([0, rng.uniform(0, 1000)]),
                'dew': rng.uniform(-40, 30)}
    raise ValueError(name)


SKY_MODELS = ['ashrae_clear_sky', 'ashrae_revised_clear_sky', 'zhang_huang_solar', 'zhang_huang_split_dirint',
              'zhang_huang_split_disc', 'disc', 'dirint', 'illuminance']


def _oracle_cases(ctx):
    rng = ctx.rng
    big = ctx.searching or not ctx.quick
    for c in FIXED_CORPUS:
        yield c
    for name in SKY_MODELS:
        for _ in range(600 if big else 360):
            yield 'night_zero', {'model': name, 'alt': gen_alt(rng, up=False), 'params': _params(rng, name)}
        if name == 'disc':
            for _ in range(100):    # DISC's own minimum altitude (3 deg): zero below it
                yield 'night_zero', {'model': name, 'alt': rng.choice([3.0, 2.9999, rng.uniform(0, 3)]),
                                     'params': _params(rng, name)}
        for _ in range(3000 if big else 1200):
            yield 'day_physical', {'model': name, 'alt': gen_alt(rng, up=True), 'params': _params(rng, name)}
    for name in ('ashrae_clear_sky', 'ashrae_revised_clear_sky'):
        for _ in range(4000 if big else 1500):
            a1, a2 = sorted([gen_alt(rng, up=True), gen_alt(rng, up=True)])
            if rng.random() < 0.3:
                a2 = min(90.0, a1 + rng.choice([1e-9, 1e-4, 0.01]))
            yield 'clear_monotone', {'model': name, 'params': _params(rng, name), 'a1': a1, 'a2': a2}
    for _ in range(300 if big else 120):
        alts, _g, doys, pres, _d = gen_day_series(rng)
        rows = []
        for a, d, p in zip(alts, doys, pres):
            cc, rh, t, t3, ws = gen_weather(rng)
            rows.append([a, d, cc, rh, t, t3, ws, p])
        yield 'closure_zh', {'rows': rows, 'use_disc': rng.random() < 0.5}
    for _ in range(60 if big else 24):
        spec = _wea_spec(rng)
        yield 'closure_wea', {'wea': spec}
        yield 'surface_wea', {'wea': spec, 'surface': [90, rng.choice([0, 180, rng.uniform(0, 360)]),
                                                       rng.choice([0.2, rng.random()]), rng.random() < 0.6]}
        yield 'surface_wea', {'wea': spec, 'surface': [rng.uniform(-90, 90), rng.uniform(0, 360), rng.random(),
                                                       rng.random() < 0.5]}
        yield 'surface_wea', {'wea': spec, 'surface': [0, 0, 0.2, True], 'face_step': rng.randrange(1000)}
        yield 'surface_wea', {'wea': spec, 'surface': [90, 0, 0.2, True]}
        yield 'surface_wea', {'wea': spec, 'surface': [0, 0, 0.2, True], 'face_all': True, 'face_limit': 12}
        yield 'illum_wea', {'wea': spec, 'dew': rng.uniform(-30, 28)}
    for _ in range(6 if big else 1):
        lat, lon, tz = rng.choice(gen_locations(rng))
        base = {'lat': lat, 'lon': lon, 'tz': tz, 'timestep': rng.choice([1, 1, 2]) if big else 1,
                'leap': rng.random() < 0.3}
        if rng.random() < 0.5:
            yield 'wea_constructor', dict(base, kind='ashrae_clear_sky', clearness=rng.choice([1, 1.2, 0.8]))
        else:
            yield 'wea_constructor', dict(base, kind='ashrae_revised_clear_sky', tb=rng.uniform(0.2, 0.8),
                                          td=rng.uniform(1.5, 2.8), use2017=rng.random() < 0.5)
    for _ in range(100 if big else 36):
        lat, lon, tz = rng.choice(gen_locations(rng))
        base = {'lat': lat, 'lon': lon, 'tz': tz, 'month': rng.randrange(1, 13), 'day': rng.randrange(1, 28),
                'dls': rng.random() < 0.3}
        if rng.random() < 0.5:
            yield 'closure_designday', dict(base, sky='clear', clearness=rng.choice([1, 1.2, rng.uniform(0, 1.2)]))
        else:
            yield 'closure_designday', dict(base, sky='tau', tb=rng.uniform(0.2, 0.8), td=rng.uniform(1.5, 2.8),
                                            use2017=rng.random() < 0.5)
    for m in AM_MODELS:
        yield 'airmass_zenith', {'model': m}
        for _k in range(2000 if big else 900):
            # youngirvine1967 below 3.5 deg is a known finding (fixed corpus + 3 generated pairs only,
            # so that known failures do not exhaust the failure budget of the run)
            low_ok = m != 'youngirvine1967' or _k < 3
            a1, a2 = sorted([rng.uniform(3.5, 90), rng.uniform(3.5, 90)] if rng.random() < 0.7 or not low_ok
                            else [rng.uniform(1e-3, 5), rng.uniform(1e-3, 90)])
            if rng.random() < 0.2:
                a2 = min(90.0, a1 + rng.choice([0.001, 0.01, 0.1]))
            if a1 < a2:
                yield 'airmass_monotone', {'model': m, 'a1': a1, 'a2': a2}
    for a in [10.0, 10.5, 45.0, 89.0, 90.0] + [rng.uniform(10, 90) for _ in range(3000 if big else 1200)]:
        yield 'airmass_agree', {'alt': a}
    for _ in range(2000 if big else 900):
        yield 'absam_linear', {'am': rng.uniform(0.9, 40), 'p': rng.uniform(50000, 110000),
                               'k': rng.choice([2.0, 0.5, rng.uniform(0.1, 3)])}
    for sc in (1366.1, 1370.0, 1355.0, 1000.0):
        yield 'extra_range', {'sc': sc}
    for _ in range(3000 if big else 1200):
        db = rng.uniform(-45, 50)
        yield 'skytemp_inverse', {'emissivity': rng.uniform(0.3, 1.0), 't_kelvin': rng.uniform(180, 330),
                                  'sky_cover': rng.choice([0, 10, rng.uniform(0, 10)]), 'db': db,
                                  'dp': db - rng.uniform(0, 30)}


def oracle(ctx):
    def check_and_count(op, inp):
        res = check_case(op, inp)
        if op in SUBCLAIM_OPS:
            ctx.subclaim(SUBCLAIM_OPS[op], res is None)
        elif op == 'clear_monotone' and inp['model'] == 'ashrae_revised_clear_sky':
            ctx.subclaim('tau_model_monotone_and_below_extraterrestrial', res is None)
        elif op == 'night_zero' and 'model' in inp:
            ctx.count('night_zero:' + inp['model'])
        return res

    run_oracle_cases(ctx, _oracle_cases(ctx), check_and_count)


LEVEL_TEXT = ('Machine-checked Lean 4 theorems over the real-number instance of an executable model of '
              'skymodel.py and of the Wea / design-day irradiance formulas: every model returns 0 at or below the '
              'horizon (DISC below its minimum altitude), GHI = DHI + DNI*sin(altitude) in the Wea, design-day and '
              'Zhang-Huang split code, absolute air mass is linear in pressure, ASHRAE clear-sky DNI is '
              'non-negative, non-decreasing in altitude on (0, 90] and below the extraterrestrial value, '
              'Zhang-Huang and DISC outputs are clamped non-negative, calc_sky_temperature inverts the infrared '
              'law, and the directional-irradiance identities (upward surface = global horizontal, total = sum, '
              'surface facing the sun receives DNI). The same definitions, run on Float by a compiled driver, are '
              'compared with the real functions on every run; tables are regenerated from the source. '
              'PARTIAL: closeness of the 7 air-mass formulas, the extraterrestrial range, finiteness and the '
              'sign of DIRINT / illuminance outputs are sampled on the real code only.')
LEVEL_NOTE = ('Trusted: Lean kernel; axioms propext/Classical.choice/Quot.sound only; the table extractor; the '
              'correspondence run (agreement within 1e-12 relative on generated inputs only); IEEE/libm vs real '
              'arithmetic is not proved; sun positions (C05) and dew points (C09) are inputs. Sampled sub-claims '
              'are tests, not theorems.')
TECHNIQUE = ('Lean 4 proof over the reals (Mathlib analysis lemmas for exp/sin/arccos/rpow) about a polymorphic '
             'model whose Float instance is differential-tested against skymodel.py / wea.py / designday.py')
