"""C17 — Plots place each datum at the cell of its own time or bin, in its own colour.

Model: lean/Ladybug/Model/Plot.lean (pure placement functions, on Model/AP.lean, Model/Cal.lean) and
lean/Ladybug/Model/PlotObj.lean (round 3: object state machines of WindRose, MonthlyChart,
PsychrometricChart with their lazily filled slots); theorems: lean/Ladybug/Props/C17.lean (lemmas:
Proofs/C17Lemmas|C17Hist|C17Bars|C17Rev|C17Obj.lean); driver: drv_c17.  Tie: correspondence (C).

The model describes hourlyplot.py / monthlychart.py WITH fixes/C17_hourlyplot_num_y.patch,
fixes/C17_hourlyplot_reverse_by_doy.patch and fixes/C17_daily_bars_first_month.patch applied (all three
are committed in /repo).

Round 3 (histories, failure paths, process order, rare classes)
---------------------------------------------------------------
State of the anchored classes:
  * WindRose: setters frequency_hours, frequency_intervals_compass, show_zeros, show_freq, north, base_point,
    frequency_spacing_distance, legend_parameters (all with assertions); lazy slots _prevailing_direction
    (never reset), _bin_vectors, _zeros_per_bin, _container, _compass, _poly_array;
  * MonthlyChart: set_minimum_by_index / set_maximum_by_index edit _minimums / _maximums (bad index ignored);
  * PsychrometricChart: lazy _colored_mesh, _data_points, _chart_border ...; data_mesh(collection) asserts
    the length; legend_parameters is an editable object;
  * HourlyPlot: no setter; values / colors / colored_mesh2d are recomputed on every read; the only editable
    thing is the legend_parameters object (min / max / colors) that colours the faces (its setters refuse a
    non-number, min > max, a string or a single colour: after /repo b8550a8 a refused colour list stores nothing).
Histories (ops `whist`, `bhist`, `phist`, `hhist`): generated operation lists on ONE object - reads in random
order and repeated, every public setter between reads, refused calls (values the validation code rejects:
0 / negative / strings / wrong types / wrong lengths / indices outside the chart) followed by further
reads, a final sweep over every observable in random order, the same question asked twice.  Each step is
compared with the Lean object state machine (correspondence) and judged by the oracle: every observable
the property speaks about must be what the statement requires for the PUBLIC STATE ESTABLISHED SO FAR
(tracked by the harness from the accepted calls only); a refused call changes nothing.
Process order (op `order`): a slice of the whole oracle stream (plain cases and histories) is evaluated in
3 (thorough / searching: 4) fresh interpreters in different orders - rare classes first (refused calls,
leap, wrapping, sub-hourly, overnight, reversed, single samples, odd direction counts, IP / daily charts),
the reverse, shuffled; pairs that differ only in year kind / timestep are adjacent.  A failure that needs
its predecessors is reported as {"order": [...]} (shrunk) and replayed in a fresh interpreter.

Consumers of every modelled producer (each is exercised by correspondence and / or oracle):
  * HourlyPlot grid + face pattern (_num_x, _num_y, _compute_colored_mesh2d): colored_mesh2d (hp, hhist),
    colored_mesh3d (hhist), chart_border2d (hp: grid size); per-day reversal: values, colors (hp, hhist);
    container.value_colors / legend.color_range: colours of colored_mesh2d / 3d, colors (hp, hhist)
  * histogram_circular: WindRose._compute_windrose_data -> _histogram_data (wrose, whist),
    WindRose.prevailing_direction_from_data (whist `static`), BaseCollection.histogram_circular (circ)
  * histogram: BaseCollection.histogram (hist); WindRose._histogram_data_nested (touched by whist `mesh`)
  * WindRose._histogram_data: histogram_data, prevailing_direction, real_freq_max,
    frequency_intervals_mesh, frequency_maximum (whist reads), zero_count; container / colored_mesh /
    windrose_lines / frequency_lines / orientation_lines / color_range / compass (whist touches: they must
    not disturb the reads)
  * MonthlyChart _horizontal_bar_count / _is_cumulative / _minimums / _maximums: _compute_monthly_bars and
    _compute_daily_bars through data_meshes (bars, mbars, dbars, bhist)
  * PsychrometricChart binning loop (twice in the source): _compute_hour_values -> time_matrix,
    hour_values, colored_mesh faces (psych, psych2, phist); data_mesh (phist `data`)
Rare classes counted as strata (`stratum:*`, `hp:*`, `wrose:*` counters in evidence): all 12 valid timesteps,
leap, year-wrapping, overnight and st>0..23 windows, single-datum and single-day plots, immutable twins of
the inputs, discontinuous wind data with 1-5 samples, all-calm wind data, direction counts 1..36, zero /
negative / reversed axis ranges of bar charts, IP / daily / sub-hourly / constant-input psychrometric charts.

Round 4 (input shapes, aliasing / one-shot iterables, conventions, numeric edges, rare branches)
------------------------------------------------------------------------------------------------
The model and the oracle describe windrose.py WITH fixes/C17_windrose_default_hours_cut.patch (histogram_data cuts
with int(frequency_maximum)); until that patch is committed the TypeError of the unrepaired slice is reported
under the finding C17-windrose-default-hours-cut (by the oracle AND by the whist correspondence, which maps a
model/code difference that is exactly this TypeError onto the finding's signature instead of a broken tie).
Classes closed (generator strata + oracle clauses; Lean: Proofs/C17Shape.lean and 8 new theorems):
  (i) hand-over shapes: collections that are NOT validated and whose date-times come shuffled / reversed / in
      calendar order for a wrapped period / afternoons first (HourlyPlot, WindRose, MonthlyChart validate them
      themselves); values and date-times as tuples; periods built by AnalysisPeriod.from_string (plain, upper case
      with doubled blanks and two-digit fields, repr round trip), from_dict, string arguments; psychrometric constants
      and dimensions as text ('5e1', ' 37.5 ', '+100').  The oracle places datum i by the date-time the INPUT gives it.
  (f) aliasing / one-shot iterables: histogram / histogram_circular values as tuple, generator, iter(), map, zip;
      MonthlyChart collections as tuple / generator / iter / map; every returned list edited in place and the
      question asked again; a second object of the same data in the same process must agree.
  (g) conventions: monthly, daily, monthly-per-hour and hourly charts over periods that WRAP the year end (month
      number != column); columns tied to the chart's own month_labels; new oracle op `mlines` (data_polylines and
      hourly bands of MonthlyChart: column, hour offset, affine height of the data / mean line).
  (h) numeric edges: all 12 timesteps at the far end of the year (HP_FAR_END), non-dyadic / 1e-3 / 1e6 cell sizes
      and offsets, values and edges scaled by 2^-40 / 2^53, mirrored negative histograms, directions many turns
      away, humidities 2^-40 / 2^53.
  (e) every concrete class: continuous / discontinuous / immutable twins (HourlyPlot, WindRose), Monthly / Daily /
      MonthlyPerHour / Hourly collections (MonthlyChart), Hourly continuous + discontinuous / Daily / constants
      (PsychrometricChart); HourlyPlot.from_z_dim_per_unit + colored_mesh3d against colored_mesh2d.
  (j) branches of the anchored functions, each counted as `branch:*` in evidence:
      hourlyplot: __init__ validates itself | _num_x reversed | _num_y whole day / window / overnight | face pattern
      plain / reversed (t_diff both forms) | m_aper of an overnight window | per-day reversal of values / colors |
      z_dim != 0 (height field, through from_z_dim_per_unit);
      histogram: below first edge | at / above last edge | search loop falls through (non-monotone edges);
      histogram_circular: hist_range None | outside the range | plain bin | bin wrapping the range end;
      windrose: calm filter on / off | histogram_data uncut / cut with assigned hours / cut with DEFAULT hours |
      prevailing cached / computed, ties;  monthlychart: bars cumulative / from the base line | negative cumulative
      bar (bar_y_low) | daily month change | axis range from LegendParameters (0 is a value) | ignored index;
      psychchart: hour off the chart | humidity loop falls through (rh >= 100) | temperature loop falls through
      (t == max) | IP categories | constant input.
      Not reached through this harness: the sign-split ('+/-') branches of stacked cumulative hourly / monthly-per-
      hour bands (only non-cumulative temperature data is drawn as lines), hour / month label geometry.

Round 6 (argument paths of one shared check)
--------------------------------------------
Class: a side effect of a helper that serves SEVERAL ARGUMENTS (PsychrometricChart._check_input / _check_datacoll store
the hours one value stands for and the number of values, for the temperature and for the humidity) is moved to the
caller or kept on one argument path only: the answer is then right for some pairs of input forms and wrong for others.
Closed by the op `pforms` (generator + oracle + correspondence): every pair of input FORMS - a number, text of a
number, HourlyContinuousCollection at each of the 12 timesteps, HourlyDiscontinuousCollection at 7 timesteps (few samples,
any order), DailyCollection - with the collection on the temperature side, on the humidity side, or on both.  Oracle,
from the statement ("cells count exactly the HOURS ..."): a cell holds its number of values times the hours one value
of that form stands for (24 for a daily value, 1 / timestep for an hourly one), the cells add up to the hours of the
on-chart data, one face per non-empty cell, and the sibling argument paths (the constant side handed over as a
collection of the same form) give the same hours.  Model: PlotObj.PForm / hoursPerValue / cellHours (driver op
`pforms`); theorems C17_psych_hours_either_argument, _hours_of_form, _hours_later_collection, _cell_hours, _hours_sum.
Not judged: two collections of DIFFERENT forms (the statement does not say which one gives the hours; the code takes
the humidity's), two numbers (one value, counted as one hour).
"""
import contextlib
import io
import json
import math
import os
import subprocess
import sys
from datetime import datetime, timedelta
from fractions import Fraction

from harness import core
from harness.core import compare_batch, err_name, run_oracle_cases

PROP = 'C17'
PROOF_MODULES = ['Ladybug.Props.C17']
GREP_MODULES = ['Ladybug.Model.Plot', 'Ladybug.Model.PlotObj', 'Ladybug.Proofs.C17Obj', 'Ladybug.Proofs.C17Shape', 'Ladybug.Proofs.C17Lemmas', 'Ladybug.Proofs.C17Hist', 'Ladybug.Proofs.C17Bars',
                'Ladybug.Proofs.C17Rev', 'Ladybug.Drv.C17', 'Ladybug.Model.AP',
                'Ladybug.Model.Cal', 'Ladybug.Py', 'Ladybug.DrvCore']
RULE = ('correspondence: hourly plots over analysis periods (partial, year-wrapping, hour windows incl. overnight '
        'and st>0..23, all 12 valid timesteps, leap) x data (continuous | whole windowed period | sparse subsets '
        'incl. same day-of-month in several months) x reverse_y x dyadic cell sizes/base points, values = '
        'distinct ids; histogram / histogram_circular on value lists with samples on the edges and outside; '
        'wind roses for direction counts 1..36 with samples on sector edges, 0/360 and calm speeds; monthly '
        'and daily bar charts (1-4 collections of 3 data types, stack on/off, explicit axis ranges); '
        'psychrometric charts (SI) with hours on cell edges and outside the chart.  oracle: the statement '
        'evaluated on the real objects (face centroid/colour vs day column and time row of the datum, sector '
        'membership by modular arithmetic on Fractions, bin edges, bar columns and affine heights, cell counts '
        'by brute force; lines / bands of hourly and monthly-per-hour charts).  Round 4: the same data handed over '
        'unvalidated in other orders, as tuples / generators / iter / map objects, with periods built from text; periods '
        'that wrap the year end for every chart; all 12 timesteps at the far end of the year; magnitudes 2^-40 .. 2^53; '
        'returned containers edited in place and second objects in the same process.  Round 3: operation histories on one WindRose / MonthlyChart / PsychrometricChart / '
        'HourlyPlot (reads in random order and repeated, every setter, refused calls, final sweep) compared step '
        'by step with the Lean object state machines and judged by the oracle against the public state '
        'established so far; a slice of the oracle stream re-run in 3-4 fresh interpreters in different orders '
        '(rare classes first); psychrometric IP / daily / sub-hourly / constant-input charts, discontinuous and '
        'all-calm wind data, immutable input twins.  A case is non-trivial when the implementation returns a '
        'plot (not an error); distinct = distinct (op, input).')
TRUSTED_BASE = [
    'ladybug_geometry: Mesh2D.from_grid face order (column-major), remove_faces_only, colors setter, Mesh2D '
    'vertices/faces of bar and psychrometric meshes - exercised (not verified) by every hp/mbars/dbars/psych '
    'comparison, which reads cells back from centroids/vertices of the real meshes',
    'modelled, not verified: Python sorted() stability (List.mergeSort), float `%` and float arithmetic of '
    'bar/angle formulas (model is exact Rat; compared within 1e-9, bit-exact inputs are dyadic)',
    'the colour of a value is legend.color_range.color(value) (C15 model); C17 proves only that each face '
    'carries the colour computed from its own value',
    'validate_analysis_period (C13) and AnalysisPeriod.moys (C04) are taken from their own models; the hourly '
    'theorems assume the data date-times are a chronological sub-list of the period (what validation establishes)',
]
ASSUMPTIONS = [
    'the three C17 fix commits (259e666, 9d435cd, 0d57465) are in the checked tree',
    'fixes/C17_windrose_default_hours_cut.patch describes the intended behaviour of WindRose.histogram_data (cut with an '
    'integer bound); on a tree without it the TypeError is reported as finding C17-windrose-default-hours-cut',
    'psychrometric chart: SI only in the model (IP temperature categories are float-accumulated; oracle only)',
]
LEVEL_TEXT = ('Machine-checked Lean 4 theorems (45) over an executable model of the data placement of HourlyPlot, '
              'histogram/histogram_circular, WindRose, MonthlyChart bars and PsychrometricChart cells, for all inputs '
              'of each clause: the hourly mesh of a non-wrapping period (any hour window incl. overnight, all 12 '
              'timesteps, leap or not; continuous, windowed and sparse data; y axis normal and reversed) has one face '
              'per value and the face of a value lies in the column of its day and the (mirrored) row of its time of '
              'day, carrying the colour computed from its own value; histogram lists partition the input by the '
              'half-open edges and their sizes add up; every wind-rose sample is counted once (sector counts + calms = '
              'samples, for every direction count) and the prevailing direction is the arg-max set; bar heights are '
              'affine in the value and monthly/daily bars stand in the column of their month (any start day); '
              'psychrometric cells count exactly their own hours and sum to the on-chart hours. For the classes with '
              'state (WindRose, PsychrometricChart, MonthlyChart) an object state machine with the lazy slots of the '
              'code is modelled and it is proved that after ANY operation history (reads in any order, setters, '
              'refused calls) every answer is that of a fresh object built from the public state established so far, '
              'that refused calls change nothing and that reads are pure and commute. Round 4: the order in which an '
              'unvalidated collection is handed over is proved irrelevant (validation restores the chronological list the '
              'cell theorems speak about), the column of a month in a chart that wraps the year end is its distance from '
              'the start month modulo 12, the fall-through branches of the psychrometric loops put saturated air in the '
              'top row and the maximum temperature in the last column, and the cut of histogram_data never raises. '
              'The model is compared '
              'with the real classes (mesh faces, centroids, values, bins, bar vertices, cell counts) on '
              'boundary-biased generated inputs on every run, and the whole statement is evaluated on the real objects '
              'by an independent oracle; operation histories on one object are compared step by step and a slice of '
              'the oracle stream is re-run in fresh interpreters in different orders.')
LEVEL_NOTE = ('Trusted: Lean kernel; axioms propext/Classical.choice/Quot.sound only; the correspondence run '
              '(agreement on generated inputs only); ladybug_geometry mesh conventions; exact-rational model of float '
              'formulas (compared within 1e-9; float `d % 360.0` is outside the model); C04 characterisation of '
              'AnalysisPeriod.moys and the C13 validation post-condition (data date-times are a chronological sub-list '
              'of the period). NOT proved, only compared and oracle-checked: year-wrapping periods of the hourly plot, '
              'the IP psychrometric chart, histogram_circular with hist_range=None, bar_count staying below the '
              'horizontal bar count (hypothesis of the column theorems), the drawing geometry of the wind rose '
              '(colored_mesh, lines: only touched inside histories), the lines and bands of hourly / monthly-per-hour '
              'MonthlyCharts (oracle op mlines). Model and oracle describe windrose.py with '
              'fixes/C17_windrose_default_hours_cut.patch; until it is committed that defect is reported as a known '
              'finding. Three open findings are listed in known_findings.d/C17.json.')
TECHNIQUE = ('Lean 4 proof (list induction, sorted-list uniqueness on the C04 characterisation of moys, omega, linarith) about '
             'a hand model tied to the plot classes by differential correspondence on mesh faces and bins')

STEP_TS = (1, 2, 3, 4, 6)
ALL_TS = (1, 2, 3, 4, 5, 6, 10, 12, 15, 20, 30, 60)


# ---------------------------------------------------------------------------------------------
# small helpers


def _b(x):
    return '1' if x else '0'


def _fr(x):
    """Exact rational token of a float/int."""
    f = Fraction(x)
    return '%d' % f.numerator if f.denominator == 1 else '%d/%d' % (f.numerator, f.denominator)


def _parse_rat(tok):
    return Fraction(tok)


def _lists(s):
    """Parse 'ok | a b | c |' -> [[a,b],[c],[]] (token lists)."""
    body = s[2:].strip()
    if not body:
        return []
    parts = body.split('|')[1:]
    return [p.split() for p in parts]


def _year(leap):
    return 2016 if leap else 2017


def _moy_of(leap, month, day, hour=0, minute=0):
    d = datetime(_year(leap), month, day, hour, minute) - datetime(_year(leap), 1, 1)
    return d.days * 1440 + d.seconds // 60


def _dt_of(leap, moy):
    return datetime(_year(leap), 1, 1) + timedelta(minutes=moy)


def _ny_minutes(leap):
    return (366 if leap else 365) * 1440


def _mdays(leap, month):
    return [31, 29 if leap else 28, 31, 30, 31, 30, 31, 31, 30, 31, 30, 31][month - 1]


def period_moys(ap):
    """Independent enumeration of an analysis period (the description proved as C04_mem_moys / chrono):
    grid steps in the daily window between start moment and end of the end hour, chronological."""
    stM, stD, stH, enM, enD, enH, ts, leap = ap
    step = 60 // ts
    n = _ny_minutes(leap)
    st = _moy_of(leap, stM, stD, stH)
    en = _moy_of(leap, enM, enD, enH)
    span = (en + 60 - st) if st <= en else (n - st + en + 60)
    out = []
    for k in range(0, span, step):
        m = (st + k) % n
        mod = m % 1440
        if stH <= enH:
            ok = (stH * 60 <= mod <= enH * 60) or (stH == 0 and enH == 23)
        else:
            ok = mod >= stH * 60 or mod <= enH * 60
        if ok:
            out.append(m)
    return out


def _rand_ap(rng, kind=None):
    leap = rng.random() < 0.3
    q = rng.random()
    ts = rng.choice(STEP_TS) if q < 0.5 else rng.choice(ALL_TS) if q < 0.62 else 1
    kind = kind or rng.choice(['plain', 'plain', 'window', 'window23', 'overnight', 'wrap', 'wrapwin', 'day'])
    ndays = 366 if leap else 365
    d0 = rng.randrange(ndays)
    if kind == 'day':
        ln = 1
    else:
        ln = rng.choice([1, 2, 3, 5, 8, 31, 32]) if rng.random() < 0.85 else rng.randrange(1, 60)
    if ts > 6:
        ln = min(ln, rng.choice([1, 2, 3]))     # every valid timestep, on short periods
    if kind in ('wrap', 'wrapwin'):
        d0 = ndays - rng.choice([1, 2, 3, 10] if ts <= 6 else [1, 2])
        ln = ndays - d0 + rng.choice([1, 2, 5] if ts <= 6 else [1])
    elif d0 + ln > ndays:
        d0 = ndays - ln
    a = datetime(_year(leap), 1, 1) + timedelta(days=d0)
    b = a + timedelta(days=ln - 1)
    if b.year != a.year:
        b = b.replace(year=a.year)
    if kind in ('plain', 'wrap', 'day'):
        sh, eh = 0, 23
    elif kind in ('window', 'wrapwin'):
        sh = rng.randrange(0, 23)
        eh = rng.randrange(sh, 23)
    elif kind == 'window23':
        sh, eh = rng.randrange(1, 24), 23
    else:
        eh = rng.randrange(0, 22)
        sh = rng.randrange(eh + 1, 24)
        if ln == 1:                      # same-day overnight wraps the whole year: not generated here
            b = a + timedelta(days=1)
            if b.year != a.year:
                a, b = a - timedelta(days=1), a
    return [a.month, a.day, sh, b.month, b.day, eh, ts, leap]


def _sparse(rng, moys):
    if not moys:
        return []
    r = rng.random()
    if r < 0.25:
        return list(moys)
    if r < 0.4:
        i = rng.randrange(len(moys))
        j = rng.randrange(i, len(moys))
        return moys[i:j + 1]
    if r < 0.55:
        k = rng.choice([2, 3, 5, 24, 25, 7])
        return moys[rng.randrange(k)::k] or [moys[0]]
    if r < 0.7:                          # very sparse: a few single values
        idx = sorted(rng.sample(range(len(moys)), min(len(moys), rng.choice([1, 2, 3, 4]))))
        return [moys[i] for i in idx]
    p = rng.choice([0.1, 0.5, 0.9])
    out = [m for m in moys if rng.random() < p]
    return out or [moys[-1]]


def _hp_case(rng, cont=None):
    cont = (rng.random() < 0.15) if cont is None else cont
    if cont:
        ap = _rand_ap(rng, rng.choice(['plain', 'wrap', 'day']))
        moys = []
    else:
        ap = _rand_ap(rng)
        moys = _sparse(rng, period_moys(ap))
    c = {'cont': cont, 'rev': rng.random() < 0.5, 'ap': ap, 'moys': moys,
         'xdim': rng.choice([1, 2, 0.5, 3]), 'ydim': rng.choice([4, 1, 0.25, 2]),
         'base': [rng.choice([0, 0, 10, -7]), rng.choice([0, 0, -3, 100])]}
    if rng.random() < 0.1:                        # (h) non-dyadic, very small / large cells and offsets
        c.update(xdim=rng.choice([0.3, 0.001, 1e6, 7]), ydim=rng.choice([0.1, 1e-3, 1e5]),
                 base=[rng.choice([0.1, 1e6 + 0.3, -0.7]), rng.choice([1e-3, -1e5 - 0.1])])
    if rng.random() < 0.2:
        c['imm'] = True                           # the immutable twin of the collection
    _hp_forms(rng, c)
    return c


HP_ORDERS = ('shuffled', 'reversed', 'calendar', 'afternoon-first', 'sorted')
AP_FORMS = ('string', 'string-spaced', 'dict', 'strargs', 'repr')


def _hp_forms(rng, c, force=None):
    """Round 4 (kinds i, f): the same data handed over in other SHAPES.  `hand`: the collection is not yet
    validated (HourlyPlot validates it itself) and its date-times come in another order than the period's
    (`order`: permutation, hand-over position -> index in c['moys']); `seq`: container type of values / date-times;
    `apform`: how the AnalysisPeriod was built (text forms, string arguments, dictionary)."""
    ap = c['ap']
    if not c['cont'] and ap[2] <= ap[5] and len(c['moys']) >= 1 and (force or rng.random() < 0.3):
        n = len(c['moys'])
        kind = force if force in HP_ORDERS else rng.choice(HP_ORDERS)
        idx = list(range(n))
        if kind == 'shuffled':
            rng.shuffle(idx)
        elif kind == 'reversed':
            idx.reverse()
        elif kind == 'calendar':                  # a wrapped period given in calendar order (Jan first)
            idx.sort(key=lambda i: c['moys'][i])
        elif kind == 'afternoon-first':
            idx = [i for i in idx if c['moys'][i] % 1440 >= 720] + [i for i in idx if c['moys'][i] % 1440 < 720]
        c['hand'] = {'kind': kind, 'order': idx, 'seq': rng.choice(['list', 'tuple'])}
    if rng.random() < 0.25 or force == 'apform':
        c['apform'] = rng.choice(AP_FORMS)


def _hp_hand_case(rng, kind):
    """A sparse plot whose collection is handed over unvalidated in the given order (`calendar`: a wrapped
    period with January first)."""
    while True:
        ap = _rand_ap(rng, rng.choice(['wrap', 'wrapwin'] if kind == 'calendar' else
                                      ['plain', 'window', 'window23', 'wrap', 'wrapwin', 'day']))
        moys = _sparse(rng, period_moys(ap))
        if 2 <= len(moys) <= 1500:
            break
    c = {'cont': False, 'rev': rng.random() < 0.5, 'ap': ap, 'moys': moys, 'xdim': rng.choice([1, 2, 0.5]),
         'ydim': rng.choice([4, 1, 0.25]), 'base': [rng.choice([0, 10, -7]), rng.choice([0, -3])]}
    _hp_forms(rng, c, force=kind)
    return c


def _make_ap(spec, form=None):
    """AnalysisPeriod of [stM, stD, stH, enM, enD, enH, ts, leap] built through the public entry point `form`."""
    from ladybug.analysisperiod import AnalysisPeriod
    a = list(spec)
    if form in ('string', 'string-spaced'):
        txt = '%d/%d to %d/%d between %d and %d @%d%s' % (a[0], a[1], a[3], a[4], a[2], a[5], a[6], '*' if a[7] else '')
        if form == 'string-spaced':                # upper case, doubled blanks, two-digit fields: all legal
            txt = '  %02d/%02d  TO %02d/%d  BETWEEN %02d AND  %d  @%d%s ' % (
                a[0], a[1], a[3], a[4], a[2], a[5], a[6], '* ' if a[7] else '')
        return AnalysisPeriod.from_string(txt)
    if form == 'dict':
        return AnalysisPeriod.from_dict({'st_month': a[0], 'st_day': a[1], 'st_hour': a[2], 'end_month': a[3],
                                         'end_day': a[4], 'end_hour': a[5], 'timestep': a[6], 'is_leap_year': a[7],
                                         'type': 'AnalysisPeriod'})
    if form == 'strargs':
        return AnalysisPeriod(*([str(x) for x in a[:6]] + [a[6], a[7]]))     # (a text timestep is refused)
    if form == 'repr':
        return AnalysisPeriod.from_string(repr(AnalysisPeriod(*a)))
    return AnalysisPeriod(*a)


def _same_day_number_case(rng, rev=True):
    """Sparse data on the same day-of-month number in consecutive months."""
    leap = rng.random() < 0.3
    ts = rng.choice([1, 2])
    day = rng.randrange(1, 29)
    months = sorted(rng.sample(range(1, 13), rng.choice([2, 3])))
    ap = [months[0], 1, 0, months[-1], _mdays(leap, months[-1]), 23, ts, leap]
    moys = []
    for mo in months:
        hrs = sorted(rng.sample(range(24), rng.choice([1, 2, 3])))
        moys += [_moy_of(leap, mo, day, h) for h in hrs]
    return {'cont': False, 'rev': rev, 'ap': ap, 'moys': moys, 'xdim': 1, 'ydim': 4, 'base': [0, 0]}


HP_CORPUS = [
    {'cont': False, 'rev': False, 'ap': [1, 1, 9, 1, 2, 10, 1, False], 'moys': [600, 1980], 'xdim': 1, 'ydim': 4,
     'base': [0, 0]},
    {'cont': False, 'rev': True, 'ap': [1, 1, 9, 1, 2, 10, 1, False], 'moys': [600, 1980], 'xdim': 1, 'ydim': 4,
     'base': [0, 0]},
    # st>0 .. 23 at timestep 2 (C17_hourlyplot_num_y)
    {'cont': False, 'rev': False, 'ap': [1, 1, 5, 1, 3, 23, 2, False],
     'moys': None, 'xdim': 1, 'ydim': 4, 'base': [0, 0]},
    {'cont': False, 'rev': True, 'ap': [1, 1, 5, 1, 3, 23, 2, False],
     'moys': None, 'xdim': 1, 'ydim': 4, 'base': [0, 0]},
    # same day number in two months, reversed (C17_hourlyplot_reverse_by_doy)
    {'cont': False, 'rev': True, 'ap': [1, 1, 0, 12, 31, 23, 1, False],
     'moys': [_moy_of(False, 1, 5, 10), _moy_of(False, 2, 5, 9)], 'xdim': 1, 'ydim': 4, 'base': [0, 0]},
    {'cont': False, 'rev': True, 'ap': [1, 1, 22, 1, 3, 3, 2, False], 'moys': None, 'xdim': 2, 'ydim': 1,
     'base': [10, -3]},
    {'cont': False, 'rev': True, 'ap': [12, 30, 5, 1, 2, 17, 1, False], 'moys': None, 'xdim': 1, 'ydim': 4,
     'base': [0, 0]},
    {'cont': True, 'rev': True, 'ap': [2, 27, 0, 3, 2, 23, 4, True], 'moys': [], 'xdim': 0.5, 'ydim': 0.25,
     'base': [0, 0]},
    {'cont': True, 'rev': False, 'ap': [12, 30, 0, 1, 2, 23, 1, False], 'moys': [], 'xdim': 1, 'ydim': 4,
     'base': [0, 0]},
]
for _c in HP_CORPUS:
    if _c['moys'] is None:
        _c['moys'] = period_moys(_c['ap'])

# (h) all 12 timesteps at the far end of the year (largest minute-of-year products), leap and not, and over the
# year end; sparse every 7th step so that the face pattern is exercised
HP_FAR_END = []
for _ts in ALL_TS:
    for _leap in (False, True):
        for _ap in ([12, 30, 0, 12, 31, 23, _ts, _leap], [12, 31, 13, 1, 1, 20, _ts, _leap]):
            _m = period_moys(_ap)
            HP_FAR_END.append({'cont': False, 'rev': _ts % 2 == 0, 'ap': _ap, 'moys': _m[3:-1:7] + _m[-1:],
                               'xdim': 1, 'ydim': 0.25, 'base': [0, 0]})
HP_FAR_END.append({'cont': True, 'rev': True, 'ap': [12, 31, 0, 12, 31, 23, 60, True], 'moys': [], 'xdim': 0.3,
                   'ydim': 0.001, 'base': [1000000.5, -0.1]})

# the same-day overnight window that wraps the whole year (known finding)
HP_SAMEDAY = {'cont': False, 'rev': False, 'ap': [1, 5, 22, 1, 5, 3, 1, False], 'moys': None, 'xdim': 1,
              'ydim': 4, 'base': [0, 0]}
HP_SAMEDAY['moys'] = period_moys(HP_SAMEDAY['ap'])[:40]


def _build_hp(case, legend_par=None, zper=None):
    from ladybug.analysisperiod import AnalysisPeriod
    from ladybug.datacollection import HourlyContinuousCollection, HourlyDiscontinuousCollection
    from ladybug.header import Header
    from ladybug.datatype.generic import GenericType
    from ladybug.hourlyplot import HourlyPlot
    from ladybug_geometry.geometry3d.pointvector import Point3D
    ap = _make_ap(case['ap'], case.get('apform'))
    hdr = Header(GenericType('id', ''), '', ap)
    leap = case['ap'][7]
    if case['cont']:
        coll = HourlyContinuousCollection(hdr, list(range(len(period_moys(case['ap'])))))
    elif case.get('hand'):
        # not validated, date-times in the hand-over order; value = index of the datum in case['moys']
        from ladybug.dt import DateTime
        order = case['hand']['order']
        dts = []
        for i in order:
            d = _dt_of(leap, case['moys'][i])
            dts.append(DateTime(d.month, d.day, d.hour, d.minute, leap))
        seq = tuple if case['hand'].get('seq') == 'tuple' else list
        coll = HourlyDiscontinuousCollection(hdr, seq(order), seq(dts))
    else:
        arrs = []
        for m in case['moys']:
            d = _dt_of(leap, m)
            arrs.append([d.month, d.day, d.hour, d.minute] + ([1] if leap else []))
        coll = HourlyDiscontinuousCollection.from_dict({
            'header': hdr.to_dict(), 'values': list(range(len(arrs))), 'datetimes': arrs,
            'validated_a_period': True, 'type': 'HourlyDiscontinuous'})
    if case.get('imm'):
        coll = coll.to_immutable()
    if zper is not None:                             # the other constructor (no reverse_y argument)
        return HourlyPlot.from_z_dim_per_unit(coll, legend_par, Point3D(case['base'][0], case['base'][1], 0),
                                              case['xdim'], case['ydim'], zper)
    return HourlyPlot(coll, legend_par, Point3D(case['base'][0], case['base'][1], 0), case['xdim'],
                      case['ydim'], 0, case['rev'])


def _hp_line(c):
    return 'hp %s %s %s %s %d %s' % (_b(c['cont']), _b(c['rev']), ' '.join(str(int(x)) for x in c['ap'][:7]),
                                     _b(c['ap'][7]), len(c['moys']), ' '.join(str(m) for m in c['moys']))


def _hp_cells(hp, case):
    """(nx, ny, [(col, row)] per face) read from the real geometry."""
    mesh = hp.colored_mesh2d
    bd = hp.chart_border2d
    nx = int(round((bd.max.x - bd.min.x) / case['xdim']))
    ny = int(round((bd.max.y - bd.min.y) / case['ydim']))
    cells = []
    for c in mesh.face_centroids:
        cells.append((int(math.floor((c.x - case['base'][0]) / case['xdim'])),
                      int(math.floor((c.y - case['base'][1]) / case['ydim']))))
    return mesh, nx, ny, cells


def _hp_impl(case):
    hp = _build_hp(case)
    mesh, nx, ny, cells = _hp_cells(hp, case)
    vals = list(hp.values)
    if len(vals) != len(cells):
        return 'err:value'
    toks = []
    for (cx, cy), v in zip(cells, vals):
        toks.append('%d %d %d' % (cx, cy, int(v)))
    return ('ok %d %d %d ' % (nx, ny, len(cells))) + ' '.join(toks)


# ---- histogram


def _hist_case(rng):
    nb = rng.choice([1, 2, 3, 4, 6, 10])
    r = rng.random()
    if r < 0.7:
        lo = rng.choice([0, -5, 1, 0.5])
        w = rng.choice([1, 0.5, 2, 10, 0.25])
        bins = [lo + i * w for i in range(nb)]
    elif r < 0.85:
        bins = sorted(rng.choice([0, 1, 2, 2, 3, 5, 8]) + 0.0 for _ in range(nb))      # repeated edges
    else:
        bins = [float(rng.randrange(-3, 8)) for _ in range(nb)]                         # not monotone
    vals = []
    for _ in range(rng.choice([0, 1, 5, 20, 40])):
        q = rng.random()
        if q < 0.4:
            vals.append(rng.choice(bins))
        elif q < 0.5:
            vals.append(rng.choice(bins) - 2.0 ** -20)
        elif q < 0.6:
            vals.append(min(bins) - rng.choice([0.5, 1, 100]))
        elif q < 0.7:
            vals.append(max(bins) + rng.choice([0, 0.5, 100]))
        else:
            vals.append(round(rng.uniform(min(bins) - 1, max(bins) + 1), 3))
    if rng.random() < 0.12:                       # (h) magnitudes 1e-12 .. 1e+16 (dyadic scale: exact)
        k = rng.choice([2.0 ** -40, 2.0 ** 53, 2.0 ** 20, -1.0])
        if k > 0:
            bins = [b * k for b in bins]
            vals = [v * k for v in vals]
        else:                                     # mirrored: negative values, negative edges
            bins = sorted(-b for b in bins)
            vals = [-v for v in vals]
    c = {'bins': bins, 'vals': vals}
    if rng.random() < 0.4:
        c['shape'] = rng.choice(SHAPES)
    return c


def _hist_line(c):
    return 'hist %d %s %d %s' % (len(c['bins']), ' '.join(_fr(b) for b in c['bins']), len(c['vals']),
                                 ' '.join(_fr(v) for v in c['vals']))


def _show_id_lists(h):
    return 'ok ' + ' '.join('| ' + ' '.join(str(p[1]) for p in b) for b in h)


def _hist_impl(c):
    from ladybug._datacollectionbase import BaseCollection
    vals = [(v, i) for i, v in enumerate(c['vals'])]
    if c.get('shape'):                              # keyed pairs from a one-shot zip / generator / tuple
        vals = zip(c['vals'], range(len(c['vals']))) if c['shape'] in ('zipped', 'map') else \
            tuple(vals) if c['shape'] == 'tuple' else iter(vals)
    return _show_id_lists(BaseCollection.histogram(vals, c['bins'], key=lambda p: p[0]))


def _circ_case(rng):
    r = rng.random()
    rngpair = None
    if r < 0.45:                                   # wind-rose style bins
        n = rng.choice([1, 2, 3, 4, 8, 16, 5, 6, 12])
        phi = 180.0 / n
        bins = [(i * 360.0 / n - phi) % 360.0 for i in range(n + 1)]
        rngpair = [0, 360]
    elif r < 0.7:                                  # rotated monotone bins with one wrap
        n = rng.choice([2, 3, 5])
        off = rng.choice([10, 350, 90, 0])
        bins = [(off + i * 360.0 / n) % 360.0 for i in range(n + 1)]
        rngpair = [0, 360]
    elif r < 0.85:
        bins = [0.0, 6.0, 12.0, 18.0, 24.0] if rng.random() < 0.5 else [22.0, 4.0, 10.0, 16.0, 22.0]
        rngpair = [0, 24]
    else:
        bins = [float(rng.randrange(0, 12)) for _ in range(rng.choice([0, 1, 2, 4]))]
        rngpair = None if rng.random() < 0.5 else [0, 12]
    hi = rngpair[1] if rngpair else 12
    vals = []
    for _ in range(rng.choice([0, 1, 6, 25])):
        q = rng.random()
        if q < 0.4 and bins:
            vals.append(rng.choice(bins))
        elif q < 0.5:
            vals.append(rng.choice([0.0, float(hi), hi - 2.0 ** -30, -1.0, hi + 1.0]))
        else:
            vals.append(round(rng.uniform(0, hi), 2))
    c = {'bins': bins, 'vals': vals, 'range': rngpair}
    if rng.random() < 0.4:
        c['shape'] = rng.choice(SHAPES)
    return c


def _circ_line(c):
    rp = ('1 %s %s' % (_fr(c['range'][0]), _fr(c['range'][1]))) if c['range'] else '0'
    return 'circ %s %d %s %d %s' % (rp, len(c['bins']), ' '.join(_fr(b) for b in c['bins']), len(c['vals']),
                                    ' '.join(_fr(v) for v in c['vals']))


def _circ_impl(c):
    from ladybug._datacollectionbase import BaseCollection
    vals = [(v, i) for i, v in enumerate(c['vals'])]
    if c.get('shape'):
        vals = zip(c['vals'], range(len(c['vals']))) if c['shape'] in ('zipped', 'map') else \
            tuple(vals) if c['shape'] == 'tuple' else iter(vals)
    rp = tuple(c['range']) if c['range'] else None
    return _show_id_lists(BaseCollection.histogram_circular(vals, c['bins'], rp, key=lambda p: p[0]))


# ---- wind rose

EXACT_N = (1, 2, 3, 4, 5, 6, 8, 9, 10, 12, 15, 16, 18, 20, 24, 30, 32, 36)


def _wr_case(rng, n=None):
    n = n or (rng.choice(EXACT_N) if rng.random() < 0.6 else rng.randrange(1, 37))
    exact = n in EXACT_N
    days = rng.choice([1, 1, 2, 3])
    cnt = 24 * days
    sect = 360.0 / n
    dirs, spd = [], []
    for _ in range(cnt):
        q = rng.random()
        if q < 0.35 and exact:
            k = rng.randrange(0, n + 1)
            d = k * sect - sect / 2 + rng.choice([0, 0, 2.0 ** -20, -2.0 ** -20])
            d = d + rng.choice([0, 0, 360, -360, 720])
        elif q < 0.5:
            d = rng.choice([0.0, 360.0, 359.999, 180.0, 90.0, 270.0, 720.0, -90.0, -360.0])
        else:
            k = rng.randrange(0, n)
            d = k * sect + rng.uniform(-0.49, 0.49) * sect
            d = d + rng.choice([0, 0, 0, 360])
        if rng.random() < 0.05:          # (h) many whole turns away / tiny positive
            d = rng.choice([d + 360.0 * 2 ** 20, d - 360.0 * 2 ** 12, 1e-12, 360.0 - 1e-9, 1e16])
        if not exact:                    # keep clear of the (float-rounded) sector edges
            x = (Fraction(float(d)) % 360 + Fraction(180, n)) / Fraction(360, n)
            if abs(x - round(x)) < Fraction(1, 1000):
                d = float(d) + sect / 4
        dirs.append(float(d))
        q = rng.random()
        spd.append(0.0 if q < 0.15 else 1e-11 if q < 0.2 else 1e-10 if q < 0.25 else 2e-10 if q < 0.3
                   else -1.0 if q < 0.33 else round(rng.uniform(0.1, 20), 1))
    c = {'n': n, 'speed': rng.random() < 0.8, 'dirs': dirs, 'spd': spd, 'days': days}
    q = rng.random()
    if q < 0.12:                                  # discontinuous collections with few samples (1, 2, 5 ...)
        k = rng.choice([1, 1, 2, 3, 5])
        hrs = sorted(rng.sample(range(cnt), k))
        c['sparse'] = hrs
        c['dirs'] = [dirs[h] for h in hrs]
        c['spd'] = [spd[h] for h in hrs]
        if k > 1 and rng.random() < 0.6:          # handed over in another order (validated by the rose)
            idx = list(range(k))
            rng.shuffle(idx)
            c['hand'] = idx
            c['seq'] = rng.choice(['list', 'tuple'])
    elif q < 0.17:                                # nothing but calm hours
        c['speed'] = True
        c['spd'] = [rng.choice([0.0, 1e-11, 1e-10]) for _ in spd]
    elif q < 0.3 and cnt > 24:                    # (i) many samples in discontinuous, unsorted collections
        hrs = sorted(rng.sample(range(cnt), rng.choice([cnt - 1, cnt // 2, 30])))
        c['sparse'] = hrs
        c['dirs'] = [dirs[h] for h in hrs]
        c['spd'] = [spd[h] for h in hrs]
        idx = list(range(len(hrs)))
        rng.shuffle(idx)
        c['hand'] = idx
    if rng.random() < 0.2:
        c['imm'] = True                           # immutable twins of the input collections
    return c


def _wr_line(c):
    red = [d % 360.0 for d in c['dirs']]            # float `%` is CPython's, not the code under test
    return 'wrose %d %s %d %s' % (c['n'], _b(c['speed']), len(red),
                                  ' '.join('%s %s' % (_fr(d), _fr(v)) for d, v in zip(red, c['spd'])))


def _build_wr(c):
    from ladybug.analysisperiod import AnalysisPeriod
    from ladybug.datacollection import HourlyContinuousCollection
    from ladybug.header import Header
    from ladybug.datatype.angle import Angle
    from ladybug.datatype.speed import Speed
    from ladybug.datatype.temperature import Temperature
    from ladybug.windrose import WindRose
    ap = AnalysisPeriod(1, 1, 0, 1, c['days'], 23)
    atype, aunit = (Speed(), 'm/s') if c['speed'] else (Temperature(), 'C')
    if c.get('sparse'):                          # discontinuous collections: any number of samples (>= 1)
        from ladybug.datacollection import HourlyDiscontinuousCollection
        from ladybug.dt import DateTime
        order = c.get('hand') or list(range(len(c['sparse'])))
        seq = tuple if c.get('seq') == 'tuple' else list
        dts = [DateTime(1, 1 + c['sparse'][i] // 24, c['sparse'][i] % 24) for i in order]
        dcol = HourlyDiscontinuousCollection(Header(Angle(), 'degrees', ap), seq(c['dirs'][i] for i in order), seq(dts))
        acol = HourlyDiscontinuousCollection(Header(atype, aunit, ap), seq(c['spd'][i] for i in order), seq(dts))
        if c.get('imm'):
            dcol, acol = dcol.to_immutable(), acol.to_immutable()
        return WindRose(dcol, acol, c['n'])
    dcol = HourlyContinuousCollection(Header(Angle(), 'degrees', ap), list(c['dirs']))
    acol = HourlyContinuousCollection(Header(atype, aunit, ap), list(c['spd']))
    if c.get('imm'):
        dcol, acol = dcol.to_immutable(), acol.to_immutable()
    return WindRose(dcol, acol, c['n'])


def _wr_impl(c):
    wr = _build_wr(c)
    h = wr.histogram_data
    s = 'ok ' + ' '.join('| ' + ' '.join(_fr(v) for v in b) for b in h)
    return s + ' # %d # ' % wr.zero_count + ' '.join(_fr(p) for p in wr.prevailing_direction)


# ---- monthly / daily bars

BAR_TYPES = ('C', 'kWh', 'W')           # non-cumulative | cumulative | cumulative only when stacked


def _dtype(unit):
    from ladybug.datatype.temperature import Temperature
    from ladybug.datatype.energy import Energy
    from ladybug.datatype.power import Power
    return {'C': Temperature, 'kWh': Energy, 'W': Power}[unit]()


def _is_cum(unit, stack):
    return unit == 'kWh' or (stack and unit == 'W')


def _bars_case(rng, daily=False, wrap=None):
    leap = rng.random() < 0.3
    ncoll = rng.choice([1, 1, 2, 3, 4])
    units = [rng.choice(BAR_TYPES) for _ in range(ncoll)]
    stack = rng.random() < 0.5
    wrap = (rng.random() < 0.3) if wrap is None else wrap
    if daily:
        stM = rng.randrange(1, 13)
        stD = rng.choice([1, 1, 2, 15, _mdays(leap, stM)])
        stD = min(stD, _mdays(leap, stM))
        ndays = rng.choice([2, 3, 20, 31, 45, 70])
        a = datetime(_year(leap), stM, stD)
        if wrap:                                # the period runs over the year end (Dec -> Jan / Feb)
            a = datetime(_year(leap), 12, rng.choice([1, 15, 20, 31]))
            if rng.random() < 0.3:
                a = datetime(_year(leap), 11, rng.choice([1, 10, 30]))
            ndays = (datetime(_year(leap), 12, 31) - a).days + 1 + rng.choice([1, 5, 31, 32, 45])
        b = a + timedelta(days=ndays - 1)
        if b.year != a.year:
            b = datetime(_year(leap), 12, 31) if not wrap else b.replace(year=a.year)
        if b == a:
            a = a - timedelta(days=1)
        if not wrap:
            ndays = (b - a).days + 1
        period = [a.month, a.day, 0, b.month, b.day, 23, 1, leap]
        npts = ndays
    else:
        stM = rng.randrange(1, 12)
        enM = rng.randrange(stM + 1, 13)       # (single-value collections fail validation: C13's subject)
        if wrap:                                # Nov-Feb, Jul-Jun ...: the months after December come last
            stM = rng.randrange(2, 13)
            enM = rng.randrange(1, stM)
        period = [stM, 1, 0, enM, _mdays(leap, enM), 23, 1, leap]
        npts = (enM - stM) % 12 + 1
    datas = []
    for u in units:
        sign = rng.choice([1, 1, -1, 0])
        vals = []
        for _ in range(npts):
            v = rng.choice([0, 1, 2.5, 10, 7.25, 100]) if rng.random() < 0.5 else round(rng.uniform(0, 50), 2)
            if sign == 0:
                v = v * rng.choice([1, -1])
            else:
                v = v * sign
            vals.append(float(v))
        datas.append(vals)
    ranges = {}
    for u in dict.fromkeys(units):
        lo = rng.choice([0, -50, -100, 5, 0.5])
        hi = lo + rng.choice([0, 10, 100, 150.5, 64])
        ranges[u] = [float(lo), float(hi)]
    if rng.random() < 0.08:                       # (h) very small / very large values on a matching axis
        k = rng.choice([2.0 ** -30, 2.0 ** 30])
        datas = [[v * k for v in d] for d in datas]
        ranges = {u: [r[0] * k, r[1] * k] for u, r in ranges.items()}
    c = {'daily': daily, 'period': period, 'units': units, 'stack': stack, 'datas': datas, 'ranges': ranges,
         'xdim': rng.choice([10, 8, 1, 2.5]), 'ydim': rng.choice([40, 1, 16]),
         'base': [rng.choice([0, 5, -20]), rng.choice([0, 3, -10])]}
    # round 4 (kinds i, f): hand-over shapes.  `hand`: per collection None (chronological, as before) or a
    # permutation in which its (date-time, value) pairs are handed over (the chart validates the collection
    # itself); `seq`: container type of the collection list (list / tuple / generator / iter / map) and of
    # the value lists; `apform`: how the AnalysisPeriod was built
    if rng.random() < 0.35:
        hands = []
        for _ in units:
            idx = list(range(npts))
            k = rng.choice(['shuffled', 'reversed', 'calendar', 'none'])
            if k == 'shuffled':
                rng.shuffle(idx)
            elif k == 'reversed':
                idx.reverse()
            elif k == 'calendar':
                idx.sort(key=lambda i: _bar_stamp(c, i))
            hands.append(idx if k != 'none' else None)
        c['hand'] = hands
    if rng.random() < 0.4:
        c['seq'] = rng.choice(['tuple', 'generator', 'iter', 'map'])
    if rng.random() < 0.25:
        c['apform'] = rng.choice(AP_FORMS)
    g0 = list(dict.fromkeys(units))[0]
    if rng.random() < 0.25 and ranges[g0][0] <= ranges[g0][1]:
        c['lpar'] = True
    return c


def _bar_months(c):
    """Months of the chart in the order the period visits them (the chart's columns, left to right)."""
    stM, enM = c['period'][0], c['period'][3]
    return [(stM - 1 + i) % 12 + 1 for i in range((enM - stM) % 12 + 1)]


def _bar_stamp(c, k):
    """The `datetime` entry of datum k: month number (monthly) or day of the year (daily)."""
    leap = c['period'][7]
    if not c['daily']:
        return _bar_months(c)[k]
    d0 = (datetime(_year(leap), c['period'][0], c['period'][1]) - datetime(_year(leap), 1, 1)).days
    return (d0 + k) % (366 if leap else 365) + 1


def _bar_date(c, k):
    """(month, day) of datum k of a daily chart."""
    leap = c['period'][7]
    d = datetime(_year(leap), 1, 1) + timedelta(days=_bar_stamp(c, k) - 1)
    return d.month, d.day


def _bar_groups(c):
    """Grouping by unit in order of first appearance (what `_group_data_by_units` does)."""
    order = list(dict.fromkeys(c['units']))
    return [(u, [d for uu, d in zip(c['units'], c['datas']) if uu == u]) for u in order]


def _n_bars(c):
    if not c['stack']:
        return len(c['units'])
    n = 0
    for u, ds in _bar_groups(c):
        n += 1 if _is_cum(u, True) else len(ds)
    return n


def _bars_line(c):
    groups = _bar_groups(c)
    gs = []
    for u, ds in groups:
        lo, hi = c['ranges'][u]
        gs.append('%s %s %s %d %s' % (_b(_is_cum(u, c['stack'])), _fr(lo), _fr(hi), len(ds),
                                      ' '.join('%d %s' % (len(d), ' '.join(_fr(v) for v in d)) for d in ds)))
    head = '%s %s %s %s %s' % (_fr(c['base'][0]), _fr(c['base'][1]), _fr(c['xdim']), _fr(c['ydim']), _b(c['stack']))
    if c['daily']:
        leap = c['period'][7]
        dpm = [_mdays(leap, m) for m in _bar_months(c)]
        return 'dbars %s %d %d %d %s %d %s' % (head, _n_bars(c), c['period'][1], len(dpm),
                                               ' '.join(str(x) for x in dpm), len(gs), ' '.join(gs))
    return 'mbars %s %d %d %s' % (head, _n_bars(c), len(gs), ' '.join(gs))


def _build_chart(c):
    from ladybug.analysisperiod import AnalysisPeriod
    from ladybug.datacollection import DailyCollection, MonthlyCollection
    from ladybug.header import Header
    from ladybug.monthlychart import MonthlyChart
    from ladybug_geometry.geometry2d.pointvector import Point2D
    ap = _make_ap(c['period'], c.get('apform'))
    colls = []
    seq = tuple if c.get('seq') == 'tuple' else list
    for j, (u, d) in enumerate(zip(c['units'], c['datas'])):
        hdr = Header(_dtype(u), u, ap)
        order = (c.get('hand') or [None] * len(c['units']))[j]
        order = list(range(len(d))) if order is None else order
        vals = seq(d[i] for i in order)
        stamps = seq(_bar_stamp(c, i) for i in order)
        colls.append((DailyCollection if c['daily'] else MonthlyCollection)(hdr, vals, stamps))
    kind = c.get('seq')
    arg = tuple(colls) if kind == 'tuple' else (x for x in colls) if kind == 'generator' else \
        iter(colls) if kind == 'iter' else map(lambda x: x, colls) if kind == 'map' else colls
    lpar = None
    g0 = _bar_groups(c)[0][0]
    if c.get('lpar'):                               # the left axis given through LegendParameters(min, max): 0 is a value
        from ladybug.legend import LegendParameters
        lpar = LegendParameters(min=c['ranges'][g0][0], max=c['ranges'][g0][1])
    mc = MonthlyChart(arg, lpar, Point2D(c['base'][0], c['base'][1]), c['xdim'], c['ydim'], c['stack'])
    for j, (u, _) in enumerate(_bar_groups(c)):
        if j == 0 and lpar is not None:
            continue
        mc.set_minimum_by_index(c['ranges'][u][0], j)
        mc.set_maximum_by_index(c['ranges'][u][1], j)
    return mc


def _mesh_bars(mesh):
    out = []
    vs = mesh.vertices
    for f in mesh.faces:
        v1, v2, v3 = vs[f[0]], vs[f[1]], vs[f[2]]
        out.append((v1.x, v1.y, v2.x - v1.x, v3.y))
    return out


def _bars_impl(c):
    mc = _build_chart(c)
    return 'ok ' + ' '.join('| ' + ' '.join(' '.join(_fr(x) for x in b) for b in _mesh_bars(m))
                            for m in mc.data_meshes)


# ---- psychrometric chart


def _psy_case(rng):
    mn = rng.choice([-20, -20, 0, -5, 10])
    mx = mn + rng.choice([10, 30, 70, 25])
    days = rng.choice([1, 1, 2])
    ts, rhs = [], []
    for _ in range(24 * days):
        q = rng.random()
        if q < 0.3:
            t = float(rng.randrange(mn - 1, mx + 2))
        elif q < 0.4:
            t = rng.choice([mn, mx, mn - 2.0 ** -20, mx + 2.0 ** -20, mx - 2.0 ** -20, mn + 2.0 ** -40, 2.0 ** 53,
                            mn + 0.5, mx - 0.5])
        else:
            t = round(rng.uniform(mn - 3, mx + 3), 1)
        q = rng.random()
        if q < 0.4:
            rh = float(rng.choice(range(0, 105, 5)))
        elif q < 0.5:
            rh = rng.choice([100.0, 0.0, 99.999, 5 - 2.0 ** -20, 100.5, 110.0, 2.0 ** -40, 2.0 ** 53, -1.0])
        else:
            rh = round(rng.uniform(0, 100), 1)
        ts.append(float(t))
        rhs.append(float(rh))
    return {'min': mn, 'max': mx, 't': ts, 'rh': rhs, 'days': days,
            'xdim': rng.choice([1, 2, 0.5]), 'ydim': rng.choice([1500, 1000]), 'base': [rng.choice([0, 10]), 0]}


def _psy_line(c):
    return 'psych %d %d %d %s' % (c['min'], c['max'], len(c['t']),
                                  ' '.join('%s %s' % (_fr(t), _fr(r)) for t, r in zip(c['t'], c['rh'])))


def _build_psy(c):
    from ladybug.analysisperiod import AnalysisPeriod
    from ladybug.datacollection import HourlyContinuousCollection
    from ladybug.header import Header
    from ladybug.datatype.temperature import Temperature
    from ladybug.datatype.fraction import RelativeHumidity
    from ladybug.psychchart import PsychrometricChart
    from ladybug_geometry.geometry2d.pointvector import Point2D
    ap = AnalysisPeriod(1, 1, 0, 1, c['days'], 23)
    t = HourlyContinuousCollection(Header(Temperature(), 'C', ap), list(c['t']))
    rh = HourlyContinuousCollection(Header(RelativeHumidity(), '%', ap), list(c['rh']))
    return PsychrometricChart(t, rh, 101325, None, Point2D(c['base'][0], c['base'][1]), c['xdim'], c['ydim'],
                              c['min'], c['max'])


def _psy_faces(ch, c):
    """[(y, x)] of the kept faces, from the vertex index structure of the real mesh."""
    row_len = c['max'] - c['min'] + 1
    return [(f[0] // row_len, f[0] % row_len) for f in ch.colored_mesh.faces]


def _psy_impl(c):
    ch = _build_psy(c)
    cells = _psy_faces(ch, c)
    hv = ch.hour_values
    if len(hv) != len(cells):
        return 'err:value'
    return ('ok %d ' % len(cells)) + ' '.join('%d %d %d' % (y, x, int(round(v))) for (y, x), v in zip(cells, hv))



def _num_close(a, b, tol=1e-9):
    fa, fb = float(Fraction(a)), float(Fraction(b))
    return abs(fa - fb) <= tol * max(1.0, abs(fa), abs(fb))


def _same_numbers(mo, io, exact_head=False):
    """Token-wise comparison of two response lines: structure tokens must be equal, numbers close."""
    if not (mo.startswith('ok') and io.startswith('ok')):
        return mo == io
    ta, tb = mo.split(), io.split()
    if len(ta) != len(tb):
        return False
    for x, y in zip(ta, tb):
        if x == y:
            continue
        try:
            if not _num_close(x, y):
                return False
        except (ValueError, ZeroDivisionError):
            return False
    return True


def compare_numeric(ctx, op, cases, model_line, impl_fn, key=None):
    """Like core.compare_batch, for responses whose numbers come from float arithmetic on the
    implementation side and exact rationals on the model side (relative tolerance 1e-9)."""
    lines = [model_line(c) for c in cases]
    outs = ctx.driver().run(lines)
    for c, line, mo in zip(cases, lines, outs):
        try:
            io = impl_fn(c)
        except Exception as e:
            io = 'err:' + err_name(e)
        ctx.compared += 1
        ctx.count('op:' + op)
        ctx.case((op, key(c) if key else line), nontrivial=not io.startswith('err:'))
        if io.startswith('err:'):
            ctx.count('err_results')
        if not _same_numbers(mo, io):
            ctx.disagree(op, {'case': c, 'line': line}, mo[:2000], io[:2000])
    if cases:
        ctx.sample({'op': op, 'request': lines[0][:300], 'model': outs[0][:300]})



# ---------------------------------------------------------------------------------------------
# Round 3: operation histories on ONE object (reads in any order and repeated, every public setter,
# refused calls) for the classes with state.  Every history is (i) compared step by step with the
# object state machines of Model/PlotObj.lean (driver ops whist / bhist / phist; the hourly plot has
# no state that enters its observables, its model stays `hp`) and (ii) judged by the oracle: after
# every step each observable the property speaks about must be what the statement requires for the
# public state the user has established; a refused call changes nothing.


def _exc_tok(e):
    return 'err:' + err_name(e)


# ---- WindRose histories

WR_READS = ('hist', 'zero', 'prev', 'rmax', 'rmesh', 'rfmax', 'static')
WR_TOUCH = ('mesh', 'lines', 'legend', 'compass', 'freq_lines', 'orient_lines', 'color_range')
_WR_READ_TOK = {'hist': 'rhist', 'zero': 'rzero', 'prev': 'rprev', 'rmax': 'rmax', 'rmesh': 'rmesh',
                'rfmax': 'rfmax', 'static': 'rstatic'}


def _wr_set_op(rng, speed):
    """One setter call [kind='set', attribute, value]; about a third are values the code must refuse."""
    q = rng.random()
    if q < 0.3:
        v = rng.choice([1, 1, 2, 3, 5, 7, 10, 24, 200, 2.5, 0, -1, -3, 'a'])
        return ['set', 'frequency_hours', v]
    if q < 0.6:
        v = rng.choice([1, 1, 1, 2, 2, 3, 4, 6, 50, 0, -2, 'a'])
        return ['set', 'frequency_intervals_compass', v]
    if q < 0.7:
        return ['set', 'show_zeros', rng.random() < 0.5]
    if q < 0.76:
        return ['set', 'show_freq', rng.random() < 0.5]
    if q < 0.82:
        return ['set', 'north', rng.choice([0, 45, 90.5, -30, 'a'])]
    if q < 0.88:
        return ['set', 'base_point', rng.choice([[0, 0], [5, -3], 'a'])]
    if q < 0.94:
        return ['set', 'frequency_spacing_distance', rng.choice([10, 1, 2.5, 0, -1, 'a'])]
    return ['set', 'legend_parameters', rng.choice(['none', 'lp', 'lp_minmax', 5])]


def _wr_history(rng, speed, n):
    ops = []
    style = rng.choice(['set-first', 'read-first', 'mixed', 'mixed', 'refused-first'])
    if style == 'set-first':
        ops.append(['set', 'frequency_hours', rng.choice([1, 2, 3, 5])])
        ops.append(['set', 'frequency_intervals_compass', rng.choice([1, 1, 2, 3])])
    elif style == 'read-first':
        for r in rng.sample(WR_READS, rng.choice([1, 2, 7])):
            ops.append(['read', r])
    elif style == 'refused-first':
        ops.append(['set', rng.choice(['frequency_hours', 'frequency_intervals_compass']), rng.choice([0, -1, 'a'])])
    for _ in range(rng.choice([2, 4, 6, 9])):
        q = rng.random()
        if q < 0.45:
            ops.append(_wr_set_op(rng, speed))
        elif q < 0.85:
            ops.append(['read', rng.choice(WR_READS)])
        else:
            ops.append(['touch', rng.choice(WR_TOUCH)])
    sweep = list(WR_READS)
    rng.shuffle(sweep)
    ops += [['read', r] for r in sweep]          # final sweep: every observable, random order
    if rng.random() < 0.4:
        ops += [['read', r] for r in rng.sample(WR_READS, 3)]      # the same question asked twice
    return ops


def _wrh_case(rng, n=None, big=False, default_cut=False):
    c = _wr_case(rng, n)
    if default_cut:
        # more than 200 (400) samples in one sector and no frequency_hours assigned: the cut with the DEFAULT
        # hours (200.0, a float) is reached as soon as frequency_intervals_compass is 1 (or 2)
        c.pop('sparse', None), c.pop('hand', None)
        c['days'] = rng.choice([9, 10, 12, 18])
        cnt = 24 * c['days']
        sect = 360.0 / c['n']
        main = rng.randrange(c['n'])
        c['dirs'] = [float((main * sect) % 360.0) if rng.random() < 0.97 else float(((main + 1) * sect) % 360.0)
                     for _ in range(cnt)]
        c['spd'] = [float(rng.choice([1, 2, 3, 4.5])) for _ in range(cnt)]
        ops = [['read', rng.choice(WR_READS)]] if rng.random() < 0.5 else []
        ops.append(['set', 'frequency_intervals_compass', rng.choice([1, 1, 2])])
        ops += [['read', r] for r in rng.sample(WR_READS, 4)]
        if rng.random() < 0.5:
            ops += [['set', 'frequency_hours', rng.choice([50, 100, 200, 300])], ['read', 'hist'], ['read', 'rmax']]
        c['ops'] = ops + [['read', 'hist'], ['read', 'rfmax'], ['read', 'rmesh'], ['read', 'prev']]
        return c
    if big:                                       # many samples in few sectors: the cut is reachable
        k = rng.choice([1, 2, 3])
        sect = 360.0 / c['n']
        c['dirs'] = [float((rng.randrange(k) * sect) % 360.0) for _ in c['dirs']]
        c['spd'] = [float(rng.choice([1, 2, 3, 4.5, 0.0]) if rng.random() < 0.9 else 0.0) for _ in c['spd']]
    c['ops'] = _wr_history(rng, c['speed'], c['n'])
    return c


def _wr_model_op(op, speed):
    """Driver token(s) of one operation; None for operations outside the model (touches)."""
    kind = op[0]
    if kind == 'read':
        return _WR_READ_TOK[op[1]]
    if kind == 'touch':
        return None
    attr, v = op[1], op[2]
    if attr in ('frequency_hours', 'frequency_intervals_compass'):
        if isinstance(v, str):
            return 'badtype'
        return '%s %d' % ('fh' if attr == 'frequency_hours' else 'fic', int(v))
    if attr == 'show_zeros':
        return 'zeros ' + _b(v)
    if attr == 'show_freq':
        return 'freq ' + _b(v)
    if attr == 'north':
        return 'other ' + _b(not isinstance(v, str))
    if attr == 'base_point':
        return 'other ' + _b(not isinstance(v, str))
    if attr == 'frequency_spacing_distance':
        return 'badtype' if isinstance(v, str) else 'other ' + _b(v > 0)
    if attr == 'legend_parameters':
        return 'other ' + _b(v != 5)
    raise ValueError(attr)


def _wrh_line(c):
    red = [d % 360.0 for d in c['dirs']]
    toks = [t for t in (_wr_model_op(op, c['speed']) for op in c['ops']) if t is not None]
    return 'whist %d %s %d %s %d %s' % (c['n'], _b(c['speed']), len(red),
                                        ' '.join('%s %s' % (_fr(d), _fr(v)) for d, v in zip(red, c['spd'])),
                                        len(toks), ' '.join(toks))


def _wr_value(attr, v):
    if attr == 'base_point' and isinstance(v, list):
        from ladybug_geometry.geometry2d.pointvector import Point2D
        return Point2D(v[0], v[1])
    if attr == 'legend_parameters':
        from ladybug.legend import LegendParameters
        return {'none': None, 'lp': LegendParameters(), 'lp_minmax': LegendParameters(min=0, max=10),
                5: 5}[v]
    return v


def _wr_read(wr, name, n):
    from ladybug.windrose import WindRose
    if name == 'hist':
        return ('hist', [list(b) for b in wr.histogram_data])
    if name == 'zero':
        return ('nat', wr.zero_count)
    if name == 'prev':
        return ('dirs', list(wr.prevailing_direction))
    if name == 'rmax':
        return ('nat', wr.real_freq_max)
    if name == 'rmesh':
        return ('nat', wr.frequency_intervals_mesh)
    if name == 'rfmax':
        v = wr.frequency_maximum
        return ('nat', int(v) if float(v) == int(v) else v)
    if name == 'static':
        return ('dirs', list(WindRose.prevailing_direction_from_data(wr.direction_data_collection, n)))
    raise ValueError(name)


def _wr_touch(wr, name):
    try:
        if name == 'mesh':
            wr.colored_mesh
        elif name == 'lines':
            wr.windrose_lines
        elif name == 'legend':
            wr.legend
        elif name == 'compass':
            wr.compass
        elif name == 'freq_lines':
            wr.frequency_lines
        elif name == 'orient_lines':
            wr.orientation_lines
        elif name == 'color_range':
            wr.color_range
    except Exception:
        pass                                      # drawing may be impossible (n < 3, no data); not C17's subject


def _wr_run(c):
    """Execute the history on one real WindRose: list of (op, outcome) with outcome
    ('ok',) | ('err', name, text) | (kind, value)."""
    wr = _build_wr(c)
    out = []
    for op in c['ops']:
        try:
            if op[0] == 'read':
                out.append(_wr_read(wr, op[1], c['n']))
            elif op[0] == 'touch':
                _wr_touch(wr, op[1])
                out.append(None)
            else:
                setattr(wr, op[1], _wr_value(op[1], op[2]))
                out.append(('ok',))
        except Exception as e:
            out.append(('err', err_name(e), '%s: %s' % (type(e).__name__, str(e)[:80])))
    return out


def _wr_show(o):
    if o[0] == 'ok':
        return 'ok'
    if o[0] == 'err':
        return 'err:' + o[1]
    if o[0] == 'hist':
        return 'hist ' + ' '.join('| ' + ' '.join(_fr(v) for v in b) for b in o[1])
    if o[0] == 'nat':
        return 'nat %s' % (o[1],)
    return 'dirs ' + ' '.join(_fr(v) for v in o[1])


def _wrh_impl(c):
    outs = [o for o in _wr_run(c) if o is not None]
    return 'ok ; ' + ' ; '.join(_wr_show(o) for o in outs)


def _wr_sectors(inp):
    """Sector of every sample by exact modular arithmetic (None when a sample sits on an edge of an
    inexact sector).  Returns (lists of analysis values per sector, calm count)."""
    n = inp['n']
    exact = n in EXACT_N
    want = [[] for _ in range(n)]
    calm = 0
    for d, v in zip(inp['dirs'], inp['spd']):
        if inp['speed'] and not v > 1e-10:
            calm += 1
            continue
        fd = Fraction(d % 360.0)
        if fd >= 360:
            return None                            # tiny negative direction (known finding, fresh-object oracle)
        x = (fd + Fraction(180, n)) / Fraction(360, n)
        if not exact and abs(x - round(x)) < Fraction(1, 10 ** 6):
            return None
        want[int(math.floor(x)) % n].append(v)
    return want, calm


def _is_num(v):
    return isinstance(v, (int, float)) and not isinstance(v, bool)


def _check_whist(inp):
    """The wind-rose clauses of C17 after every step of a history on one object."""
    n = inp['n']
    sig = {'speed': bool(inp['speed'])}
    sc = _wr_sectors(inp)
    if sc is None:
        return None
    want, calm = sc
    counts = [len(b) for b in want]
    mx = max(counts)
    arg = [i * 360.0 / n for i in range(n) if counts[i] == mx]
    # prevailing_direction_from_data bins every direction sample (calm or not)
    sc_all = _wr_sectors(dict(inp, speed=False))
    if sc_all is None:
        return None
    call = [len(b) for b in sc_all[0]]
    arg_all = [i * 360.0 / n for i in range(n) if call[i] == max(call)]
    try:
        outs = _wr_run(inp)
    except Exception as e:
        return {'required': 'a wind rose', 'observed': 'raises %s' % type(e).__name__,
                'sig': dict(sig, clause='builds', error=type(e).__name__)}
    fh, fic = None, None                           # the public state established so far
    for k, (op, o) in enumerate(zip(inp['ops'], outs)):
        where = 'step %d %s' % (k, json.dumps(op))
        if op[0] == 'touch':
            continue
        if op[0] == 'set':
            attr, v = op[1], op[2]
            if o[0] == 'ok':                       # accepted: the user has established the value
                if attr == 'frequency_hours' and _is_num(v):
                    fh = int(v)
                elif attr == 'frequency_intervals_compass' and _is_num(v):
                    fic = int(v)
            continue                               # refused: nothing established; the reads below must not move
        name = op[1]
        fhv = 200 if fh is None else fh
        cut = fic is not None and fhv > 0 and fic < int(math.ceil(mx / float(fhv)))
        if o[0] == 'err':
            # the repaired behaviour (fixes/C17_windrose_default_hours_cut.patch): the sectors are cut to
            # frequency_intervals_compass * 200 values; the unrepaired slice with the float 200.0 raises
            if name in ('hist', 'rmax', 'rmesh', 'rfmax') and cut and fh is None and o[1] == 'type':
                return {'required': '%s: sector lists cut to %d values' % (where, fic * fhv), 'observed': o[2],
                        'sig': dict(sig, clause='hist_raises', error='TypeError', default_hours_cut=True)}
            return {'required': '%s: a value' % where, 'observed': o[2],
                    'sig': dict(sig, clause='read_raises', read=name, error=o[1])}
        exp_counts = [min(c, fic * fhv) for c in counts] if cut else counts
        if name == 'hist':
            h = o[1]
            got = [len(b) for b in h]
            if got != exp_counts:
                return {'required': '%s: sector counts %s (frequency_hours=%s, intervals=%s)' % (
                    where, exp_counts, fh, fic), 'observed': str(got), 'sig': dict(sig, clause='h_sector', cut=cut)}
            for i in range(n):
                rest = list(want[i])
                for v in h[i]:
                    if v in rest:
                        rest.remove(v)
                    else:
                        return {'required': '%s: sector %d holds its own samples' % (where, i),
                                'observed': 'value %r' % v, 'sig': dict(sig, clause='h_member', cut=cut)}
            if not cut and sum(got) + calm != len(inp['dirs']):
                return {'required': '%s: sector counts + calms = %d' % (where, len(inp['dirs'])),
                        'observed': '%d + %d' % (sum(got), calm), 'sig': dict(sig, clause='h_sum')}
        elif name == 'zero':
            if o[1] != calm:
                return {'required': '%s: %d calms' % (where, calm), 'observed': o[1], 'sig': dict(sig, clause='h_calm')}
        elif name in ('prev', 'static'):
            a = arg if name == 'prev' else arg_all
            pv = o[1]
            if len(a) != len(pv) or any(abs(x - y) > 1e-9 for x, y in zip(a, pv)):
                return {'required': '%s: the fullest sector(s) %s (counts %s)' % (where, a, counts if name == 'prev' else call),
                        'observed': str(pv), 'sig': dict(sig, clause='h_prevailing', read=name)}
        elif name == 'rmax':
            if o[1] != max(exp_counts):
                return {'required': '%s: %d' % (where, max(exp_counts)), 'observed': o[1],
                        'sig': dict(sig, clause='h_real_max')}
        elif name == 'rmesh':
            e = int(math.ceil(max(exp_counts) / float(fhv)))
            if o[1] != e:
                return {'required': '%s: %d' % (where, e), 'observed': o[1], 'sig': dict(sig, clause='h_intervals')}
        elif name == 'rfmax':
            e = (fic if fic is not None else int(math.ceil(max(exp_counts) / float(fhv)))) * fhv
            if o[1] != e:
                return {'required': '%s: %d' % (where, e), 'observed': o[1], 'sig': dict(sig, clause='h_freq_max')}
    return None


WRH_DEFAULT_CUT = {'n': 4, 'speed': True, 'days': 10, 'dirs': [90.0] * 240, 'spd': [2.0] * 240,
                   'ops': [['read', 'prev'], ['set', 'frequency_intervals_compass', 1], ['read', 'zero'],
                           ['read', 'prev'], ['read', 'hist']]}

WRH_CORPUS = [
    # rings limited before the first read of the prevailing direction, limit lifted afterwards
    {'n': 8, 'speed': True, 'days': 1, 'dirs': [180.0] * 9 + [135.0] * 6 + [225.0] * 5 + [270.0] * 4,
     'spd': [3.0] * 24,
     'ops': [['set', 'frequency_hours', 1], ['set', 'frequency_intervals_compass', 4], ['read', 'hist'],
             ['read', 'prev'], ['set', 'frequency_intervals_compass', 50], ['read', 'prev'], ['read', 'hist'],
             ['read', 'static'], ['read', 'rmax']]},
    # refused assignments first, then every observable
    {'n': 4, 'speed': True, 'days': 1, 'dirs': [0.0, 90.0, 90.0, 359.0] * 6, 'spd': [1.0, 0.0, 2.0, 3.0] * 6,
     'ops': [['set', 'frequency_hours', 0], ['set', 'frequency_intervals_compass', 0], ['set', 'frequency_hours', 'a'],
             ['read', 'hist'], ['read', 'zero'], ['read', 'prev'], ['set', 'frequency_hours', 2],
             ['set', 'frequency_intervals_compass', 2], ['touch', 'mesh'], ['read', 'hist'],
             ['set', 'frequency_hours', -1], ['read', 'hist'], ['read', 'rmax'], ['read', 'rfmax'],
             ['read', 'prev']]},
    {'n': 3, 'speed': False, 'days': 1, 'dirs': [10.0] * 24, 'spd': [0.0] * 12 + [5.0] * 12,
     'ops': [['set', 'show_zeros', True], ['read', 'zero'], ['read', 'hist'], ['set', 'show_zeros', False],
             ['read', 'prev'], ['touch', 'lines'], ['read', 'hist']]},
]


# ---- MonthlyChart histories


def _bh_case(rng, daily=False):
    c = _bars_case(rng, daily)
    ng = len(_bar_groups(c))
    ops = []
    if rng.random() < 0.3:
        ops.append(['read'])
    for _ in range(rng.choice([2, 3, 5, 8])):
        q = rng.random()
        if q < 0.55:
            kind = rng.choice(['min', 'max'])
            idx = rng.choice(list(range(ng)) * 3 + [ng, ng + 1, 7, -1, -ng - 1])
            v = rng.choice([0, 0.0, -50, -100, 5, 0.5, 10, 100, 150.5, 64, 1000])
            ops.append([kind, float(v), idx])
        else:
            ops.append(['read'])
    ops.append(['read'])
    if rng.random() < 0.3:
        ops.append(['read'])
    c['ops'] = ops
    return c


def _bh_line(c):
    groups = _bar_groups(c)
    gs = []
    for u, ds in groups:
        lo, hi = c['ranges'][u]
        gs.append('%s %s %s %d %s' % (_b(_is_cum(u, c['stack'])), _fr(lo), _fr(hi), len(ds),
                                      ' '.join('%d %s' % (len(d), ' '.join(_fr(v) for v in d)) for d in ds)))
    head = '%s %s %s %s %s' % (_fr(c['base'][0]), _fr(c['base'][1]), _fr(c['xdim']), _fr(c['ydim']), _b(c['stack']))
    if c['daily']:
        leap = c['period'][7]
        dpm = [_mdays(leap, m) for m in _bar_months(c)]
        dl = '1 %d %d %s' % (c['period'][1], len(dpm), ' '.join(str(x) for x in dpm))
    else:
        dl = '0'
    toks = []
    for op in c['ops']:
        toks.append('read' if op[0] == 'read' else '%s %s %d' % (op[0], _fr(op[1]), op[2]))
    return 'bhist %s %d %s %d %s %d %s' % (head, _n_bars(c), dl, len(gs), ' '.join(gs), len(toks), ' '.join(toks))


def _bh_run(c):
    mc = _build_chart(c)
    out = []
    for op in c['ops']:
        try:
            if op[0] == 'read':
                out.append(('bars', [_mesh_bars(m) for m in mc.data_meshes]))
            elif op[0] == 'min':
                mc.set_minimum_by_index(op[1], op[2])
                out.append(('ok',))
            else:
                mc.set_maximum_by_index(op[1], op[2])
                out.append(('ok',))
        except Exception as e:
            out.append(('err', err_name(e), '%s: %s' % (type(e).__name__, str(e)[:80])))
    return out


def _bh_impl(c):
    res = []
    for o in _bh_run(c):
        if o[0] == 'ok':
            res.append('ok')
        elif o[0] == 'err':
            res.append('err:' + o[1])
        else:
            res.append('bars ' + ' '.join('| ' + ' '.join(' '.join(_fr(x) for x in b) for b in m) for m in o[1]))
    return 'ok ; ' + ' ; '.join(res)


def _bars_clauses(inp, meshes_bars, ranges, sig, where=''):
    """Column and affine-height clauses on the bar lists of one read.  `ranges`: per group (min, max) of
    the axis the user has established (None: not checked)."""
    bx, xd, yd = inp['base'][0], inp['xdim'], inp['ydim']
    leap = inp['period'][7]
    order = []
    for j, (u, ds) in enumerate(_bar_groups(inp)):
        order += [(j, u, d) for d in ds]
    if len(meshes_bars) != len(order):
        return {'required': '%s%d meshes' % (where, len(order)), 'observed': len(meshes_bars),
                'sig': dict(sig, clause='shape')}
    eps = 1e-7 * max(1.0, abs(bx) + xd * 13)
    months = _bar_months(inp)
    for (j, u, data), bars in zip(order, meshes_bars):
        if len(bars) != len(data):
            return {'required': '%s%d bars' % (where, len(data)), 'observed': len(bars),
                    'sig': dict(sig, clause='bar_count')}
        for k, (x, y0, w, y1) in enumerate(bars):
            if inp['daily']:
                mon, day = _bar_date(inp, k)
                col = months.index(mon)
                big = xd / _n_bars(inp)
                slot = big / _mdays(leap, mon)
                off = (x - (bx + col * xd)) % big
                if not (bx + col * xd - eps <= x and x + w <= bx + (col + 1) * xd + eps) or \
                        min(abs(off - (day - 1) * slot), abs(off - big - (day - 1) * slot)) > eps:
                    return {'required': '%sbar of %d/%d in column %d at day slot %d' % (
                        where, mon, day, col, day - 1), 'observed': 'x=%r w=%r' % (x, w),
                        'sig': dict(sig, clause='day_column', first_day_is_1=inp['period'][1] == 1)}
            else:
                if not (bx + k * xd - eps <= x and x + w <= bx + (k + 1) * xd + eps and w > 0):
                    return {'required': '%sbar %d (month %d) inside column %d' % (where, k, months[k], k),
                            'observed': 'x=%r w=%r' % (x, w), 'sig': dict(sig, clause='month_column')}
        hs = [b[3] - b[1] for b in bars]
        tol = 1e-7 * (1 + max(abs(h) for h in hs))
        pts = sorted(zip(data, hs))
        (v0, h0), (v1, h1) = pts[0], pts[-1]
        turned = ranges is not None and ranges[j][1] < ranges[j][0]      # the user set minimum > maximum
        if v1 > v0:
            slope = (h1 - h0) / (v1 - v0)
            bad = (slope <= 0 and not turned) or any(abs(h0 + slope * (v - v0) - h) > tol for v, h in pts)
        else:
            bad = any(abs(h - h0) > tol for v, h in pts)
        if bad:
            return {'required': '%sheights affine and increasing in the values' % where, 'observed': str(pts)[:160],
                    'sig': dict(sig, clause='affine')}
        if ranges is not None:
            # the affine map is the one of the chart's Y axis: `minimum` at the base line, `maximum` y_dim above it
            mn, mx = ranges[j]
            dr = (mx - mn) or 1.0
            cum = _is_cum(u, inp['stack'])
            for v, h in zip(data, hs):
                e = yd * (v / dr) if cum else yd * ((v - mn) / dr)
                if abs(e - h) > 1e-7 * (1 + abs(e) + abs(yd * mn / dr)):
                    return {'required': '%sbar of value %r is %r high on the axis %r..%r' % (where, v, e, mn, mx),
                            'observed': repr(h), 'sig': dict(sig, clause='axis_height', cumulative=cum)}
    return None


def _check_bhist(inp):
    sig = {'daily': bool(inp['daily']), 'stack': bool(inp['stack'])}
    groups = _bar_groups(inp)
    ranges = [list(inp['ranges'][u]) for u, _ in groups]
    try:
        outs = _bh_run(inp)
    except Exception as e:
        return {'required': 'bar meshes', 'observed': 'raises %s: %s' % (type(e).__name__, str(e)[:80]),
                'sig': dict(sig, clause='builds', error=type(e).__name__)}
    for k, (op, o) in enumerate(zip(inp['ops'], outs)):
        where = 'step %d %s: ' % (k, json.dumps(op))
        if o[0] == 'err':
            return {'required': where + 'returns', 'observed': o[2], 'sig': dict(sig, clause='op_raises', error=o[1])}
        if op[0] in ('min', 'max'):
            i = op[2]
            if -len(ranges) <= i < len(ranges):    # an index of a data type of the chart (Python indexing)
                ranges[i][0 if op[0] == 'min' else 1] = op[1]
            continue                               # any other index is ignored: the axes stay as they were
        r = _bars_clauses(inp, o[1], ranges, sig, where)
        if r:
            return r
    return None


# ---- PsychrometricChart histories


def _ph_case(rng):
    c = _psy_case(rng)
    nh = len(c['t'])
    ops = []
    names = ['matrix', 'hours', 'mesh', 'data', 'data', 'legend', 'data_bad']
    for _ in range(rng.choice([3, 5, 8])):
        k = rng.choice(names)
        if k == 'data':
            ops.append(['data', [float(rng.choice([0, 1, 2, 5, -3, 10, 0.5, 100])) for _ in range(nh)]])
        elif k == 'data_bad':
            ops.append(['data', [1.0] * rng.choice([0, 1, nh - 1, nh + 1])])
        elif k == 'legend':
            ops.append(['legend', rng.choice(['min', 'max', 'colors', 'bad_min', 'one_color'])])
        else:
            ops.append([k])
    sweep = [['matrix'], ['hours'], ['mesh'], ['data', [float(i % 7) for i in range(nh)]]]
    rng.shuffle(sweep)
    c['ops'] = ops + sweep
    return c


def _ph_line(c):
    toks = []
    for op in c['ops']:
        if op[0] == 'data':
            toks.append('data %d %s' % (len(op[1]), ' '.join(_fr(v) for v in op[1])))
        else:
            toks.append(op[0])
    return 'phist %d %d %d %s %d %s' % (c['min'], c['max'], len(c['t']),
                                        ' '.join('%s %s' % (_fr(t), _fr(r)) for t, r in zip(c['t'], c['rh'])),
                                        len(toks), ' '.join(toks))


def _ph_run(c, ch=None):
    from ladybug.analysisperiod import AnalysisPeriod
    from ladybug.datacollection import HourlyContinuousCollection
    from ladybug.header import Header
    from ladybug.datatype.generic import GenericType
    from ladybug.color import Color
    ch = ch or _build_psy(c)
    out = []
    for op in c['ops']:
        try:
            if op[0] == 'matrix':
                out.append(('nats', [v for row in ch.time_matrix for v in row]))
            elif op[0] == 'hours':
                out.append(('nats', list(ch.hour_values)))
            elif op[0] == 'mesh':
                out.append(('faces', _psy_faces(ch, c)))
            elif op[0] == 'data':
                n = len(op[1])
                days = max(1, (n + 23) // 24)
                if n == 24 * days:
                    coll = HourlyContinuousCollection(
                        Header(GenericType('x', 'x'), 'x', AnalysisPeriod(1, 1, 0, 1, days, 23)), list(op[1]))
                else:
                    coll = _FakeColl(op[1])
                mesh, cont = ch.data_mesh(coll)
                row_len = c['max'] - c['min'] + 1
                out.append(('means', [(f[0] // row_len, f[0] % row_len) for f in mesh.faces], list(cont.values)))
            else:
                lp = ch.legend_parameters
                if op[1] == 'min':
                    lp.min = 0
                elif op[1] == 'max':
                    lp.max = 1000
                elif op[1] == 'colors':
                    lp.colors = [Color(0, 0, 0), Color(255, 0, 0), Color(0, 255, 0)]
                elif op[1] == 'one_color':
                    try:
                        lp.colors = [Color(1, 2, 3)]
                    except AssertionError:
                        pass
                else:
                    try:
                        lp.min = 'a'
                    except AssertionError:
                        pass
                out.append(('ok',))
        except Exception as e:
            out.append(('err', err_name(e), '%s: %s' % (type(e).__name__, str(e)[:80])))
    return out


class _FakeHeader(object):
    def __init__(self):
        from ladybug.datatype.generic import GenericType
        self.data_type = GenericType('x', 'x')
        self.unit = 'x'


class _FakeColl(object):
    """A stand-in for a collection of another length (only `.values` / `.header` are read)."""

    def __init__(self, values):
        self.values = tuple(values)
        self.header = _FakeHeader()


def _ph_impl(c):
    try:
        ch = _build_psy(c)
    except AssertionError:
        return 'err:assert'
    res = []
    for o in _ph_run(c, ch):
        if o[0] == 'ok':
            res.append('ok')
        elif o[0] == 'err':
            res.append('err:' + o[1])
        elif o[0] == 'nats':
            res.append('nats ' + ' '.join(str(int(round(v))) for v in o[1]))
        elif o[0] == 'faces':
            res.append('faces ' + ' '.join('%d %d' % f for f in o[1]))
        else:
            res.append('means ' + ' '.join('%d %d' % f for f in o[1]) + ' # ' + ' '.join(_fr(v) for v in o[2]))
    return 'ok ; ' + ' ; '.join(res)


def _psy_want(inp):
    """Brute force: on-chart hours per cell (rh row, temperature column) and their indices."""
    mn, mx = inp['min'], inp['max']
    want = {}
    for i, (t, r) in enumerate(zip(inp['t'], inp['rh'])):
        if mn <= t <= mx:
            x = min(int(math.floor(t - mn)), mx - mn - 1)
            y = min(max(int(math.floor(r / 5.0)), 0), 19)
            want.setdefault((y, x), []).append(i)
    return want


def _check_phist(inp):
    sig = {}
    want = _psy_want(inp)
    try:
        ch = _build_psy(inp)
    except AssertionError:
        return None if not want else {'required': 'a chart', 'observed': 'AssertionError',
                                      'sig': dict(sig, clause='builds')}
    cells = sorted(want)
    nT = inp['max'] - inp['min']
    outs = _ph_run(inp, ch)
    nh = len(inp['t'])
    for k, (op, o) in enumerate(zip(inp['ops'], outs)):
        where = 'step %d %s: ' % (k, json.dumps(op)[:80])
        if op[0] == 'data' and len(op[1]) != nh:
            if o[0] != 'err':
                return {'required': where + 'refused (collection of another length)', 'observed': 'accepted',
                        'sig': dict(sig, clause='h_data_accepts')}
            continue
        if o[0] == 'err':
            return {'required': where + 'a value', 'observed': o[2], 'sig': dict(sig, clause='h_read_raises',
                                                                                 read=op[0], error=o[1])}
        if op[0] == 'matrix':
            for i, cnt in enumerate(o[1]):
                e = len(want.get((i // nT, i % nT), []))
                if cnt != e:
                    return {'required': where + 'cell rh row %d, t column %d counts %d hours' % (i // nT, i % nT, e),
                            'observed': cnt, 'sig': dict(sig, clause='h_cell')}
        elif op[0] == 'hours':
            e = [len(want[c]) for c in cells]
            if list(o[1]) != e:
                return {'required': where + 'hours per non-empty cell %s' % e[:30], 'observed': str(list(o[1])[:30]),
                        'sig': dict(sig, clause='h_hours')}
        elif op[0] == 'mesh':
            if list(o[1]) != cells:
                return {'required': where + 'one face per non-empty cell', 'observed': '%d faces' % len(o[1]),
                        'sig': dict(sig, clause='h_faces')}
        elif op[0] == 'data':
            if list(o[1]) != cells:
                return {'required': where + 'one face per non-empty cell', 'observed': '%d faces' % len(o[1]),
                        'sig': dict(sig, clause='h_data_faces')}
            for c, m in zip(cells, o[2]):
                e = sum(op[1][i] for i in want[c]) / float(len(want[c]))
                if abs(e - m) > 1e-9 * (1 + abs(e)):
                    return {'required': where + 'cell %s shows the mean %r of its own hours' % (c, e),
                            'observed': repr(m), 'sig': dict(sig, clause='h_data_mean')}
    return None


# ---- HourlyPlot histories (no model state: every read must equal the pure `hp` model answer)

HP_READS = ('mesh', 'values', 'colors', 'mesh3d')
HP_TOUCH = ('hour_labels', 'hour_lines2d', 'month_labels', 'month_lines2d', 'title', 'legend', 'border')


def _hh_case(rng, base=None):
    c = base
    while c is None:                              # small grids: a history reads the mesh several times
        c = _hp_case(rng)
        ap = c['ap']
        if len(period_moys(ap)) > 900:
            c = None
    c = dict(c)
    n = len(period_moys(c['ap'])) if c['cont'] else len(c['moys'])
    ops = []
    for _ in range(rng.choice([2, 4, 6])):
        q = rng.random()
        if q < 0.4:
            ops.append(['read', rng.choice(HP_READS)])
        elif q < 0.55:
            ops.append(['touch', rng.choice(HP_TOUCH)])
        elif q < 0.75:
            ops.append(['legend', 'colors', rng.randrange(1, 50)])
        elif q < 0.85:
            ops.append(['legend', rng.choice(['min', 'max']), rng.choice([0, n - 1, -5, 2 * n, n // 2])])
        else:
            ops.append(['legend', rng.choice(['bad_min', 'bad_max', 'bad_colors', 'one_color']), 0])
    sweep = [['read', r] for r in HP_READS]
    rng.shuffle(sweep)
    c['ops'] = ops + sweep
    return c


def _perm_colors(n, seed):
    cols = _distinct_colors(max(n, 2))
    k = seed % len(cols)
    return cols[k:] + cols[:k]


def _hp_touch(hp, name):
    try:
        if name == 'hour_labels':
            hp.hour_labels
        elif name == 'hour_lines2d':
            hp.hour_lines2d
        elif name == 'month_labels':
            hp.month_labels
        elif name == 'month_lines2d':
            hp.month_lines2d
        elif name == 'title':
            hp.title_text
        elif name == 'legend':
            hp.legend.segment_colors
        elif name == 'border':
            hp.chart_border2d
    except Exception:
        pass


def _hp_snap(hp):
    """What the legend says at this moment: (hp, values in face order, their legend colours)."""
    pv = list(hp.values)
    cr = hp.legend.color_range
    return hp, pv, [cr.color(v) for v in pv]


def _hh_steps(inp):
    """Run the history on one HourlyPlot; yields (op, observation) for the reads:
    ('mesh'|'mesh3d', cells, colours, nx, ny) | ('values', list) | ('colors', list) | ('err', text)."""
    hp = _build_hp(inp)
    n = len(hp.data_collection.values)
    state = {'colors': None}
    for op in inp['ops']:
        try:
            if op[0] == 'touch':
                _hp_touch(hp, op[1])
                continue
            if op[0] == 'legend':
                lp = hp.legend_parameters
                try:
                    if op[1] == 'colors':
                        cols = _perm_colors(n, op[2])
                        lp.colors = cols
                        lp.min, lp.max = None, None
                        lp.min = 0
                        lp.max = max(n - 1, 0) if len(cols) == n else len(cols) - 1
                        state['colors'] = cols
                    elif op[1] == 'min':
                        lp.min = op[2]
                    elif op[1] == 'max':
                        lp.max = op[2]
                    elif op[1] == 'bad_min':
                        lp.min = 'a'
                    elif op[1] == 'bad_max':
                        lp.max = 'a'
                    elif op[1] == 'one_color':    # a legend needs two colours: refused, nothing stored
                        from ladybug.color import Color
                        lp.colors = [Color(1, 2, 3)]
                    else:
                        lp.colors = 'abc'
                except AssertionError:
                    pass                           # refused by the legend parameters: nothing changed
                if op[1] in ('min', 'max'):
                    state['colors'] = None         # colours no longer one stop per id
                continue
            name = op[1]
            if name in ('mesh', 'mesh3d'):
                if name == 'mesh':
                    mesh, nx, ny, cells = _hp_cells(hp, inp)
                else:
                    m3 = hp.colored_mesh3d
                    bd = hp.chart_border2d
                    nx = int(round((bd.max.x - bd.min.x) / inp['xdim']))
                    ny = int(round((bd.max.y - bd.min.y) / inp['ydim']))
                    cells = [(int(math.floor((c.x - inp['base'][0]) / inp['xdim'])),
                              int(math.floor((c.y - inp['base'][1]) / inp['ydim']))) for c in m3.face_centroids]
                    mesh = m3
                yield op, (name, cells, list(mesh.colors), nx, ny, _hp_snap(hp), state['colors'])
            elif name == 'values':
                yield op, ('values', list(hp.values), _hp_snap(hp), state['colors'])
            else:
                yield op, ('colors', list(hp.colors), _hp_snap(hp), state['colors'])
        except Exception as e:
            yield op, ('err', '%s: %s' % (type(e).__name__, str(e)[:100]), type(e).__name__)


def _hh_impl(c):
    """Model-format answer of every mesh read of the history (they must all equal the `hp` answer)."""
    res = []
    for op, o in _hh_steps(c):
        if o[0] == 'err':
            res.append('err:' + {'AssertionError': 'assert', 'ValueError': 'value', 'IndexError': 'index'}.get(o[2], o[2]))
        elif o[0] in ('mesh', 'mesh3d'):
            vals = o[5][1]
            if len(vals) != len(o[1]):
                res.append('err:value')
            else:
                res.append(('ok %d %d %d ' % (o[3], o[4], len(o[1]))) +
                           ' '.join('%d %d %d' % (cx, cy, int(v)) for (cx, cy), v in zip(o[1], vals)))
    return res


def _hp_want(inp, hp, ny):
    """Cell of every value id from the date-time the INPUT gives it and the input period (stdlib arithmetic)."""
    ap = inp['ap']
    leap = ap[7]
    ndays = 366 if leap else 365
    d0 = (datetime(_year(leap), ap[0], ap[1]) - datetime(_year(leap), 1, 1)).days
    step = 60 // ap[6]
    row0 = ap[2] * 60 if ap[2] <= ap[5] else 0
    want = {}
    for v, m in enumerate(period_moys(ap) if inp['cont'] else inp['moys']):
        dt = _dt_of(leap, m)
        doy0 = (datetime(_year(leap), dt.month, dt.day) - datetime(_year(leap), 1, 1)).days
        row = (dt.hour * 60 + dt.minute - row0) // step
        if inp['rev']:
            row = ny - 1 - row
        want[v] = ((doy0 - d0) % ndays, row)
    return want


def _check_hhist(inp):
    sig = {'cont': bool(inp['cont']), 'rev': bool(inp['rev'])}
    try:
        steps = list(_hh_steps(inp))
    except Exception as e:
        return {'required': 'a plot', 'observed': 'raises %s: %s' % (type(e).__name__, str(e)[:100]),
                'sig': dict(sig, clause='h_builds', error=type(e).__name__)}
    for k, (op, o) in enumerate(steps):
        where = 'read %d %s: ' % (k, json.dumps(op))
        if o[0] == 'err':
            return {'required': where + 'a value', 'observed': o[1], 'sig': dict(sig, clause='h_read_raises',
                                                                                 error=o[2])}
        (hp, pvals, pcols), cols = o[-2], o[-1]
        vals = list(hp.data_collection.values)
        if o[0] in ('mesh', 'mesh3d'):
            _, cells, colors, nx, ny = o[:5]
            want = _hp_want(inp, hp, ny)
            if len(cells) != len(vals):
                return {'required': where + '%d faces' % len(vals), 'observed': '%d faces' % len(cells),
                        'sig': dict(sig, clause='h_face_count')}
            for j, (cell, pv, colr, ecol) in enumerate(zip(cells, pvals, colors, pcols)):
                if pv not in want or cell != want[pv]:
                    return {'required': where + 'value %r at cell %s' % (pv, want.get(pv)),
                            'observed': 'face %d at cell %s' % (j, cell), 'sig': dict(sig, clause='h_cell')}
                if colr != ecol:
                    return {'required': where + 'legend colour of value %r: %s' % (pv, ecol),
                            'observed': str(colr), 'sig': dict(sig, clause='h_colour')}
                if cols is not None and len(cols) == len(vals) and 2 <= len(vals) <= 600 and \
                        (colr.r, colr.g, colr.b) in [(c.r, c.g, c.b) for c in cols] and \
                        (colr.r, colr.g, colr.b) != (cols[pv].r, cols[pv].g, cols[pv].b):
                    return {'required': where + 'the colour the user assigned to value %r: %s' % (pv, cols[pv]),
                            'observed': str(colr), 'sig': dict(sig, clause='h_colour_assigned')}
        elif o[0] == 'values':
            if sorted(o[1]) != sorted(vals):
                return {'required': where + 'each value once', 'observed': str(o[1])[:120],
                        'sig': dict(sig, clause='h_values')}
        else:
            if len(o[1]) != len(pvals) or any(c != e for c, e in zip(o[1], pcols)):
                return {'required': where + 'colors[i] = legend colour of values[i]', 'observed': str(o[1])[:120],
                        'sig': dict(sig, clause='h_colors_values')}
    return None


# ---------------------------------------------------------------------------------------------
# correspondence


def correspondence(ctx):
    with contextlib.redirect_stdout(io.StringIO()):      # AnalysisPeriod prints when it clips a day
        _correspondence(ctx)


def _correspondence(ctx):
    rng = ctx.rng
    # hourly plot
    cases = list(HP_CORPUS) + list(HP_FAR_END)
    ctx.count('stratum:hp all 12 timesteps at the far end of the year', len(HP_FAR_END))
    for _ in range(ctx.n(300, 2500)):
        cases.append(_hp_case(rng))
    for _ in range(ctx.n(25, 300)):
        cases.append(_same_day_number_case(rng, rev=rng.random() < 0.8))
    for kind in HP_ORDERS * ctx.n(3, 20):          # every hand-over order, incl. wrapped periods in calendar order
        cases.append(_hp_hand_case(rng, kind))
    for c in cases:
        ap = c['ap']
        kind = ('cont' if c['cont'] else 'disc') + ('/rev' if c['rev'] else '')
        ctx.count('hp:' + kind)
        ctx.count('hp:ts=%d' % ap[6])
        if ap[2] > ap[5]:
            ctx.count('hp:overnight')
        elif (ap[2], ap[5]) != (0, 23):
            ctx.count('hp:window' + ('(st>0..23)' if ap[5] == 23 else ''))
        if _moy_of(ap[7], ap[0], ap[1], ap[2]) > _moy_of(ap[7], ap[3], ap[4], ap[5]):
            ctx.count('hp:year-wrapping')
        if not c['cont'] and len(c['moys']) < len(period_moys(ap)):
            ctx.count('hp:sparse')
        if c.get('hand'):
            ctx.count('hp:handed over unvalidated, order=%s' % c['hand']['kind'])
            ctx.count('branch:hourlyplot.__init__ validates the collection itself')
        if c.get('apform'):
            ctx.count('hp:period built by %s' % c['apform'])
        if not c['cont']:
            ctx.count('branch:hourlyplot._compute_colored_mesh2d face pattern' + ('/reversed' if c['rev'] else ''))
            if ap[2] > ap[5]:
                ctx.count('branch:hourlyplot m_aper whole-day period of an overnight window')
        ctx.count('branch:hourlyplot._num_y %s' % ('whole day' if (ap[2], ap[5]) == (0, 23) else
                                                   'overnight' if ap[2] > ap[5] else 'window'))
        if _moy_of(ap[7], ap[0], ap[1], ap[2]) > _moy_of(ap[7], ap[3], ap[4], ap[5]):
            ctx.count('branch:hourlyplot._num_x reversed period')
        if c['rev']:
            ctx.count('branch:hourlyplot.values per-day reversal')
    compare_batch(ctx, 'hp', cases, _hp_line, _hp_impl,
                  key=lambda c: (c['cont'], c['rev'], tuple(c['ap']), tuple(c['moys'])))
    # histograms
    hc = [_hist_case(rng) for _ in range(ctx.n(500, 6000))]
    hc += [{'bins': [0, 1, 2, 3], 'vals': [0, 0, 0.9, 1, 1.5, 1.99, 2, 3]}, {'bins': [], 'vals': [1.0]},
           {'bins': [1.0], 'vals': [0.0, 1.0, 2.0]}]
    for c in hc:
        ctx.count('hist:values as %s' % (c.get('shape') or 'list'))
        if c['bins'] and c['vals']:
            if min(c['vals']) < min(c['bins']):
                ctx.count('branch:histogram below the first edge')
            if max(c['vals']) >= max(c['bins']):
                ctx.count('branch:histogram at / above the last edge')
            if any(a > b for a, b in zip(c['bins'], c['bins'][1:])):
                ctx.count('branch:histogram non-monotone edges (search loop may fall through)')
    compare_batch(ctx, 'hist', hc, _hist_line, _hist_impl, key=lambda c: (tuple(c['bins']), tuple(c['vals'])))
    cc = [_circ_case(rng) for _ in range(ctx.n(600, 6000))]
    cc += [{'bins': [358, 0, 3], 'vals': [358, 359, 0, 1, 2, 3], 'range': None},
           {'bins': [358, 0, 3], 'vals': [], 'range': None}]
    for c in cc:
        ctx.count('circ:range=' + ('given' if c['range'] else 'none'))
        ctx.count('circ:values as %s' % (c.get('shape') or 'list'))
        if not c['range']:
            ctx.count('branch:histogram_circular hist_range None')
        if any(a >= b for a, b in zip(c['bins'], c['bins'][1:])):
            ctx.count('branch:histogram_circular bin that wraps the range end')
        if c['range'] and any(not c['range'][0] <= v < c['range'][1] for v in c['vals']):
            ctx.count('branch:histogram_circular sample outside the range')
    compare_batch(ctx, 'circ', cc, _circ_line, _circ_impl,
                  key=lambda c: (tuple(c['bins']), tuple(c['vals']), str(c['range'])))
    # wind rose
    wc = [_wr_case(rng, n) for n in range(1, 37)] + [_wr_case(rng) for _ in range(ctx.n(120, 1500))]
    for c in wc:
        ctx.count('wrose:n=%s' % ('exact' if c['n'] in EXACT_N else 'inexact'))
        if c.get('hand'):
            ctx.count('wrose:discontinuous data handed over unsorted')
        if c['speed']:
            ctx.count('branch:windrose calm filter (speed data)')
        else:
            ctx.count('branch:windrose no calm filter (other data type)')
        ctx.count('wrose:calm samples', sum(1 for v in c['spd'] if not v > 1e-10))
    compare_numeric(ctx, 'wrose', wc, _wr_line, _wr_impl,
                    key=lambda c: (c['n'], c['speed'], tuple(c['dirs']), tuple(c['spd'])))
    ac = list(range(1, 37)) + [72, 360]
    outs = ctx.driver().run(['angles %d' % n for n in ac])
    from ladybug.windrose import WindRose
    for n, o in zip(ac, outs):
        ctx.compared += 1
        want = [float(Fraction(t)) for t in o[2:].split()]
        got = list(WindRose._compute_angles(n))
        if len(want) != len(got) or any(abs(a - b) > 1e-9 for a, b in zip(want, got)):
            ctx.disagree('angles', {'n': n}, o, repr(got))
    # bars
    bc = [_bars_case(rng, False) for _ in range(ctx.n(150, 1500))]
    for c in bc:
        ctx.count('mbars:stack=%s' % c['stack'])
        ctx.count('mbars:collections=%d' % len(c['units']))
        _count_bar_forms(ctx, 'mbars', c)
    compare_numeric(ctx, 'mbars', bc, _bars_line, _bars_impl, key=lambda c: repr(c))
    dc = [_bars_case(rng, True) for _ in range(ctx.n(120, 1200))]
    for c in dc:
        ctx.count('dbars:start day %s' % ('1' if c['period'][1] == 1 else '>1'))
        ctx.count('dbars:months=%d' % len(_bar_months(c)))
        _count_bar_forms(ctx, 'dbars', c)
    compare_numeric(ctx, 'dbars', dc, _bars_line, _bars_impl, key=lambda c: repr(c))
    # psychrometric chart
    pc = [_psy_case(rng) for _ in range(ctx.n(100, 1000))]
    for c in pc:
        if any(r >= 100 for r in c['rh']):
            ctx.count('branch:psych humidity loop falls through (rh >= 100)')
        if any(t == c['max'] for t in c['t']):
            ctx.count('branch:psych temperature loop falls through (t == max)')
        if any(t < c['min'] or t > c['max'] for t in c['t']):
            ctx.count('branch:psych hour off the chart')
    compare_batch(ctx, 'psych', pc, _psy_line, _psy_impl, key=lambda c: repr(c))
    # round 6: hours per cell for every pair of input forms (model: PlotObj.cellHours / hoursPerValue)
    fc = list(PF_CORPUS) + [_pf_case(rng, k, pr) for k in PF_KINDS for pr in ('t_const', 'rh_const')] + \
        [_pf_case(rng) for _ in range(ctx.n(60, 600))]
    for c in fc:
        ctx.count('pforms:t=%s rh=%s' % (c['tform'][0], c['rhform'][0]))
    compare_numeric(ctx, 'pforms', fc, _pf_line, _pf_impl, key=lambda c: repr(c))
    _correspondence_histories(ctx)


def _default_cut_reads(c, impl_toks):
    """Indices (among the modelled steps) of the reads taken while frequency_intervals_compass is below the
    needed intervals and frequency_hours still has its default: the state of finding / fix
    C17-windrose-default-hours-cut."""
    sc = _wr_sectors(c)
    if sc is None:
        return set()
    mx = max(len(b) for b in sc[0])
    fh = fic = None
    out = set()
    k = -1
    for op in c['ops']:
        if op[0] == 'touch':
            continue
        k += 1
        tok = impl_toks[k] if k < len(impl_toks) else ''
        if op[0] == 'set':
            if tok == 'ok' and _is_num(op[2]):
                if op[1] == 'frequency_hours':
                    fh = int(op[2])
                elif op[1] == 'frequency_intervals_compass':
                    fic = int(op[2])
        elif fh is None and fic is not None and fic < int(math.ceil(mx / 200.0)) and \
                op[1] in ('hist', 'rmax', 'rmesh', 'rfmax'):
            out.add(k)
    return out


def _compare_whist(ctx, cases):
    """compare_numeric for wind-rose histories.  The model describes the REPAIRED cut of histogram_data
    (fixes/C17_windrose_default_hours_cut.patch).  Where the code answers TypeError exactly at the reads of that
    state (and agrees with the model everywhere else) the deviation is the recorded defect itself: it is
    reported as a property failure with the finding's signature (a VIOLATION as soon as the finding entry is
    gone), not as a broken tie."""
    lines = [_wrh_line(c) for c in cases]
    outs = ctx.driver().run(lines)
    for c, line, mo in zip(cases, lines, outs):
        try:
            io = _wrh_impl(c)
        except Exception as e:
            io = 'err:' + err_name(e)
        ctx.compared += 1
        ctx.count('op:whist')
        ctx.case(('whist', repr(c)), nontrivial=not io.startswith('err:'))
        if _same_numbers(mo, io):
            continue
        mt, it = mo.split(' ; '), io.split(' ; ')
        if len(mt) == len(it) and mo.startswith('ok') and io.startswith('ok'):
            diff = [k for k in range(1, len(mt)) if not _same_numbers('ok ' + mt[k], 'ok ' + it[k])]
            state = _default_cut_reads(c, it[1:])
            if diff and all(it[k] == 'err:type' and (k - 1) in state for k in diff):
                ctx.count('whist:default-hours cut raises (recorded defect)')
                ctx.fail('whist', c, 'step %d: %s' % (diff[0] - 1, mt[diff[0]][:120]), 'TypeError',
                         {'speed': bool(c['speed']), 'clause': 'hist_raises', 'error': 'TypeError',
                          'default_hours_cut': True})
                continue
        ctx.disagree('whist', {'case': c, 'line': line}, mo[:2000], io[:2000])
    if cases:
        ctx.sample({'op': 'whist', 'request': lines[0][:300], 'model': outs[0][:300]})


def _count_bar_forms(ctx, tag, c):
    if c['period'][0] > c['period'][3]:
        ctx.count('%s:period wraps the year end' % tag)
    if c.get('hand') and any(h is not None for h in c['hand']):
        ctx.count('%s:collection handed over unsorted' % tag)
    if c.get('seq'):
        ctx.count('%s:collections given as %s' % (tag, c['seq']))
    if c.get('apform'):
        ctx.count('%s:period built by %s' % (tag, c['apform']))
    if c.get('lpar'):
        ctx.count('branch:monthlychart axis range from LegendParameters(min, max)' +
                  (' with a zero' if 0 in c['ranges'][list(dict.fromkeys(c['units']))[0]] else ''))
    for u in dict.fromkeys(c['units']):
        cum = _is_cum(u, c['stack'])
        ctx.count('branch:bars %s' % ('cumulative' if cum else 'from the base line'))
        if cum and any(v < 0 for uu, d in zip(c['units'], c['datas']) if uu == u for v in d):
            ctx.count('branch:bars cumulative negative bar (bar_y_low)')
    if c['daily'] and len(_bar_months(c)) > 1:
        ctx.count('branch:daily bars month change')


def _count_history(ctx, tag, ops):
    ctx.count(tag + ':histories')
    ctx.count(tag + ':steps', len(ops))
    for op in ops:
        ctx.count('%s:%s' % (tag, op[0]))


def _correspondence_histories(ctx):
    """Operation histories on one object, compared step by step with the object state machines."""
    rng = ctx.rng
    wh = list(WRH_CORPUS) + [WRH_DEFAULT_CUT]
    wh += [_wrh_case(rng, n) for n in (1, 2, 3, 36)]
    wh += [_wrh_case(rng) for _ in range(ctx.n(100, 1200))]
    wh += [_wrh_case(rng, big=True) for _ in range(ctx.n(60, 700))]
    for c in wh:
        _count_history(ctx, 'whist', c['ops'])
        ctx.count('whist:refused', sum(1 for op in c['ops'] if op[0] == 'set' and _wr_model_op(op, c['speed']) in (
            'badtype', 'other 0') or (op[0] == 'set' and _is_num(op[2]) and op[2] <= 0 and op[1].startswith('freq'))))
    # (kept small: on a tree without the repair every one of them is a hit of the recorded finding, and the
    # core keeps at most 200 failures)
    wh += [_wrh_case(rng, default_cut=True) for _ in range(ctx.n(10, 30))]
    ctx.count('branch:windrose.histogram_data cut with default frequency_hours', ctx.n(10, 30) + 1)
    _compare_whist(ctx, wh)
    bh = [_bh_case(rng, False) for _ in range(ctx.n(80, 800))] + [_bh_case(rng, True) for _ in range(ctx.n(60, 600))]
    for c in bh:
        _count_history(ctx, 'bhist', c['ops'])
        ng = len(_bar_groups(c))
        ctx.count('bhist:ignored index', sum(1 for op in c['ops'] if op[0] != 'read' and not -ng <= op[2] < ng))
    compare_numeric(ctx, 'bhist', bh, _bh_line, _bh_impl, key=lambda c: repr(c))
    ph = [_ph_case(rng) for _ in range(ctx.n(60, 600))]
    for c in ph:
        _count_history(ctx, 'phist', c['ops'])
        ctx.count('phist:refused', sum(1 for op in c['ops'] if op[0] == 'data' and len(op[1]) != len(c['t'])))
    compare_numeric(ctx, 'phist', ph, _ph_line, _ph_impl, key=lambda c: repr(c))
    # hourly plot: every mesh read of a history must be the answer of the (stateless) model
    hh = [_hh_case(rng, dict(c)) for c in HP_CORPUS if len(c['moys']) <= 900] + \
        [_hh_case(rng) for _ in range(ctx.n(40, 400))]
    lines = [_hp_line(c) for c in hh]
    outs = ctx.driver().run(lines)
    for c, line, mo in zip(hh, lines, outs):
        _count_history(ctx, 'hhist', c['ops'])
        try:
            reads = _hh_impl(c)
        except Exception as e:
            reads = ['err:' + err_name(e)]
        ctx.compared += 1
        ctx.count('op:hhist')
        ctx.case(('hhist', repr(c)), nontrivial=bool(reads) and not reads[0].startswith('err:'))
        for k, io in enumerate(reads):
            if io != mo:
                ctx.disagree('hhist', {'case': c, 'line': line, 'read': k}, mo[:2000], io[:2000])
                break


# ---------------------------------------------------------------------------------------------
# property oracle: the statement of C17 evaluated on the real objects, independent of the model


def _distinct_colors(n):
    from ladybug.color import Color
    return [Color(k % 251, (k // 251) % 251, 7 + (k * 37) % 200) for k in range(n)]


def _check_hp(inp):
    sig = {'cont': bool(inp['cont']), 'rev': bool(inp['rev'])}
    ap = inp['ap']
    window = 'overnight' if ap[2] > ap[5] else 'whole' if (ap[2], ap[5]) == (0, 23) else \
        'st>0..23' if ap[5] == 23 else 'window'
    sig['window'] = window
    sig['substep'] = ap[6] > 1
    wraps = _moy_of(ap[7], ap[0], ap[1], ap[2]) > _moy_of(ap[7], ap[3], ap[4], ap[5])
    sig['sameday_wrap'] = bool(wraps and ap[0] == ap[3] and ap[1] == ap[4] and ap[2] > ap[5])
    try:
        hp = _build_hp(inp)
        mesh, nx, ny, cells = _hp_cells(hp, inp)
        colors = list(mesh.colors)
        dc = hp.data_collection
        dts = list(dc.datetimes)
        vals = list(dc.values)
        pvals = list(hp.values)
        crange = hp.legend.color_range
        p = hp.analysis_period
    except Exception as e:
        return {'required': 'a coloured mesh with one face per value', 'observed': 'raises %s: %s' % (
            type(e).__name__, str(e)[:120]), 'sig': dict(sig, clause='builds', error=type(e).__name__)}
    if len(cells) != len(vals):
        return {'required': '%d faces' % len(vals), 'observed': '%d faces' % len(cells),
                'sig': dict(sig, clause='face_count')}
    # where every datum belongs, from its own date-time and the period (stdlib arithmetic)
    leap = p.is_leap_year
    ndays = 366 if leap else 365
    d0 = (datetime(_year(leap), p.st_month, p.st_day) - datetime(_year(leap), 1, 1)).days
    step = 60 // p.timestep
    row0 = p.st_hour * 60 if p.st_hour <= p.end_hour else 0
    want = {}
    # the datum with id v is the v-th date-time of the INPUT (inp['moys'] / the period's steps), whatever the
    # order and container in which the collection was handed over and whatever validation did with it
    src = period_moys(ap) if inp['cont'] else inp['moys']
    if sorted(vals) != list(range(len(src))):
        return {'required': 'the plot keeps the %d data it was given' % len(src), 'observed': str(vals)[:120],
                'sig': dict(sig, clause='data_kept')}
    if (p.st_month, p.st_day, p.st_hour, p.end_month, p.end_day, p.end_hour, p.timestep, bool(p.is_leap_year)) != \
            tuple(ap[:7]) + (bool(ap[7]),):
        return {'required': 'period %s' % ap, 'observed': str(p), 'sig': dict(sig, clause='period')}
    for v, m in enumerate(src):
        dt = _dt_of(ap[7], m)
        doy0 = (datetime(_year(leap), dt.month, dt.day) - datetime(_year(leap), 1, 1)).days
        col = (doy0 - d0) % ndays
        mod = dt.hour * 60 + dt.minute
        row = (mod - row0) // step
        if inp['rev']:
            row = ny - 1 - row
        want[v] = (col, row)
    if len(want) != len(vals):
        return None                                     # ids not distinct: not a case of this oracle
    seen = set()
    for k, (cell, pv, colr) in enumerate(zip(cells, pvals, colors)):
        if pv not in want or pv in seen:
            return {'required': 'each value on exactly one face', 'observed': 'face %d carries %r' % (k, pv),
                    'sig': dict(sig, clause='bijection')}
        seen.add(pv)
        if cell != want[pv]:
            return {'required': 'value %r (%s) at cell %s' % (pv, _dt_of(ap[7], src[pv]), want[pv]),
                    'observed': 'face %d at cell %s' % (k, cell), 'sig': dict(sig, clause='cell')}
        if colr != crange.color(pv):
            return {'required': 'colour of value %r' % pv, 'observed': str(colr), 'sig': dict(sig, clause='colour')}
    # second identification of the datum behind a face: distinct legend colours, one per id
    n = len(vals)
    if 2 <= n <= 600:
        try:
            from ladybug.legend import LegendParameters
            cols = _distinct_colors(n)
            hp2 = _build_hp(inp, LegendParameters(min=0, max=n - 1, colors=cols))
            mesh2, _, _, cells2 = _hp_cells(hp2, inp)
            index = {(c.r, c.g, c.b): k for k, c in enumerate(cols)}
            for cell, colr in zip(cells2, mesh2.colors):
                k = index.get((colr.r, colr.g, colr.b))
                if k is None:
                    break                               # blend between stops (float domain): not decisive
                if cell != want[k]:
                    return {'required': 'colour of value %d at cell %s' % (k, want[k]),
                            'observed': 'at cell %s' % (cell,), 'sig': dict(sig, clause='colour_cell')}
        except Exception as e:
            return {'required': 'plot with a custom legend', 'observed': 'raises %s' % type(e).__name__,
                    'sig': dict(sig, clause='builds_legend', error=type(e).__name__)}
    # (f) results are the caller's: editing what a read returned must not change the next answer
    try:
        first = list(hp.values)
        for got in (hp.values, hp.colors):
            _scramble(got)
        again = list(hp.values)
        mesh_b, _, _, cells_b = _hp_cells(hp, inp)
        if again != first or cells_b != cells or list(mesh_b.colors) != colors:
            return {'required': 'the same plot after the caller edited the lists a read returned',
                    'observed': 'values %s' % str(again)[:80], 'sig': dict(sig, clause='alias_result')}
    except Exception as e:
        return {'required': 'second read', 'observed': 'raises %s' % type(e).__name__,
                'sig': dict(sig, clause='alias_result', error=type(e).__name__)}
    # the other entry point and the height-field branch (z_dim != 0): same cells, same colours
    if not inp['rev'] and 2 <= n <= 400:
        try:
            hp3 = _build_hp(inp, None, 0.5)
            m3 = hp3.colored_mesh3d
            cells3 = [(int(math.floor((c.x - inp['base'][0]) / inp['xdim'])),
                       int(math.floor((c.y - inp['base'][1]) / inp['ydim']))) for c in m3.face_centroids]
            if cells3 != cells or list(m3.colors) != colors:
                return {'required': 'from_z_dim_per_unit / colored_mesh3d: the cells and colours of colored_mesh2d',
                        'observed': str(cells3)[:100], 'sig': dict(sig, clause='z_entry')}
        except Exception as e:
            return {'required': 'from_z_dim_per_unit plot', 'observed': 'raises %s: %s' % (type(e).__name__, str(e)[:80]),
                    'sig': dict(sig, clause='z_entry', error=type(e).__name__)}
    return None


SHAPES = ('tuple', 'generator', 'iter', 'map', 'zipped')


def _shaped(vals, shape):
    """The same numbers in another container: tuple, generator, iter(), map object (one-shot iterables)."""
    if shape == 'tuple':
        return tuple(vals)
    if shape == 'generator':
        return (v for v in vals)
    if shape == 'iter':
        return iter(list(vals))
    if shape == 'map':
        return map(float, vals)
    if shape == 'zipped':
        return (v for v, _ in zip(vals, range(len(vals))))
    return list(vals)


def _scramble(x):
    """Edit a returned container in place where it is editable (lists, nested lists)."""
    if isinstance(x, list):
        for y in x:
            _scramble(y)
        x.reverse()
        if x:
            x.pop()
    return x


def _check_hist(inp):
    from ladybug._datacollectionbase import BaseCollection
    bins, vals = inp['bins'], inp['vals']
    if not bins or any(a > b for a, b in zip(bins, bins[1:])):
        return None                                     # the statement is about monotone edges
    shape = inp.get('shape')
    h = BaseCollection.histogram(_shaped(vals, shape), tuple(bins) if shape in ('tuple', 'iter') else bins)
    sig = {}
    if shape:
        # (f) the answer does not depend on the container type of the arguments; a one-shot iterable is enough
        h0 = BaseCollection.histogram(list(vals), list(bins))
        if h != h0:
            return {'required': 'the bins of the list form: %s' % str(h0)[:120], 'observed': str(h)[:120],
                    'sig': dict(sig, clause='shape_independent', shape=shape)}
        _scramble(h0)
        if BaseCollection.histogram(list(vals), list(bins)) != h:
            return {'required': 'a fresh result per call', 'observed': 'changed after the caller edited a result',
                    'sig': dict(sig, clause='alias_result')}
    if len(h) != len(bins) + 1:
        return {'required': '%d lists' % (len(bins) + 1), 'observed': len(h), 'sig': dict(sig, clause='shape')}
    if sorted(v for b in h for v in b) != sorted(vals):
        return {'required': 'every value in exactly one bin', 'observed': str(h)[:200],
                'sig': dict(sig, clause='partition')}
    for j, b in enumerate(h):
        for v in b:
            lo = bins[j - 1] if j >= 1 else None
            hi = bins[j] if j < len(bins) else None
            if (lo is not None and not v >= lo) or (hi is not None and not v < hi):
                return {'required': '%r in [%r, %r)' % (v, lo, hi), 'observed': 'in list %d' % j,
                        'sig': dict(sig, clause='edges')}
    return None


def _arc_contains(a, b, lo, hi, k):
    """Half-open circular arc from edge a to edge b inside the range [lo, hi)."""
    if a < b:
        return a <= k < b
    return (a <= k < hi) or (lo <= k < b)


def _check_circ(inp):
    from ladybug._datacollectionbase import BaseCollection
    bins, vals, rp = inp['bins'], inp['vals'], inp['range']
    if rp is None or len(bins) < 2:
        return None
    lo, hi = rp
    shape = inp.get('shape')
    h = BaseCollection.histogram_circular(_shaped(vals, shape), tuple(bins) if shape in ('tuple', 'iter') else bins,
                                          (lo, hi) if shape != 'map' else [lo, hi])
    sig = {}
    if shape:
        h0 = BaseCollection.histogram_circular(list(vals), list(bins), (lo, hi))
        if h != h0:
            return {'required': 'the bins of the list form: %s' % str(h0)[:120], 'observed': str(h)[:120],
                    'sig': dict(sig, clause='shape_independent', shape=shape)}
        _scramble(h0)
        if BaseCollection.histogram_circular(list(vals), list(bins), (lo, hi)) != h:
            return {'required': 'a fresh result per call', 'observed': 'changed after the caller edited a result',
                    'sig': dict(sig, clause='alias_result')}
    placed = sorted(v for b in h for v in b)
    inr = [v for v in vals if lo <= v < hi]
    covered = [v for v in inr if any(_arc_contains(bins[i], bins[i + 1], lo, hi, v) for i in range(len(bins) - 1))]
    if placed != sorted(covered):
        return {'required': 'each in-range sample inside some bin exactly once: %s' % sorted(covered)[:20],
                'observed': str(placed)[:200], 'sig': dict(sig, clause='once')}
    for i, b in enumerate(h):
        for v in b:
            if not _arc_contains(bins[i], bins[i + 1], lo, hi, v):
                return {'required': '%r inside arc %r..%r' % (v, bins[i], bins[i + 1]), 'observed': 'bin %d' % i,
                        'sig': dict(sig, clause='arc')}
    return None


def _check_wrose(inp):
    n = inp['n']
    sig = {'speed': bool(inp['speed'])}
    try:
        wr = _build_wr(inp)
        h = wr.histogram_data
        zc = wr.zero_count
        pv = list(wr.prevailing_direction)
    except Exception as e:
        return {'required': 'a wind rose', 'observed': 'raises %s' % type(e).__name__,
                'sig': dict(sig, clause='builds', error=type(e).__name__)}
    total = len(inp['dirs'])
    got = sum(len(b) for b in h)
    if got + zc != total:
        neg = any(-1e-9 < d < 0 for d in inp['dirs'])
        return {'required': 'sector counts + calms = %d samples' % total, 'observed': '%d + %d' % (got, zc),
                'sig': dict(sig, clause='sum', tiny_negative_direction=neg)}
    # sector of each sample by exact modular arithmetic: sector i is centred on i * 360 / n
    exact = n in EXACT_N
    want = [[] for _ in range(n)]
    calm = 0
    for d, v in zip(inp['dirs'], inp['spd']):
        if inp['speed'] and not v > 1e-10:
            calm += 1
            continue
        fd = Fraction(d) % 360
        x = (fd + Fraction(180, n)) / Fraction(360, n)
        if not exact and abs(x - round(x)) < Fraction(1, 10 ** 6):
            return None                                 # edge of an inexact sector: float edge undecided
        want[int(math.floor(x)) % n].append(v)
    if calm != zc:
        return {'required': '%d calms' % calm, 'observed': zc, 'sig': dict(sig, clause='calm')}
    for i in range(n):
        if sorted(want[i]) != sorted(h[i]):
            return {'required': 'sector %d holds %d samples' % (i, len(want[i])), 'observed': '%d samples' % len(h[i]),
                    'sig': dict(sig, clause='sector')}
    mx = max(len(b) for b in h)
    arg = [i * 360.0 / n for i in range(n) if len(h[i]) == mx]
    if len(arg) != len(pv) or any(abs(a - b) > 1e-9 for a, b in zip(arg, pv)):
        return {'required': 'prevailing %s' % arg, 'observed': str(pv), 'sig': dict(sig, clause='prevailing')}
    # (f) edit every list a read returned, ask again; a second rose of the same data agrees
    try:
        from ladybug.windrose import WindRose
        for got in (wr.angles, wr.direction_values, wr.analysis_values, pv):
            _scramble(got)
        _scramble(WindRose._compute_angles(n))
        wr2 = _build_wr(inp)
        same = [tuple(map(tuple, x.histogram_data)) for x in (wr, wr2)]
        if same[0] != tuple(map(tuple, h)) or same[1] != same[0] or wr.zero_count != zc or \
                list(wr.prevailing_direction) != list(wr2.prevailing_direction) or \
                len(arg) != len(wr2.prevailing_direction) or \
                any(abs(a - b) > 1e-9 for a, b in zip(arg, wr2.prevailing_direction)):
            return {'required': 'the same sectors on a second read / from a second rose', 'observed': str(same[1])[:120],
                    'sig': dict(sig, clause='alias_result')}
    except Exception as e:
        return {'required': 'a second read', 'observed': 'raises %s' % type(e).__name__,
                'sig': dict(sig, clause='alias_result', error=type(e).__name__)}
    return None


def _check_bars(inp):
    sig = {'daily': bool(inp['daily']), 'stack': bool(inp['stack'])}
    try:
        mc = _build_chart(inp)
        meshes = mc.data_meshes
        bars = [_mesh_bars(m) for m in meshes]
        labels = list(mc.month_labels)
        pts = list(mc.month_label_points)
    except Exception as e:
        return {'required': 'bar meshes', 'observed': 'raises %s: %s' % (type(e).__name__, str(e)[:80]),
                'sig': dict(sig, clause='builds', error=type(e).__name__)}
    ranges = [list(inp['ranges'][u]) for u, _ in _bar_groups(inp)]
    r = _bars_clauses(inp, bars, ranges, sig)
    if r:
        return r
    # the columns are the months of the period in the order the period visits them, each under its own label
    from ladybug.analysisperiod import AnalysisPeriod
    months = _bar_months(inp)
    if labels != [AnalysisPeriod.MONTHNAMES[m] for m in months] or len(pts) != len(months) or any(
            abs(p.x - (inp['base'][0] + (i + 0.5) * inp['xdim'])) > 1e-7 * (1 + abs(p.x)) for i, p in enumerate(pts)):
        return {'required': 'month labels %s at the column centres' % months, 'observed': str(labels)[:120],
                'sig': dict(sig, clause='month_labels')}
    # (f) the returned list of meshes is the caller's; a second chart of the same data in this process agrees
    try:
        _scramble(meshes)
        again = [_mesh_bars(m) for m in mc.data_meshes]
        other = [_mesh_bars(m) for m in _build_chart(inp).data_meshes]
    except Exception as e:
        return {'required': 'second read', 'observed': 'raises %s' % type(e).__name__,
                'sig': dict(sig, clause='alias_result', error=type(e).__name__)}
    if again != bars or other != bars:
        return {'required': 'the same bars on a second read / from a second chart of the same data',
                'observed': str(again if again != bars else other)[:120], 'sig': dict(sig, clause='alias_result')}
    return None


def _check_psych(inp):
    from ladybug.psychrometrics import humid_ratio_from_db_rh
    sig = {}
    mn, mx = inp['min'], inp['max']
    on = [(t, r) for t, r in zip(inp['t'], inp['rh']) if mn <= t <= mx]
    try:
        ch = _build_psy(inp)
    except AssertionError:
        return None if not on else {'required': 'a chart', 'observed': 'AssertionError',
                                    'sig': dict(sig, clause='builds')}
    mtx = ch.time_matrix
    if sum(sum(r) for r in mtx) != len(on):
        return {'required': 'sum of cells = %d on-chart hours' % len(on), 'observed': sum(sum(r) for r in mtx),
                'sig': dict(sig, clause='sum')}
    want = {}
    for t, r in on:
        x = min(int(math.floor(t - mn)), mx - mn - 1)
        y = min(max(int(math.floor(r / 5.0)), 0), 19)
        want[(y, x)] = want.get((y, x), 0) + 1
    for y, row in enumerate(mtx):
        for x, cnt in enumerate(row):
            if cnt != want.get((y, x), 0):
                return {'required': 'cell rh %d..%d, t %d..%d counts %d hours' % (
                    5 * y, 5 * y + 5, mn + x, mn + x + 1, want.get((y, x), 0)), 'observed': cnt,
                    'sig': dict(sig, clause='cell')}
    cells = _psy_faces(ch, inp)
    hv = list(ch.hour_values)
    mesh = ch.colored_mesh
    cols = list(mesh.colors)
    cr = ch.legend.color_range
    if sorted(cells) != sorted(want) or len(hv) != len(cells):
        return {'required': 'one face per non-empty cell', 'observed': '%d faces' % len(cells),
                'sig': dict(sig, clause='faces')}
    vs = mesh.vertices
    for (y, x), v, f, colr in zip(cells, hv, mesh.faces, cols):
        if v != want[(y, x)]:
            return {'required': 'face of cell %s shows %d hours' % ((y, x), want[(y, x)]), 'observed': v,
                    'sig': dict(sig, clause='face_value')}
        if colr != cr.color(v):
            return {'required': 'legend colour of %r' % v, 'observed': str(colr), 'sig': dict(sig, clause='colour')}
        # geometry of the face: temperature edges and the humidity curve of its lower-left / upper-right corner
        p1, p3 = vs[f[0]], vs[f[2]]
        x1 = inp['base'][0] + inp['xdim'] * x
        y1 = inp['base'][1] + (inp['ydim'] * humid_ratio_from_db_rh(mn + x, 5 * y, 101325) if y > 0 else 0)
        y3 = inp['base'][1] + inp['ydim'] * humid_ratio_from_db_rh(mn + x + 1, 5 * (y + 1), 101325)
        if abs(p1.x - x1) > 1e-9 or abs(p3.x - x1 - inp['xdim']) > 1e-9 or abs(p1.y - y1) > 1e-9 or \
                abs(p3.y - y3) > 1e-9:
            return {'required': 'face corners (%r, %r) (%r, %r)' % (x1, y1, x1 + inp['xdim'], y3),
                    'observed': '%s %s' % (p1, p3), 'sig': dict(sig, clause='geometry')}
    return None


# ---- monthly chart of monthly-per-hour and hourly data (oracle only): the line of a month stands in the
# ---- month's column, hour by hour, at heights affine in the values (the mean line of hourly data)


def _ml_case(rng, hourly=None):
    hourly = (rng.random() < 0.4) if hourly is None else hourly
    leap = rng.random() < 0.3
    wrap = rng.random() < 0.4
    if wrap:
        stM = rng.randrange(2, 13)
        enM = rng.randrange(1, stM)
    else:
        stM = rng.randrange(1, 13)
        enM = rng.randrange(stM, 13)
    nm = (enM - stM) % 12 + 1
    if hourly and nm > 4:                           # keep the hourly collections small
        enM = (stM - 1 + rng.choice([0, 1, 2, 3])) % 12 + 1
        nm = (enM - stM) % 12 + 1
    ncoll = rng.choice([1, 1, 2])
    months = [(stM - 1 + i) % 12 + 1 for i in range(nm)]
    datas = []
    for _ in range(ncoll):
        if hourly:
            nv = sum(_mdays(leap, m) for m in months) * 24
        else:
            nv = nm * 24
        datas.append([float(rng.choice([0, 1, 2.5, 10, -4, 7.25, 30, 16])) if rng.random() < 0.6
                      else round(rng.uniform(-10, 40), 2) for _ in range(nv)])
    lo = rng.choice([-10.0, -50.0, 0.0, -10.5])
    c = {'hourly': hourly, 'period': [stM, 1, 0, enM, _mdays(leap, enM), 23, 1, leap], 'datas': datas,
         'range': [lo, lo + rng.choice([50.0, 100.0, 64.5])], 'stack': rng.random() < 0.3,
         'xdim': rng.choice([10, 8, 2.5, 24]), 'ydim': rng.choice([40, 1, 16]),
         'base': [rng.choice([0, 5, -20]), rng.choice([0, 3, -10])]}
    if not hourly and rng.random() < 0.4:           # handed over month by month in another order
        idx = list(range(nm))
        rng.shuffle(idx)
        c['hand'] = idx
    if rng.random() < 0.3:
        c['seq'] = rng.choice(['tuple', 'generator', 'iter', 'map'])
    if rng.random() < 0.25:
        c['apform'] = rng.choice(AP_FORMS)
    return c


def _build_ml(c):
    from ladybug.datacollection import HourlyContinuousCollection, MonthlyPerHourCollection
    from ladybug.header import Header
    from ladybug.datatype.temperature import Temperature
    from ladybug.monthlychart import MonthlyChart
    from ladybug_geometry.geometry2d.pointvector import Point2D
    ap = _make_ap(c['period'], c.get('apform'))
    months = _bar_months(c)
    colls = []
    for d in c['datas']:
        hdr = Header(Temperature(), 'C', ap)
        if c['hourly']:
            colls.append(HourlyContinuousCollection(hdr, list(d)))
        else:
            order = c.get('hand') or list(range(len(months)))
            stamps = [(months[i], h) for i in order for h in range(24)]
            vals = [d[i * 24 + h] for i in order for h in range(24)]
            colls.append(MonthlyPerHourCollection(hdr, vals, stamps))
    kind = c.get('seq')
    arg = tuple(colls) if kind == 'tuple' else (x for x in colls) if kind == 'generator' else \
        iter(colls) if kind == 'iter' else map(lambda x: x, colls) if kind == 'map' else colls
    mc = MonthlyChart(arg, None, Point2D(c['base'][0], c['base'][1]), c['xdim'], c['ydim'], c['stack'])
    mc.set_minimum_by_index(c['range'][0], 0)
    mc.set_maximum_by_index(c['range'][1], 0)
    return mc


def _check_mlines(inp):
    sig = {'hourly': bool(inp['hourly']), 'stack': bool(inp['stack'])}
    months = _bar_months(inp)
    nm = len(months)
    leap = inp['period'][7]
    try:
        mc = _build_ml(inp)
        lines = [[(v.x, v.y) for v in pl.vertices] for pl in mc.data_polylines]
        labels = list(mc.month_labels)
        meshes = mc.data_meshes if inp['hourly'] else None
    except Exception as e:
        return {'required': 'chart lines', 'observed': 'raises %s: %s' % (type(e).__name__, str(e)[:80]),
                'sig': dict(sig, clause='builds', error=type(e).__name__)}
    from ladybug.analysisperiod import AnalysisPeriod
    if labels != [AnalysisPeriod.MONTHNAMES[m] for m in months]:
        return {'required': 'month labels %s' % months, 'observed': str(labels), 'sig': dict(sig, clause='month_labels')}
    bx, by, xd, yd = inp['base'][0], inp['base'][1], inp['xdim'], inp['ydim']
    lo, hi = inp['range']
    per = 3 if inp['hourly'] else 1                  # hourly data: upper, lower and mean line of every month
    if len(lines) != per * nm * len(inp['datas']):
        return {'required': '%d lines' % (per * nm * len(inp['datas'])), 'observed': len(lines),
                'sig': dict(sig, clause='line_count')}
    tol = 1e-7 * (1 + abs(bx) + 13 * xd)
    for j, data in enumerate(inp['datas']):
        # expected value of month position i at hour h: the datum itself / the mean over the month's days
        exp = []
        if inp['hourly']:
            pos = 0
            for m in months:
                nd = _mdays(leap, m)
                exp.append([sum(data[pos + d * 24 + h] for d in range(nd)) / float(nd) for h in range(24)])
                pos += nd * 24
        else:
            exp = [data[i * 24:(i + 1) * 24] for i in range(nm)]
        block = lines[j * per * nm:(j + 1) * per * nm]
        for part in range(per):
            for i in range(nm):
                ln = block[part * nm + i]
                if len(ln) != 25:
                    return {'required': '25 vertices', 'observed': len(ln), 'sig': dict(sig, clause='line_shape')}
                for h, (x, y) in enumerate(ln):
                    ex = bx + i * xd + h * xd / 24.0
                    if abs(x - ex) > tol:
                        return {'required': 'line of %s (column %d) hour %d at x=%r' % (
                            AnalysisPeriod.MONTHNAMES[months[i]], i, h, ex), 'observed': 'x=%r' % x,
                            'sig': dict(sig, clause='line_column')}
                    if part == per - 1:              # the data line (monthly-per-hour) / the mean line (hourly)
                        v = exp[i][h % 24]
                        ey = by + yd * (v - lo) / (hi - lo)
                        if abs(y - ey) > 1e-7 * (1 + abs(ey) + abs(yd)):
                            return {'required': 'month %d hour %d value %r at y=%r' % (months[i], h % 24, v, ey),
                                    'observed': 'y=%r' % y, 'sig': dict(sig, clause='line_height')}
        if inp['hourly']:                            # the band of a month lies in the month's column, around the mean
            vs = meshes[j].vertices
            for k, f in enumerate(meshes[j].faces):
                i = k // 24
                xs = [vs[a].x for a in f]
                if min(xs) < bx + i * xd - tol or max(xs) > bx + (i + 1) * xd + tol:
                    return {'required': 'band face %d inside column %d' % (k, i), 'observed': 'x=%r..%r' % (min(xs), max(xs)),
                            'sig': dict(sig, clause='band_column')}
    return None


# ---- psychrometric chart: rare input classes (oracle only; the model is the SI hourly chart)

PSY_VARIANTS = ('ip', 'daily', 'ts2', 'const_rh', 'const_t', 'const_rh_text', 'const_t_text', 'disc', 'text_dims')


def _psy2_case(rng, variant=None):
    variant = variant or rng.choice(PSY_VARIANTS)
    if variant == 'ip':
        mn = rng.choice([0, 10, -4, 32])
        mx = mn + rng.choice([10, 40, 70, 85])
        n = 24
        ts = []
        for _ in range(n):
            q = rng.random()
            if q < 0.8:                           # middle of a 5/3 F cell (edges are float-accumulated)
                k = rng.randrange(0, int((mx - mn) / (5 / 3.0)))
                tf = mn + (k + rng.choice([0.25, 0.5, 0.75])) * (5 / 3.0)
            else:
                tf = rng.choice([mn - 3.3, mx + 2.2, mn + 0.4, mx - 0.4])
            ts.append((tf - 32.0) / 1.8)
        rhs = [rng.choice([0.0, 2.5, 47.5, 52.5, 97.5, 100.0, 99.0, 33.3]) for _ in range(n)]
        return {'variant': variant, 'min': mn, 'max': mx, 't': ts, 'rh': rhs}
    mn = rng.choice([-20, 0, -5, 10])
    mx = mn + rng.choice([10, 30, 25])
    n = {'daily': rng.choice([2, 5, 31]), 'ts2': 48}.get(variant, 24)

    def temp():
        q = rng.random()
        return float(rng.randrange(mn - 1, mx + 2)) if q < 0.4 else \
            rng.choice([float(mn), float(mx), mx - 2.0 ** -20]) if q < 0.5 else round(rng.uniform(mn - 2, mx + 2), 1)

    def hum():
        q = rng.random()
        return float(rng.choice(range(0, 105, 5))) if q < 0.5 else round(rng.uniform(0, 100), 1)
    c = {'variant': variant, 'min': mn, 'max': mx, 't': [temp() for _ in range(n)], 'rh': [hum() for _ in range(n)]}
    if variant in ('const_rh', 'const_rh_text'):
        c['rh'] = [rng.choice([0.0, 50.0, 100.0, 37.5])] * n
    if variant in ('const_t', 'const_t_text'):
        c['t'] = [float(rng.choice([mn, mx, mn + 3.5]))] * n
    if variant.endswith('_text'):                  # (i) a number given as text: '5e1', ' 37.5 ', '+100'
        c['text'] = rng.choice(['plain', 'exp', 'blank', 'plus'])
    if variant == 'disc':                          # discontinuous hourly collections, any order, few hours
        k = rng.choice([1, 2, 7, 20])
        hrs = rng.sample(range(24), k)
        if rng.random() < 0.5:
            hrs.sort()
        c['hours'] = hrs
        c['t'], c['rh'] = c['t'][:k], c['rh'][:k]
    return c


def _num_text(x, style):
    x = float(x)
    if style == 'exp':
        return '%.10e' % x
    if style == 'blank':
        return '  %r ' % x
    if style == 'plus':
        return ('+' if x >= 0 else '') + repr(x)
    return repr(x)


def _build_psy2(c):
    from ladybug.analysisperiod import AnalysisPeriod
    from ladybug.datacollection import HourlyContinuousCollection, DailyCollection
    from ladybug.header import Header
    from ladybug.datatype.temperature import Temperature
    from ladybug.datatype.fraction import RelativeHumidity
    from ladybug.psychchart import PsychrometricChart
    v = c['variant']
    n = len(c['t'])
    if v == 'daily':
        ap = AnalysisPeriod(1, 1, 0, 2 if n > 31 else 1, n if n <= 31 else n - 31, 23)
        t = DailyCollection(Header(Temperature(), 'C', ap), list(c['t']), list(range(1, n + 1)))
        rh = DailyCollection(Header(RelativeHumidity(), '%', ap), list(c['rh']), list(range(1, n + 1)))
    elif v == 'disc':
        from ladybug.datacollection import HourlyDiscontinuousCollection
        from ladybug.dt import DateTime
        ap = AnalysisPeriod(1, 1, 0, 1, 1, 23)
        dts = [DateTime(1, 1, h) for h in c['hours']]
        t = HourlyDiscontinuousCollection(Header(Temperature(), 'C', ap), tuple(c['t']), tuple(dts))
        rh = HourlyDiscontinuousCollection(Header(RelativeHumidity(), '%', ap), list(c['rh']), list(dts))
    else:
        ap = AnalysisPeriod(1, 1, 0, 1, 1, 23, 2 if v == 'ts2' else 1)
        t = HourlyContinuousCollection(Header(Temperature(), 'C', ap), list(c['t']))
        rh = HourlyContinuousCollection(Header(RelativeHumidity(), '%', ap), list(c['rh']))
    if v == 'const_rh':
        rh = c['rh'][0]
    if v == 'const_t':
        t = c['t'][0]
    if v == 'const_rh_text':
        rh = _num_text(c['rh'][0], c['text'])
    if v == 'const_t_text':
        t = _num_text(c['t'][0], c['text'])
    if v == 'text_dims':                            # every number of the constructor that float() reads, as text
        return PsychrometricChart(t, rh, '101325', None, x_dim='1.0', y_dim='1.5e3', min_temperature=c['min'],
                                  max_temperature=c['max'], max_humidity_ratio='0.03')
    return PsychrometricChart(t, rh, 101325, None, min_temperature=c['min'], max_temperature=c['max'],
                              use_ip=(v == 'ip'))


def _check_psych2(inp):
    v = inp['variant']
    sig = {'variant': v}
    mn, mx = inp['min'], inp['max']
    mult = {'daily': 24.0, 'ts2': 0.5}.get(v, 1.0)
    width = 5 / 3.0 if v == 'ip' else 1.0
    want = {}
    for t, r in zip(inp['t'], inp['rh']):
        tt = t * 1.8 + 32.0 if v == 'ip' else t
        if mn <= tt <= mx:
            x = int(math.floor((tt - mn) / width))
            if v != 'ip':
                x = min(x, mx - mn - 1)
            y = min(max(int(math.floor(r / 5.0)), 0), 19)
            want[(y, x)] = want.get((y, x), 0) + 1
    try:
        ch = _build_psy2(inp)
    except AssertionError as e:
        return None if not want else {'required': 'a chart', 'observed': 'AssertionError %s' % str(e)[:80],
                                      'sig': dict(sig, clause='builds')}
    mtx = ch.time_matrix
    for y, row in enumerate(mtx):
        for x, cnt in enumerate(row):
            if cnt != want.get((y, x), 0):
                return {'required': 'cell rh row %d, temperature column %d counts %d data' % (y, x, want.get((y, x), 0)),
                        'observed': cnt, 'sig': dict(sig, clause='cell')}
    if sum(want.values()) != sum(sum(r) for r in mtx):
        return {'required': '%d data on the chart' % sum(want.values()), 'observed': sum(sum(r) for r in mtx),
                'sig': dict(sig, clause='sum')}
    e = [want[c] * mult for c in sorted(want)]
    hv = list(ch.hour_values)
    if len(hv) != len(e) or any(abs(a - b) > 1e-9 for a, b in zip(hv, e)):
        return {'required': 'hours per non-empty cell %s' % e[:20], 'observed': str(hv[:20]),
                'sig': dict(sig, clause='hours')}
    row_len = len(mtx[0]) + 1
    faces = [(f[0] // row_len, f[0] % row_len) for f in ch.colored_mesh.faces]
    if faces != sorted(want):
        return {'required': 'one face per non-empty cell', 'observed': '%d faces' % len(faces),
                'sig': dict(sig, clause='faces')}
    # (f) a second chart of the same data built in this process, and a second read after the caller edited
    # what a read returned, give the same cells
    try:
        _scramble(list(mtx))
        ch2 = _build_psy2(inp)
        if ch2.time_matrix != mtx or ch.time_matrix != mtx or list(ch2.hour_values) != hv or \
                list(ch.hour_values) != hv:
            return {'required': 'the same cells from a second chart / a second read', 'observed': str(ch2.hour_values)[:100],
                    'sig': dict(sig, clause='alias_result')}
    except Exception as e:
        return {'required': 'a second chart', 'observed': 'raises %s' % type(e).__name__,
                'sig': dict(sig, clause='alias_result', error=type(e).__name__)}
    return None


# ---- round 6: every pair of input FORMS of the psychrometric chart (number | text | hourly at any timestep |
# discontinuous | daily, on either argument) - cells hold HOURS: samples x the hours one value stands for

PF_KINDS = [['hourly', ts] for ts in ALL_TS] + [['disc', ts] for ts in (1, 2, 3, 4, 6, 12, 60)] + [['daily']] * 6


def _pf_hours(form):
    """Hours one value of a collection of this form stands for (from the statement: a daily value is a day,
    a value at timestep ts is 1/ts of an hour)."""
    return Fraction(24) if form[0] == 'daily' else Fraction(1, form[1])


def _pf_case(rng, kind=None, pairing=None):
    kind = list(kind or rng.choice(PF_KINDS + [['hourly', 1]]))
    pairing = pairing or rng.choice(['t_const', 't_const', 'rh_const', 'both'])
    mn = rng.choice([-20, 0, -5, 10])
    mx = mn + rng.choice([10, 30, 25])
    c = {'min': mn, 'max': mx}
    if kind[0] == 'daily':
        n = rng.choice([1, 2, 5, 10, 31, 40])
    elif kind[0] == 'hourly':
        c['days'] = rng.choice([1, 1, 2] if kind[1] <= 4 else [1])   # (a continuous collection holds whole days)
        n = 24 * c['days'] * kind[1]
    else:
        step = 60 // kind[1]
        moys = rng.sample(range(0, 1440, step), rng.choice([1, 2, 7, min(20, 1440 // step)]))
        if rng.random() < 0.6:
            moys.sort()
        c['moys'] = moys
        n = len(moys)

    def temp():
        q = rng.random()
        return float(rng.randrange(mn, mx + 1)) if q < 0.4 else \
            rng.choice([float(mn), float(mx), mx - 2.0 ** -20, mn - 1.0, mx + 1.5]) if q < 0.5 else \
            round(rng.uniform(mn - 1, mx + 1), 1)

    def hum():
        q = rng.random()
        return float(rng.choice(range(0, 105, 5))) if q < 0.4 else round(rng.uniform(0, 100), 1)
    c['t'] = [temp() for _ in range(n)]
    c['rh'] = [hum() for _ in range(n)]
    const = ['text', rng.choice(['plain', 'exp', 'blank', 'plus'])] if rng.random() < 0.25 else ['const']
    if pairing == 't_const':
        c['t'] = [float(rng.choice([mn, mx, mn + 3.5, mn + 7]))] * n
        c['tform'], c['rhform'] = const, kind
    elif pairing == 'rh_const':
        c['rh'] = [rng.choice([0.0, 50.0, 100.0, 37.5])] * n
        c['tform'], c['rhform'] = kind, const
    else:
        c['tform'], c['rhform'] = kind, list(kind)
    return c


PF_CORPUS = [
    {'min': -20, 'max': 50, 'days': 1, 't': [22.0] * 96, 'rh': [30.0 + 0.5 * i for i in range(96)],
     'tform': ['const'], 'rhform': ['hourly', 4]},
    {'min': -20, 'max': 50, 'days': 1, 't': [-21.0 + 0.75 * i for i in range(96)], 'rh': [50.0] * 96,
     'tform': ['hourly', 4], 'rhform': ['const']},
    {'min': -20, 'max': 50, 't': [18.0] * 5, 'rh': [40.0, 41.0, 47.0, 52.0, 70.0], 'tform': ['const'], 'rhform': ['daily']},
    {'min': -20, 'max': 50, 't': [18.0, 18.5, 3.0, -4.0, 25.0], 'rh': [65.0] * 5, 'tform': ['daily'], 'rhform': ['text', 'exp']},
    {'min': 0, 'max': 30, 'moys': [30, 0, 720, 750], 't': [12.0] * 4, 'rh': [10.0, 12.0, 55.0, 99.0],
     'tform': ['text', 'blank'], 'rhform': ['disc', 2]},
]


def _pf_collection(form, c, values, is_t):
    from ladybug.analysisperiod import AnalysisPeriod
    from ladybug.datacollection import HourlyContinuousCollection, HourlyDiscontinuousCollection, DailyCollection
    from ladybug.header import Header
    from ladybug.datatype.temperature import Temperature
    from ladybug.datatype.fraction import RelativeHumidity
    from ladybug.dt import DateTime
    dtype, unit = (Temperature(), 'C') if is_t else (RelativeHumidity(), '%')
    n = len(values)
    if form[0] == 'daily':
        ap = AnalysisPeriod(1, 1, 0, 1, n, 23) if n <= 31 else AnalysisPeriod(1, 1, 0, 2, n - 31, 23)
        return DailyCollection(Header(dtype, unit, ap), list(values), list(range(1, n + 1)))
    if form[0] == 'hourly':
        ap = AnalysisPeriod(1, 1, 0, 1, c['days'], 23, form[1])
        return HourlyContinuousCollection(Header(dtype, unit, ap), list(values))
    ap = AnalysisPeriod(1, 1, 0, 1, 1, 23, form[1])
    dts = [DateTime(1, 1, m // 60, m % 60) for m in c['moys']]
    return HourlyDiscontinuousCollection(Header(dtype, unit, ap), list(values), dts)


def _pf_arg(form, c, values, is_t):
    if form[0] == 'const':
        return values[0]
    if form[0] == 'text':
        return _num_text(values[0], form[1])
    return _pf_collection(form, c, values, is_t)


def _build_pf(c, tform=None, rhform=None):
    from ladybug.psychchart import PsychrometricChart
    t = _pf_arg(tform or c['tform'], c, c['t'], True)
    rh = _pf_arg(rhform or c['rhform'], c, c['rh'], False)
    return PsychrometricChart(t, rh, 101325, None, min_temperature=c['min'], max_temperature=c['max'])


def _pf_kind(c):
    return c['rhform'] if c['rhform'][0] in ('hourly', 'disc', 'daily') else c['tform']


def _pf_tok(form):
    return 'daily' if form[0] == 'daily' else 'hourly %d' % form[1] if form[0] in ('hourly', 'disc') else 'const'


def _pf_line(c):
    return 'pforms %s %s %d %d %d %s' % (_pf_tok(c['tform']), _pf_tok(c['rhform']), c['min'], c['max'], len(c['t']),
                                         ' '.join('%s %s' % (_fr(t), _fr(r)) for t, r in zip(c['t'], c['rh'])))


def _pf_impl(c):
    ch = _build_pf(c)
    cells = _psy_faces(ch, c)
    hv = ch.hour_values
    if len(hv) != len(cells):
        return 'err:value'
    return ('ok %d ' % len(cells)) + ' '.join('%d %d %r' % (y, x, float(v)) for (y, x), v in zip(cells, hv))


def _check_pforms(inp):
    kind = _pf_kind(inp)
    sig = {'tform': inp['tform'][0], 'rhform': inp['rhform'][0],
           'per_value': 'day' if kind[0] == 'daily' else 'hour' if kind[1] == 1 else 'sub-hour'}
    per = _pf_hours(kind)
    want = dict((k, len(v)) for k, v in _psy_want(inp).items())
    try:
        ch = _build_pf(inp)
    except AssertionError as e:
        return None if not want else {'required': 'a chart', 'observed': 'AssertionError %s' % str(e)[:80],
                                      'sig': dict(sig, clause='builds')}
    mtx = ch.time_matrix
    for y, row in enumerate(mtx):
        for x, cnt in enumerate(row):
            if cnt != want.get((y, x), 0):
                return {'required': 'cell rh row %d, temperature column %d holds %d values' % (y, x, want.get((y, x), 0)),
                        'observed': cnt, 'sig': dict(sig, clause='cell')}
    e = [float(want[k] * per) for k in sorted(want)]
    hv = [float(v) for v in ch.hour_values]
    if len(hv) != len(e) or any(abs(a - b) > 1e-9 * max(1.0, abs(b)) for a, b in zip(hv, e)):
        bad = next((k for k, (a, b) in enumerate(zip(hv, e)) if abs(a - b) > 1e-9 * max(1.0, abs(b))), 0)
        cell = sorted(want)[bad] if bad < len(want) else None
        return {'required': 'cell %s holds %d value(s) of %s h each = %s h; all cells: %s' % (
                    cell, want.get(cell, 0), per, e[bad] if bad < len(e) else None, e[:12]),
                'observed': str(hv[:12]), 'sig': dict(sig, clause='hours')}
    total = float(sum(want.values()) * per)
    if abs(sum(hv) - total) > 1e-9 * max(1.0, total):
        return {'required': '%s hours on the chart' % total, 'observed': sum(hv), 'sig': dict(sig, clause='hours_sum')}
    if _psy_faces(ch, inp) != sorted(want):
        return {'required': 'one face per non-empty cell', 'observed': '%d faces' % len(ch.colored_mesh.faces),
                'sig': dict(sig, clause='faces')}
    # the sibling argument paths: the same data with the constant side handed over as a collection of the same
    # form, and with the two collections built a second time, fill the same cells with the same hours
    try:
        ch2 = _build_pf(inp, kind, kind)
        hv2 = [float(v) for v in ch2.hour_values]
        if ch2.time_matrix != mtx or len(hv2) != len(hv) or any(abs(a - b) > 1e-9 * max(1.0, abs(b)) for a, b in zip(hv2, hv)):
            return {'required': 'the same hours whichever argument is the collection: %s' % hv[:12],
                    'observed': str(hv2[:12]), 'sig': dict(sig, clause='argument_paths')}
    except Exception as e:
        return {'required': 'a chart of two collections', 'observed': 'raises %s' % type(e).__name__,
                'sig': dict(sig, clause='argument_paths', error=type(e).__name__)}
    return None


# ---- process order: a slice of the oracle stream in fresh interpreters, in different orders

_WORKER_CODE = ('import sys; sys.path.insert(0, %r); from harness.props import c17; c17._worker_main()')


def _worker_main():
    """Fresh interpreter: evaluate the cases of stdin in the given order, answer a JSON list."""
    sys.path.insert(0, core.REPO)
    data = json.load(sys.stdin)
    real = os.dup(1)
    devnull = os.open(os.devnull, os.O_WRONLY)
    os.dup2(devnull, 1)
    out = []
    for op, inp in data['cases']:
        try:
            out.append(check_case(op, inp))
        except Exception as e:
            out.append({'required': 'oracle evaluates', 'observed': 'exception %s: %s' % (type(e).__name__, e),
                        'sig': {'exception': type(e).__name__}})
    sys.stdout.flush()
    os.dup2(real, 1)
    os.write(1, json.dumps(out, default=str).encode('utf-8'))


def _spawn_order(cases):
    env = dict(os.environ, LADYBUG_REPO=core.REPO)
    p = subprocess.Popen([sys.executable, '-c', _WORKER_CODE % core.ROOT], cwd=core.ROOT, env=env,
                         stdin=subprocess.PIPE, stdout=subprocess.PIPE, stderr=subprocess.PIPE)
    p.stdin.write(json.dumps({'cases': cases}).encode('utf-8'))
    p.stdin.close()
    return p


def _collect_order(p, n):
    out = p.stdout.read()
    err = p.stderr.read()
    p.wait()
    try:
        res = json.loads(out.decode('utf-8'))
        if len(res) != n:
            raise ValueError('answered %d of %d' % (len(res), n))
        return res
    except Exception as e:
        return [{'required': 'cases evaluate in a fresh interpreter',
                 'observed': 'worker failed (%s): %s' % (e, err.decode('utf-8', 'replace')[-400:]),
                 'sig': {'clause': 'worker'}}] + [None] * (n - 1)


def _run_order(cases):
    return _collect_order(_spawn_order(cases), len(cases))


def _sig_key(r):
    s = dict((r or {}).get('sig') or {})
    s.pop('order', None)
    return json.dumps(s, sort_keys=True, default=str)


def _check_order(inp):
    cases = inp['order']
    res = _run_order(cases)
    for k, r in enumerate(res):
        if r:
            sig = dict(r.get('sig') or {})
            sig['order'] = True
            return {'required': r.get('required'), 'observed': r.get('observed'), 'sig': sig, 'index': k,
                    'case': cases[k]}
    return None


def _shrink_order(cases, k, key):
    prefix = cases[:k]
    last = cases[k]
    runs = 0
    while len(prefix) > 1 and runs < 12:
        half = len(prefix) // 2
        for part in (prefix[half:], prefix[:half]):
            runs += 1
            r = _run_order(part + [last])[-1]
            if r and _sig_key(r) == key:
                prefix = part
                break
        else:
            break
    return prefix + [last]


def _rarity(case):
    """Sort key: rare classes first (refused calls and histories, leap, wrapping, sub-hourly, overnight,
    reversed axis, single samples, unusual direction counts, IP / daily charts)."""
    op, inp = case
    if op in ('whist', 'bhist', 'phist', 'hhist'):
        refused = any(o[0] in ('set', 'legend') and (isinstance(o[-1], str) or (_is_num(o[-1]) and o[-1] <= 0))
                      for o in inp['ops'])
        return (0, not refused, op)
    if op == 'hp':
        ap = inp['ap']
        wraps = _moy_of(ap[7], ap[0], ap[1], ap[2]) > _moy_of(ap[7], ap[3], ap[4], ap[5])
        return (1, not inp.get('hand'), not ap[7], not wraps, not ap[6] > 1, not ap[2] > ap[5], not inp['rev'],
                len(inp['moys']) != 1)
    if op == 'psych2':
        return (2, inp['variant'])
    if op == 'pforms':
        return (2, 'a-forms', _pf_kind(inp)[0] == 'hourly' and _pf_kind(inp)[1] == 1, inp['tform'][0])
    if op == 'wrose':
        return (3, inp['n'] in (4, 8, 16), not inp.get('sparse'))
    if op == 'bars':
        return (4, not inp['period'][0] > inp['period'][3], not inp['period'][7], not inp['daily'], not inp['stack'])
    if op == 'mlines':
        return (4, not inp['period'][0] > inp['period'][3], not inp['period'][7], True, True)
    return (5, op)


def _order_slice(ctx, rng):
    out = []
    for c in HP_CORPUS[:6]:
        out.append(['hp', c])
    for _ in range(14):
        c = None
        while c is None or len(period_moys(c['ap'])) > 1500:
            c = _hp_case(rng)
        out.append(['hp', c])
        if rng.random() < 0.5:                    # the same days in the other year kind / another timestep, adjacent
            c2 = dict(c, ap=list(c['ap']))
            if rng.random() < 0.5 and not (c2['ap'][0] == 2 and c2['ap'][1] == 29) \
                    and not (c2['ap'][3] == 2 and c2['ap'][4] == 29):
                c2['ap'][7] = not c2['ap'][7]
            else:
                c2['ap'][6] = rng.choice([t for t in (1, 2, 4) if t != c2['ap'][6]])
            c2['moys'] = [] if c2['cont'] else _sparse(rng, period_moys(c2['ap']))
            c2.pop('hand', None)                  # (the permutation belongs to the first data set)
            if len(period_moys(c2['ap'])) <= 1500:
                out.append(['hp', c2])
    for kind in HP_ORDERS:
        out.append(['hp', _hp_hand_case(rng, kind)])
    for _ in range(6):
        out.append(['hhist', _hh_case(rng)])
    for _ in range(30):
        out.append(['hist', _hist_case(rng)])
        out.append(['circ', _circ_case(rng)])
    for n in (1, 2, 3, 5, 8, 16, 36, 7):
        out.append(['wrose', _wr_case(rng, n)])
    for c in WRH_CORPUS:
        out.append(['whist', c])
    for _ in range(25):
        out.append(['whist', _wrh_case(rng, big=rng.random() < 0.4)])
    for _ in range(12):
        out.append(['bars', _bars_case(rng, rng.random() < 0.5)])
        out.append(['bhist', _bh_case(rng, rng.random() < 0.5)])
    for _ in range(10):
        out.append(['psych', _psy_case(rng)])
        out.append(['phist', _ph_case(rng)])
    for v in PSY_VARIANTS:
        out.append(['psych2', _psy2_case(rng, v)])
        out.append(['psych2', _psy2_case(rng, v)])
    for _ in range(8):
        out.append(['mlines', _ml_case(rng)])
    for c in PF_CORPUS:
        out.append(['pforms', c])
    for _ in range(12):
        out.append(['pforms', _pf_case(rng)])
    for _ in range(3):
        out.append(['whist', _wrh_case(rng, default_cut=True)])
    return out


def _oracle_orders(ctx):
    rng = ctx.rng
    cases = _order_slice(ctx, rng)
    orders = []
    rare_first = sorted(cases, key=_rarity)
    orders.append(('rare-first', rare_first))
    orders.append(('common-first', list(reversed(rare_first))))
    sh = list(cases)
    rng.shuffle(sh)
    orders.append(('shuffled', sh))
    if not ctx.quick or ctx.searching:
        sh2 = list(cases)
        rng.shuffle(sh2)
        orders.append(('shuffled-2', sh2))
    procs = [(name, order, _spawn_order(order)) for name, order in orders]
    for name, order, p in procs:
        res = _collect_order(p, len(order))
        ctx.count('order:' + name, len(order))
        for k, r in enumerate(res):
            ctx.count('oracle:order-case')
            ctx.case(('order', name, k))
            if not r:
                continue
            if len(ctx.failures) >= 200:
                break
            key = _sig_key(r)
            alone = _run_order([order[k]])[0]
            if alone and _sig_key(alone) == key:
                op1, inp1 = order[k]              # fails in a fresh interpreter on its own: the plain case
                ctx.fail(op1, inp1, r.get('required'), r.get('observed'), r.get('sig'))
                if ctx.failures and ctx.failures[-1]['input'] is inp1:
                    ctx.failures[-1]['confirmed'] = True
            else:
                small = _shrink_order(order, k, key)
                sig = dict(r.get('sig') or {})
                sig['order'] = True
                ctx.fail('order', {'order': small, 'name': name}, r.get('required'), r.get('observed'), sig)
                if ctx.failures and ctx.failures[-1]['op'] == 'order':
                    ctx.failures[-1]['confirmed'] = True


def check_case(op, inp):
    if op == 'hp':
        return _check_hp(inp)
    if op == 'hist':
        return _check_hist(inp)
    if op == 'circ':
        return _check_circ(inp)
    if op == 'wrose':
        return _check_wrose(inp)
    if op == 'bars':
        return _check_bars(inp)
    if op == 'psych':
        return _check_psych(inp)
    if op == 'psych2':
        return _check_psych2(inp)
    if op == 'pforms':
        return _check_pforms(inp)
    if op == 'mlines':
        return _check_mlines(inp)
    if op == 'whist':
        return _check_whist(inp)
    if op == 'bhist':
        return _check_bhist(inp)
    if op == 'phist':
        return _check_phist(inp)
    if op == 'hhist':
        return _check_hhist(inp)
    if op == 'order':
        return _check_order(inp)
    raise ValueError('unknown op ' + op)


replay = check_case

WR_TINY_NEG = {'n': 8, 'speed': True, 'dirs': [-1e-20] + [10.0] * 23, 'spd': [1.0] * 24, 'days': 1}


def _oracle_cases(ctx):
    rng = ctx.rng
    big = ctx.searching or not ctx.quick
    for c in HP_CORPUS:
        yield 'hp', c
    yield 'hp', HP_SAMEDAY
    for c in HP_FAR_END:
        yield 'hp', c
    for _ in range(600 if big else 120):
        yield 'hp', _hp_case(rng)
    for _ in range(150 if big else 20):
        yield 'hp', _same_day_number_case(rng, rev=rng.random() < 0.8)
    for kind in HP_ORDERS * (10 if big else 3):
        yield 'hp', _hp_hand_case(rng, kind)
    yield 'hist', {'bins': [0, 1, 2, 3], 'vals': [0, 0, 0.9, 1, 1.5, 1.99, 2, 3]}
    for _ in range(4000 if big else 500):
        yield 'hist', _hist_case(rng)
    for _ in range(4000 if big else 500):
        yield 'circ', _circ_case(rng)
    yield 'wrose', WR_TINY_NEG
    for n in range(1, 37):
        yield 'wrose', _wr_case(rng, n)
    for _ in range(1000 if big else 100):
        yield 'wrose', _wr_case(rng)
    yield 'bars', {'daily': True, 'period': [1, 15, 0, 3, 10, 23, 1, False], 'units': ['C'], 'stack': False,
                   'datas': [[float(i) for i in range(55)]], 'ranges': {'C': [0.0, 60.0]}, 'xdim': 10,
                   'ydim': 40, 'base': [0, 0]}
    for _ in range(800 if big else 100):
        yield 'bars', _bars_case(rng, False)
    for _ in range(800 if big else 100):
        yield 'bars', _bars_case(rng, True)
    for _ in range(300 if big else 40):
        yield 'mlines', _ml_case(rng)
    for _ in range(600 if big else 80):
        yield 'psych', _psy_case(rng)
    for _ in range(400 if big else 60):
        yield 'psych2', _psy2_case(rng)
    for c in PF_CORPUS:
        yield 'pforms', c
    for kind in PF_KINDS:                        # every form on either argument path
        yield 'pforms', _pf_case(rng, kind, 't_const')
        yield 'pforms', _pf_case(rng, kind, 'rh_const')
    for _ in range(500 if big else 60):
        yield 'pforms', _pf_case(rng)
    # histories on one object
    for c in WRH_CORPUS:
        yield 'whist', c
    yield 'whist', WRH_DEFAULT_CUT
    for n in (1, 2, 3, 36):
        yield 'whist', _wrh_case(rng, n)
    for _ in range(1200 if big else 150):
        yield 'whist', _wrh_case(rng, big=rng.random() < 0.4)
    for _ in range(12 if big else 8):
        yield 'whist', _wrh_case(rng, default_cut=True)
    for _ in range(700 if big else 90):
        yield 'bhist', _bh_case(rng, rng.random() < 0.45)
    for _ in range(500 if big else 60):
        yield 'phist', _ph_case(rng)
    for c in HP_CORPUS:
        if len(c['moys']) <= 900:
            yield 'hhist', _hh_case(rng, dict(c))
    for _ in range(300 if big else 40):
        yield 'hhist', _hh_case(rng)


def _count_strata(ctx, op, inp):
    if op in ('hp', 'hhist') and inp.get('hand'):
        ctx.count('stratum:hp unvalidated, %s' % inp['hand']['kind'])
    if op in ('hist', 'circ') and inp.get('shape'):
        ctx.count('stratum:%s values as %s' % (op, inp['shape']))
    if op == 'hp':
        ctx.count('stratum:hp ts=%d' % inp['ap'][6])
        if inp['ap'][7]:
            ctx.count('stratum:hp leap')
        if not inp['cont'] and len(inp['moys']) == 1:
            ctx.count('stratum:hp single datum')
        if inp.get('imm'):
            ctx.count('stratum:hp immutable input')
    elif op in ('wrose', 'whist'):
        if inp.get('sparse'):
            ctx.count('stratum:wrose discontinuous (%d samples)' % len(inp['dirs']))
        if all(not v > 1e-10 for v in inp['spd']) and inp['speed']:
            ctx.count('stratum:wrose all calm')
    elif op == 'psych2':
        ctx.count('stratum:psych ' + inp['variant'])
    elif op == 'pforms':
        ctx.count('stratum:psych forms t=%s rh=%s' % (inp['tform'][0], inp['rhform'][0]))
        k = _pf_kind(inp)
        ctx.count('stratum:psych hours per value: %s' % ('24 (daily)' if k[0] == 'daily' else '1/%d' % k[1]))
    elif op == 'mlines':
        ctx.count('stratum:mlines %s%s' % ('hourly' if inp['hourly'] else 'monthly-per-hour',
                                           ' wrapping' if inp['period'][0] > inp['period'][3] else ''))
    elif op in ('bars', 'bhist') and inp['period'][0] > inp['period'][3]:
        ctx.count('stratum:bars wrapping period (%s)' % ('daily' if inp['daily'] else 'monthly'))
    elif op == 'bars' and any(lo == hi for lo, hi in inp['ranges'].values()):
        ctx.count('stratum:bars zero axis range')


_FAMILY = {'hp': 'hp', 'hhist': 'hp', 'mlines': 'bars', 'hist': 'wr', 'circ': 'wr', 'wrose': 'wr', 'whist': 'wr', 'bars': 'bars',
           'bhist': 'bars', 'psych': 'psy', 'psych2': 'psy', 'phist': 'psy', 'pforms': 'psy'}


def _confirm_failures(ctx, trail):
    """The failure that becomes the replay must fail when replayed.  Plain cases are replayed on their own
    in a fresh interpreter; a case that fails only after the cases evaluated before it in this process
    (state kept at module / class level) is replaced by that (shrunk) order; a failure that cannot be
    reproduced either way is dropped (the fresh-interpreter orders that follow look for it again)."""
    try:
        known = core.load_known(PROP)
    except Exception:
        known = []
    checked, lost = 0, set()
    for f in list(ctx.failures):
        if any(core.matches(f['sig'], k) for k in known) or f['op'] == 'order':
            continue
        if checked >= 5:
            break
        checked += 1
        case = [f['op'], f['input']]
        if _run_order([case])[0]:
            f['confirmed'] = True
            break
        idx = next((i for i, c in enumerate(trail) if c[0] == f['op'] and c[1] is f['input']), len(trail))
        fam = _FAMILY.get(f['op'])
        prefix = [c for c in trail[:idx] if _FAMILY.get(c[0]) == fam][-400:]
        r = _run_order(prefix + [case])[-1]
        if r:
            small = _shrink_order(prefix + [case], len(prefix), _sig_key(r))
            sig = dict(r.get('sig') or {})
            sig.update(op='order', order=True)
            f.update(op='order', input={'order': small, 'name': 'in-process'}, required=r.get('required'),
                     observed=r.get('observed'), sig=sig, confirmed=True)
            break
        lost.add(fam)
        ctx.notes.append('a %s failure was not reproduced in a fresh interpreter (state left by earlier calls '
                         'in this process); dropped in favour of the fresh-interpreter orders' % f['op'])
        ctx.failures.remove(f)
    else:
        return
    if lost and not any(f.get('confirmed') for f in ctx.failures):
        ctx.failures[:] = [f for f in ctx.failures if _FAMILY.get(f['op']) not in lost or
                           any(core.matches(f['sig'], k) for k in known)]
    ctx.failures.sort(key=lambda f: 0 if f.get('confirmed') else 1)


def oracle(ctx):
    trail = []

    def stream():
        for op, inp in _oracle_cases(ctx):
            _count_strata(ctx, op, inp)
            trail.append([op, inp])
            yield op, inp
    with contextlib.redirect_stdout(io.StringIO()):
        run_oracle_cases(ctx, stream(), check_case)
        if ctx.failures:
            _confirm_failures(ctx, trail)
        _oracle_orders(ctx)
        ctx.failures.sort(key=lambda f: 0 if f.get('confirmed') else 1)
