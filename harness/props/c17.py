"""C17 — Plots place each datum at the cell of its own time or bin, in its own colour.

Model: lean/Ladybug/Model/Plot.lean (on Model/AP.lean, Model/Cal.lean); theorems: lean/Ladybug/Props/C17.lean
(lemmas: Proofs/C17Lemmas.lean); driver: drv_c17.  Tie: correspondence (C) on the ops below.

The model describes hourlyplot.py / monthlychart.py WITH fixes/C17_hourlyplot_num_y.patch,
fixes/C17_hourlyplot_reverse_by_doy.patch and fixes/C17_daily_bars_first_month.patch applied.
"""
import contextlib
import io
import math
from datetime import datetime, timedelta
from fractions import Fraction

from harness import core
from harness.core import compare_batch, err_name, run_oracle_cases

PROP = 'C17'
PROOF_MODULES = ['Ladybug.Props.C17']
GREP_MODULES = ['Ladybug.Model.Plot', 'Ladybug.Proofs.C17Lemmas', 'Ladybug.Proofs.C17Hist', 'Ladybug.Proofs.C17Bars',
                'Ladybug.Proofs.C17Rev', 'Ladybug.Drv.C17', 'Ladybug.Model.AP',
                'Ladybug.Model.Cal', 'Ladybug.Py', 'Ladybug.DrvCore']
RULE = ('correspondence: hourly plots over analysis periods (partial, year-wrapping, hour windows incl. overnight '
        'and st>0..23, timesteps 1/2/3/4/6, leap) x data (continuous | whole windowed period | sparse subsets '
        'incl. same day-of-month in several months) x reverse_y x dyadic cell sizes/base points, values = '
        'distinct ids; histogram / histogram_circular on value lists with samples on the edges and outside; '
        'wind roses for direction counts 1..36 with samples on sector edges, 0/360 and calm speeds; monthly '
        'and daily bar charts (1-4 collections of 3 data types, stack on/off, explicit axis ranges); '
        'psychrometric charts (SI) with hours on cell edges and outside the chart.  oracle: the statement '
        'evaluated on the real objects (face centroid/colour vs day column and time row of the datum, sector '
        'membership by modular arithmetic on Fractions, bin edges, bar columns and affine heights, cell counts '
        'by brute force).  A case is non-trivial when the implementation returns a plot (not an error); '
        'distinct = distinct (op, input).')
TRUSTED_BASE = [
    'ladybug_geometry: Mesh2D.from_grid face order (column-major), remove_faces_only, colors setter, Mesh2D '
    'vertices/faces of bar and psychrometric meshes - exercised (not verified) by every hp/mbars/dbars/psych '
    'comparison, which reads cells back from centroids/vertices of the real meshes',
    'modelled, not verified: Python sorted() stability (List.mergeSort), float `%` and float arithmetic of '
    'bar/angle formulas (model is exact Rat; compared within 1e-9, bit-exact inputs are dyadic)',
    'the colour of a value is legend.color_range.color(value) (C15 model); C17 proves only that each face '
    'carries the colour computed from its own value',
    'validate_analysis_period (C13) and AnalysisPeriod.moys (C04) are taken from their own models; the hourly '
    'theorems assume the data date-times are a chronological sub-list of the period (what validation establishes)',
]
ASSUMPTIONS = [
    'the three C17 fix commits (259e666, 9d435cd, 0d57465) are in the checked tree',
    'psychrometric chart: SI only in the model (IP temperature categories are float-accumulated; oracle only)',
]
LEVEL_TEXT = ('Machine-checked Lean 4 theorems (19) over an executable model of the data placement of HourlyPlot, '
              'histogram/histogram_circular, WindRose, MonthlyChart bars and PsychrometricChart cells, for all inputs '
              'of each clause: the hourly mesh of a non-wrapping period (any hour window incl. overnight, all 12 '
              'timesteps, leap or not; continuous, windowed and sparse data; y axis normal and reversed) has one face '
              'per value and the face of a value lies in the column of its day and the (mirrored) row of its time of '
              'day, carrying the colour computed from its own value; histogram lists partition the input by the '
              'half-open edges and their sizes add up; every wind-rose sample is counted once (sector counts + calms = '
              'samples, for every direction count) and the prevailing direction is the arg-max set; bar heights are '
              'affine in the value and monthly/daily bars stand in the column of their month (any start day); '
              'psychrometric cells count exactly their own hours and sum to the on-chart hours. The model is compared '
              'with the real classes (mesh faces, centroids, values, bins, bar vertices, cell counts) on '
              'boundary-biased generated inputs on every run, and the whole statement is evaluated on the real objects '
              'by an independent oracle.')
LEVEL_NOTE = ('Trusted: Lean kernel; axioms propext/Classical.choice/Quot.sound only; the correspondence run '
              '(agreement on generated inputs only); ladybug_geometry mesh conventions; exact-rational model of float '
              'formulas (compared within 1e-9; float `d % 360.0` is outside the model); C04 characterisation of '
              'AnalysisPeriod.moys and the C13 validation post-condition (data date-times are a chronological sub-list '
              'of the period). NOT proved, only compared and oracle-checked: year-wrapping periods of the hourly plot, '
              'the IP psychrometric chart, histogram_circular with hist_range=None, bar_count staying below the '
              'horizontal bar count (hypothesis of the column theorems). Two open findings are listed in '
              'known_findings.d/C17.json.')
TECHNIQUE = ('Lean 4 proof (list induction, sorted-list uniqueness on the C04 characterisation of moys, omega, linarith) about '
             'a hand model tied to the plot classes by differential correspondence on mesh faces and bins')

STEP_TS = (1, 2, 3, 4, 6)


# ---------------------------------------------------------------------------------------------
# small helpers


def _b(x):
    return '1' if x else '0'


def _fr(x):
    """Exact rational token of a float/int."""
    f = Fraction(x)
    return '%d' % f.numerator if f.denominator == 1 else '%d/%d' % (f.numerator, f.denominator)


def _parse_rat(tok):
    return Fraction(tok)


def _lists(s):
    """Parse 'ok | a b | c |' -> [[a,b],[c],[]] (token lists)."""
    body = s[2:].strip()
    if not body:
        return []
    parts = body.split('|')[1:]
    return [p.split() for p in parts]


def _year(leap):
    return 2016 if leap else 2017


def _moy_of(leap, month, day, hour=0, minute=0):
    d = datetime(_year(leap), month, day, hour, minute) - datetime(_year(leap), 1, 1)
    return d.days * 1440 + d.seconds // 60


def _dt_of(leap, moy):
    return datetime(_year(leap), 1, 1) + timedelta(minutes=moy)


def _ny_minutes(leap):
    return (366 if leap else 365) * 1440


def _mdays(leap, month):
    return [31, 29 if leap else 28, 31, 30, 31, 30, 31, 31, 30, 31, 30, 31][month - 1]


def period_moys(ap):
    """Independent enumeration of an analysis period (the description proved as C04_mem_moys / chrono):
    grid steps in the daily window between start moment and end of the end hour, chronological."""
    stM, stD, stH, enM, enD, enH, ts, leap = ap
    step = 60 // ts
    n = _ny_minutes(leap)
    st = _moy_of(leap, stM, stD, stH)
    en = _moy_of(leap, enM, enD, enH)
    span = (en + 60 - st) if st <= en else (n - st + en + 60)
    out = []
    for k in range(0, span, step):
        m = (st + k) % n
        mod = m % 1440
        if stH <= enH:
            ok = (stH * 60 <= mod <= enH * 60) or (stH == 0 and enH == 23)
        else:
            ok = mod >= stH * 60 or mod <= enH * 60
        if ok:
            out.append(m)
    return out


def _rand_ap(rng, kind=None):
    leap = rng.random() < 0.3
    ts = rng.choice(STEP_TS) if rng.random() < 0.6 else 1
    kind = kind or rng.choice(['plain', 'plain', 'window', 'window23', 'overnight', 'wrap', 'wrapwin', 'day'])
    ndays = 366 if leap else 365
    d0 = rng.randrange(ndays)
    if kind == 'day':
        ln = 1
    else:
        ln = rng.choice([1, 2, 3, 5, 8, 31, 32]) if rng.random() < 0.85 else rng.randrange(1, 60)
    if kind in ('wrap', 'wrapwin'):
        d0 = ndays - rng.choice([1, 2, 3, 10])
        ln = ndays - d0 + rng.choice([1, 2, 5])
    elif d0 + ln > ndays:
        d0 = ndays - ln
    a = datetime(_year(leap), 1, 1) + timedelta(days=d0)
    b = a + timedelta(days=ln - 1)
    if b.year != a.year:
        b = b.replace(year=a.year)
    if kind in ('plain', 'wrap', 'day'):
        sh, eh = 0, 23
    elif kind in ('window', 'wrapwin'):
        sh = rng.randrange(0, 23)
        eh = rng.randrange(sh, 23)
    elif kind == 'window23':
        sh, eh = rng.randrange(1, 24), 23
    else:
        eh = rng.randrange(0, 22)
        sh = rng.randrange(eh + 1, 24)
        if ln == 1:                      # same-day overnight wraps the whole year: not generated here
            b = a + timedelta(days=1)
            if b.year != a.year:
                a, b = a - timedelta(days=1), a
    return [a.month, a.day, sh, b.month, b.day, eh, ts, leap]


def _sparse(rng, moys):
    if not moys:
        return []
    r = rng.random()
    if r < 0.25:
        return list(moys)
    if r < 0.4:
        i = rng.randrange(len(moys))
        j = rng.randrange(i, len(moys))
        return moys[i:j + 1]
    if r < 0.55:
        k = rng.choice([2, 3, 5, 24, 25, 7])
        return moys[rng.randrange(k)::k] or [moys[0]]
    if r < 0.7:                          # very sparse: a few single values
        idx = sorted(rng.sample(range(len(moys)), min(len(moys), rng.choice([1, 2, 3, 4]))))
        return [moys[i] for i in idx]
    p = rng.choice([0.1, 0.5, 0.9])
    out = [m for m in moys if rng.random() < p]
    return out or [moys[-1]]


def _hp_case(rng, cont=None):
    cont = (rng.random() < 0.15) if cont is None else cont
    if cont:
        ap = _rand_ap(rng, rng.choice(['plain', 'wrap', 'day']))
        moys = []
    else:
        ap = _rand_ap(rng)
        moys = _sparse(rng, period_moys(ap))
    return {'cont': cont, 'rev': rng.random() < 0.5, 'ap': ap, 'moys': moys,
            'xdim': rng.choice([1, 2, 0.5, 3]), 'ydim': rng.choice([4, 1, 0.25, 2]),
            'base': [rng.choice([0, 0, 10, -7]), rng.choice([0, 0, -3, 100])]}


def _same_day_number_case(rng, rev=True):
    """Sparse data on the same day-of-month number in consecutive months."""
    leap = rng.random() < 0.3
    ts = rng.choice([1, 2])
    day = rng.randrange(1, 29)
    months = sorted(rng.sample(range(1, 13), rng.choice([2, 3])))
    ap = [months[0], 1, 0, months[-1], _mdays(leap, months[-1]), 23, ts, leap]
    moys = []
    for mo in months:
        hrs = sorted(rng.sample(range(24), rng.choice([1, 2, 3])))
        moys += [_moy_of(leap, mo, day, h) for h in hrs]
    return {'cont': False, 'rev': rev, 'ap': ap, 'moys': moys, 'xdim': 1, 'ydim': 4, 'base': [0, 0]}


HP_CORPUS = [
    {'cont': False, 'rev': False, 'ap': [1, 1, 9, 1, 2, 10, 1, False], 'moys': [600, 1980], 'xdim': 1, 'ydim': 4,
     'base': [0, 0]},
    {'cont': False, 'rev': True, 'ap': [1, 1, 9, 1, 2, 10, 1, False], 'moys': [600, 1980], 'xdim': 1, 'ydim': 4,
     'base': [0, 0]},
    # st>0 .. 23 at timestep 2 (C17_hourlyplot_num_y)
    {'cont': False, 'rev': False, 'ap': [1, 1, 5, 1, 3, 23, 2, False],
     'moys': None, 'xdim': 1, 'ydim': 4, 'base': [0, 0]},
    {'cont': False, 'rev': True, 'ap': [1, 1, 5, 1, 3, 23, 2, False],
     'moys': None, 'xdim': 1, 'ydim': 4, 'base': [0, 0]},
    # same day number in two months, reversed (C17_hourlyplot_reverse_by_doy)
    {'cont': False, 'rev': True, 'ap': [1, 1, 0, 12, 31, 23, 1, False],
     'moys': [_moy_of(False, 1, 5, 10), _moy_of(False, 2, 5, 9)], 'xdim': 1, 'ydim': 4, 'base': [0, 0]},
    {'cont': False, 'rev': True, 'ap': [1, 1, 22, 1, 3, 3, 2, False], 'moys': None, 'xdim': 2, 'ydim': 1,
     'base': [10, -3]},
    {'cont': False, 'rev': True, 'ap': [12, 30, 5, 1, 2, 17, 1, False], 'moys': None, 'xdim': 1, 'ydim': 4,
     'base': [0, 0]},
    {'cont': True, 'rev': True, 'ap': [2, 27, 0, 3, 2, 23, 4, True], 'moys': [], 'xdim': 0.5, 'ydim': 0.25,
     'base': [0, 0]},
    {'cont': True, 'rev': False, 'ap': [12, 30, 0, 1, 2, 23, 1, False], 'moys': [], 'xdim': 1, 'ydim': 4,
     'base': [0, 0]},
]
for _c in HP_CORPUS:
    if _c['moys'] is None:
        _c['moys'] = period_moys(_c['ap'])

# the same-day overnight window that wraps the whole year (known finding)
HP_SAMEDAY = {'cont': False, 'rev': False, 'ap': [1, 5, 22, 1, 5, 3, 1, False], 'moys': None, 'xdim': 1,
              'ydim': 4, 'base': [0, 0]}
HP_SAMEDAY['moys'] = period_moys(HP_SAMEDAY['ap'])[:40]


def _build_hp(case, legend_par=None):
    from ladybug.analysisperiod import AnalysisPeriod
    from ladybug.datacollection import HourlyContinuousCollection, HourlyDiscontinuousCollection
    from ladybug.header import Header
    from ladybug.datatype.generic import GenericType
    from ladybug.hourlyplot import HourlyPlot
    from ladybug_geometry.geometry3d.pointvector import Point3D
    ap = AnalysisPeriod(*case['ap'])
    hdr = Header(GenericType('id', ''), '', ap)
    leap = case['ap'][7]
    if case['cont']:
        coll = HourlyContinuousCollection(hdr, list(range(len(period_moys(case['ap'])))))
    else:
        arrs = []
        for m in case['moys']:
            d = _dt_of(leap, m)
            arrs.append([d.month, d.day, d.hour, d.minute] + ([1] if leap else []))
        coll = HourlyDiscontinuousCollection.from_dict({
            'header': hdr.to_dict(), 'values': list(range(len(arrs))), 'datetimes': arrs,
            'validated_a_period': True, 'type': 'HourlyDiscontinuous'})
    return HourlyPlot(coll, legend_par, Point3D(case['base'][0], case['base'][1], 0), case['xdim'],
                      case['ydim'], 0, case['rev'])


def _hp_line(c):
    return 'hp %s %s %s %s %d %s' % (_b(c['cont']), _b(c['rev']), ' '.join(str(int(x)) for x in c['ap'][:7]),
                                     _b(c['ap'][7]), len(c['moys']), ' '.join(str(m) for m in c['moys']))


def _hp_cells(hp, case):
    """(nx, ny, [(col, row)] per face) read from the real geometry."""
    mesh = hp.colored_mesh2d
    bd = hp.chart_border2d
    nx = int(round((bd.max.x - bd.min.x) / case['xdim']))
    ny = int(round((bd.max.y - bd.min.y) / case['ydim']))
    cells = []
    for c in mesh.face_centroids:
        cells.append((int(math.floor((c.x - case['base'][0]) / case['xdim'])),
                      int(math.floor((c.y - case['base'][1]) / case['ydim']))))
    return mesh, nx, ny, cells


def _hp_impl(case):
    hp = _build_hp(case)
    mesh, nx, ny, cells = _hp_cells(hp, case)
    vals = list(hp.values)
    if len(vals) != len(cells):
        return 'err:value'
    toks = []
    for (cx, cy), v in zip(cells, vals):
        toks.append('%d %d %d' % (cx, cy, int(v)))
    return ('ok %d %d %d ' % (nx, ny, len(cells))) + ' '.join(toks)


# ---- histogram


def _hist_case(rng):
    nb = rng.choice([1, 2, 3, 4, 6, 10])
    r = rng.random()
    if r < 0.7:
        lo = rng.choice([0, -5, 1, 0.5])
        w = rng.choice([1, 0.5, 2, 10, 0.25])
        bins = [lo + i * w for i in range(nb)]
    elif r < 0.85:
        bins = sorted(rng.choice([0, 1, 2, 2, 3, 5, 8]) + 0.0 for _ in range(nb))      # repeated edges
    else:
        bins = [float(rng.randrange(-3, 8)) for _ in range(nb)]                         # not monotone
    vals = []
    for _ in range(rng.choice([0, 1, 5, 20, 40])):
        q = rng.random()
        if q < 0.4:
            vals.append(rng.choice(bins))
        elif q < 0.5:
            vals.append(rng.choice(bins) - 2.0 ** -20)
        elif q < 0.6:
            vals.append(min(bins) - rng.choice([0.5, 1, 100]))
        elif q < 0.7:
            vals.append(max(bins) + rng.choice([0, 0.5, 100]))
        else:
            vals.append(round(rng.uniform(min(bins) - 1, max(bins) + 1), 3))
    return {'bins': bins, 'vals': vals}


def _hist_line(c):
    return 'hist %d %s %d %s' % (len(c['bins']), ' '.join(_fr(b) for b in c['bins']), len(c['vals']),
                                 ' '.join(_fr(v) for v in c['vals']))


def _show_id_lists(h):
    return 'ok ' + ' '.join('| ' + ' '.join(str(p[1]) for p in b) for b in h)


def _hist_impl(c):
    from ladybug._datacollectionbase import BaseCollection
    vals = [(v, i) for i, v in enumerate(c['vals'])]
    return _show_id_lists(BaseCollection.histogram(vals, c['bins'], key=lambda p: p[0]))


def _circ_case(rng):
    r = rng.random()
    rngpair = None
    if r < 0.45:                                   # wind-rose style bins
        n = rng.choice([1, 2, 3, 4, 8, 16, 5, 6, 12])
        phi = 180.0 / n
        bins = [(i * 360.0 / n - phi) % 360.0 for i in range(n + 1)]
        rngpair = [0, 360]
    elif r < 0.7:                                  # rotated monotone bins with one wrap
        n = rng.choice([2, 3, 5])
        off = rng.choice([10, 350, 90, 0])
        bins = [(off + i * 360.0 / n) % 360.0 for i in range(n + 1)]
        rngpair = [0, 360]
    elif r < 0.85:
        bins = [0.0, 6.0, 12.0, 18.0, 24.0] if rng.random() < 0.5 else [22.0, 4.0, 10.0, 16.0, 22.0]
        rngpair = [0, 24]
    else:
        bins = [float(rng.randrange(0, 12)) for _ in range(rng.choice([0, 1, 2, 4]))]
        rngpair = None if rng.random() < 0.5 else [0, 12]
    hi = rngpair[1] if rngpair else 12
    vals = []
    for _ in range(rng.choice([0, 1, 6, 25])):
        q = rng.random()
        if q < 0.4 and bins:
            vals.append(rng.choice(bins))
        elif q < 0.5:
            vals.append(rng.choice([0.0, float(hi), hi - 2.0 ** -30, -1.0, hi + 1.0]))
        else:
            vals.append(round(rng.uniform(0, hi), 2))
    return {'bins': bins, 'vals': vals, 'range': rngpair}


def _circ_line(c):
    rp = ('1 %s %s' % (_fr(c['range'][0]), _fr(c['range'][1]))) if c['range'] else '0'
    return 'circ %s %d %s %d %s' % (rp, len(c['bins']), ' '.join(_fr(b) for b in c['bins']), len(c['vals']),
                                    ' '.join(_fr(v) for v in c['vals']))


def _circ_impl(c):
    from ladybug._datacollectionbase import BaseCollection
    vals = [(v, i) for i, v in enumerate(c['vals'])]
    rp = tuple(c['range']) if c['range'] else None
    return _show_id_lists(BaseCollection.histogram_circular(vals, c['bins'], rp, key=lambda p: p[0]))


# ---- wind rose

EXACT_N = (1, 2, 3, 4, 5, 6, 8, 9, 10, 12, 15, 16, 18, 20, 24, 30, 32, 36)


def _wr_case(rng, n=None):
    n = n or (rng.choice(EXACT_N) if rng.random() < 0.6 else rng.randrange(1, 37))
    exact = n in EXACT_N
    days = rng.choice([1, 1, 2, 3])
    cnt = 24 * days
    sect = 360.0 / n
    dirs, spd = [], []
    for _ in range(cnt):
        q = rng.random()
        if q < 0.35 and exact:
            k = rng.randrange(0, n + 1)
            d = k * sect - sect / 2 + rng.choice([0, 0, 2.0 ** -20, -2.0 ** -20])
            d = d + rng.choice([0, 0, 360, -360, 720])
        elif q < 0.5:
            d = rng.choice([0.0, 360.0, 359.999, 180.0, 90.0, 270.0, 720.0, -90.0, -360.0])
        else:
            k = rng.randrange(0, n)
            d = k * sect + rng.uniform(-0.49, 0.49) * sect
            d = d + rng.choice([0, 0, 0, 360])
        if not exact:                    # keep clear of the (float-rounded) sector edges
            x = (Fraction(float(d)) % 360 + Fraction(180, n)) / Fraction(360, n)
            if abs(x - round(x)) < Fraction(1, 1000):
                d = float(d) + sect / 4
        dirs.append(float(d))
        q = rng.random()
        spd.append(0.0 if q < 0.15 else 1e-11 if q < 0.2 else 1e-10 if q < 0.25 else 2e-10 if q < 0.3
                   else -1.0 if q < 0.33 else round(rng.uniform(0.1, 20), 1))
    return {'n': n, 'speed': rng.random() < 0.8, 'dirs': dirs, 'spd': spd, 'days': days}


def _wr_line(c):
    red = [d % 360.0 for d in c['dirs']]            # float `%` is CPython's, not the code under test
    return 'wrose %d %s %d %s' % (c['n'], _b(c['speed']), len(red),
                                  ' '.join('%s %s' % (_fr(d), _fr(v)) for d, v in zip(red, c['spd'])))


def _build_wr(c):
    from ladybug.analysisperiod import AnalysisPeriod
    from ladybug.datacollection import HourlyContinuousCollection
    from ladybug.header import Header
    from ladybug.datatype.angle import Angle
    from ladybug.datatype.speed import Speed
    from ladybug.datatype.temperature import Temperature
    from ladybug.windrose import WindRose
    ap = AnalysisPeriod(1, 1, 0, 1, c['days'], 23)
    dcol = HourlyContinuousCollection(Header(Angle(), 'degrees', ap), list(c['dirs']))
    if c['speed']:
        acol = HourlyContinuousCollection(Header(Speed(), 'm/s', ap), list(c['spd']))
    else:
        acol = HourlyContinuousCollection(Header(Temperature(), 'C', ap), list(c['spd']))
    return WindRose(dcol, acol, c['n'])


def _wr_impl(c):
    wr = _build_wr(c)
    h = wr.histogram_data
    s = 'ok ' + ' '.join('| ' + ' '.join(_fr(v) for v in b) for b in h)
    return s + ' # %d # ' % wr.zero_count + ' '.join(_fr(p) for p in wr.prevailing_direction)


# ---- monthly / daily bars

BAR_TYPES = ('C', 'kWh', 'W')           # non-cumulative | cumulative | cumulative only when stacked


def _dtype(unit):
    from ladybug.datatype.temperature import Temperature
    from ladybug.datatype.energy import Energy
    from ladybug.datatype.power import Power
    return {'C': Temperature, 'kWh': Energy, 'W': Power}[unit]()


def _is_cum(unit, stack):
    return unit == 'kWh' or (stack and unit == 'W')


def _bars_case(rng, daily=False):
    leap = rng.random() < 0.3
    ncoll = rng.choice([1, 1, 2, 3, 4])
    units = [rng.choice(BAR_TYPES) for _ in range(ncoll)]
    stack = rng.random() < 0.5
    if daily:
        stM = rng.randrange(1, 13)
        stD = rng.choice([1, 1, 2, 15, _mdays(leap, stM)])
        stD = min(stD, _mdays(leap, stM))
        ndays = rng.choice([2, 3, 20, 31, 45, 70])
        a = datetime(_year(leap), stM, stD)
        b = a + timedelta(days=ndays - 1)
        if b.year != a.year:
            b = datetime(_year(leap), 12, 31)
        if b == a:
            a = a - timedelta(days=1)
        ndays = (b - a).days + 1
        period = [a.month, a.day, 0, b.month, b.day, 23, 1, leap]
        npts = ndays
    else:
        stM = rng.randrange(1, 12)
        enM = rng.randrange(stM + 1, 13)       # (single-value collections fail validation: C13's subject)
        period = [stM, 1, 0, enM, _mdays(leap, enM), 23, 1, leap]
        npts = enM - stM + 1
    datas = []
    for u in units:
        sign = rng.choice([1, 1, -1, 0])
        vals = []
        for _ in range(npts):
            v = rng.choice([0, 1, 2.5, 10, 7.25, 100]) if rng.random() < 0.5 else round(rng.uniform(0, 50), 2)
            if sign == 0:
                v = v * rng.choice([1, -1])
            else:
                v = v * sign
            vals.append(float(v))
        datas.append(vals)
    ranges = {}
    for u in dict.fromkeys(units):
        lo = rng.choice([0, -50, -100, 5, 0.5])
        hi = lo + rng.choice([0, 10, 100, 150.5, 64])
        ranges[u] = [float(lo), float(hi)]
    return {'daily': daily, 'period': period, 'units': units, 'stack': stack, 'datas': datas, 'ranges': ranges,
            'xdim': rng.choice([10, 8, 1, 2.5]), 'ydim': rng.choice([40, 1, 16]),
            'base': [rng.choice([0, 5, -20]), rng.choice([0, 3, -10])]}


def _bar_groups(c):
    """Grouping by unit in order of first appearance (what `_group_data_by_units` does)."""
    order = list(dict.fromkeys(c['units']))
    return [(u, [d for uu, d in zip(c['units'], c['datas']) if uu == u]) for u in order]


def _n_bars(c):
    if not c['stack']:
        return len(c['units'])
    n = 0
    for u, ds in _bar_groups(c):
        n += 1 if _is_cum(u, True) else len(ds)
    return n


def _bars_line(c):
    groups = _bar_groups(c)
    gs = []
    for u, ds in groups:
        lo, hi = c['ranges'][u]
        gs.append('%s %s %s %d %s' % (_b(_is_cum(u, c['stack'])), _fr(lo), _fr(hi), len(ds),
                                      ' '.join('%d %s' % (len(d), ' '.join(_fr(v) for v in d)) for d in ds)))
    head = '%s %s %s %s %s' % (_fr(c['base'][0]), _fr(c['base'][1]), _fr(c['xdim']), _fr(c['ydim']), _b(c['stack']))
    if c['daily']:
        leap = c['period'][7]
        months = list(range(c['period'][0], c['period'][3] + 1))
        dpm = [_mdays(leap, m) for m in months]
        return 'dbars %s %d %d %d %s %d %s' % (head, _n_bars(c), c['period'][1], len(dpm),
                                               ' '.join(str(x) for x in dpm), len(gs), ' '.join(gs))
    return 'mbars %s %d %d %s' % (head, _n_bars(c), len(gs), ' '.join(gs))


def _build_chart(c):
    from ladybug.analysisperiod import AnalysisPeriod
    from ladybug.datacollection import DailyCollection, MonthlyCollection
    from ladybug.header import Header
    from ladybug.monthlychart import MonthlyChart
    from ladybug_geometry.geometry2d.pointvector import Point2D
    ap = AnalysisPeriod(*c['period'])
    leap = c['period'][7]
    colls = []
    for u, d in zip(c['units'], c['datas']):
        hdr = Header(_dtype(u), u, ap)
        if c['daily']:
            d0 = (datetime(_year(leap), c['period'][0], c['period'][1]) - datetime(_year(leap), 1, 1)).days + 1
            colls.append(DailyCollection(hdr, list(d), list(range(d0, d0 + len(d)))))
        else:
            colls.append(MonthlyCollection(hdr, list(d), list(range(c['period'][0], c['period'][3] + 1))))
    mc = MonthlyChart(colls, None, Point2D(c['base'][0], c['base'][1]), c['xdim'], c['ydim'], c['stack'])
    for j, (u, _) in enumerate(_bar_groups(c)):
        mc.set_minimum_by_index(c['ranges'][u][0], j)
        mc.set_maximum_by_index(c['ranges'][u][1], j)
    return mc


def _mesh_bars(mesh):
    out = []
    vs = mesh.vertices
    for f in mesh.faces:
        v1, v2, v3 = vs[f[0]], vs[f[1]], vs[f[2]]
        out.append((v1.x, v1.y, v2.x - v1.x, v3.y))
    return out


def _bars_impl(c):
    mc = _build_chart(c)
    return 'ok ' + ' '.join('| ' + ' '.join(' '.join(_fr(x) for x in b) for b in _mesh_bars(m))
                            for m in mc.data_meshes)


# ---- psychrometric chart


def _psy_case(rng):
    mn = rng.choice([-20, -20, 0, -5, 10])
    mx = mn + rng.choice([10, 30, 70, 25])
    days = rng.choice([1, 1, 2])
    ts, rhs = [], []
    for _ in range(24 * days):
        q = rng.random()
        if q < 0.3:
            t = float(rng.randrange(mn - 1, mx + 2))
        elif q < 0.4:
            t = rng.choice([mn, mx, mn - 2.0 ** -20, mx + 2.0 ** -20, mx - 2.0 ** -20])
        else:
            t = round(rng.uniform(mn - 3, mx + 3), 1)
        q = rng.random()
        if q < 0.4:
            rh = float(rng.choice(range(0, 105, 5)))
        elif q < 0.5:
            rh = rng.choice([100.0, 0.0, 99.999, 5 - 2.0 ** -20, 100.5, 110.0])
        else:
            rh = round(rng.uniform(0, 100), 1)
        ts.append(float(t))
        rhs.append(float(rh))
    return {'min': mn, 'max': mx, 't': ts, 'rh': rhs, 'days': days,
            'xdim': rng.choice([1, 2, 0.5]), 'ydim': rng.choice([1500, 1000]), 'base': [rng.choice([0, 10]), 0]}


def _psy_line(c):
    return 'psych %d %d %d %s' % (c['min'], c['max'], len(c['t']),
                                  ' '.join('%s %s' % (_fr(t), _fr(r)) for t, r in zip(c['t'], c['rh'])))


def _build_psy(c):
    from ladybug.analysisperiod import AnalysisPeriod
    from ladybug.datacollection import HourlyContinuousCollection
    from ladybug.header import Header
    from ladybug.datatype.temperature import Temperature
    from ladybug.datatype.fraction import RelativeHumidity
    from ladybug.psychchart import PsychrometricChart
    from ladybug_geometry.geometry2d.pointvector import Point2D
    ap = AnalysisPeriod(1, 1, 0, 1, c['days'], 23)
    t = HourlyContinuousCollection(Header(Temperature(), 'C', ap), list(c['t']))
    rh = HourlyContinuousCollection(Header(RelativeHumidity(), '%', ap), list(c['rh']))
    return PsychrometricChart(t, rh, 101325, None, Point2D(c['base'][0], c['base'][1]), c['xdim'], c['ydim'],
                              c['min'], c['max'])


def _psy_faces(ch, c):
    """[(y, x)] of the kept faces, from the vertex index structure of the real mesh."""
    row_len = c['max'] - c['min'] + 1
    return [(f[0] // row_len, f[0] % row_len) for f in ch.colored_mesh.faces]


def _psy_impl(c):
    ch = _build_psy(c)
    cells = _psy_faces(ch, c)
    hv = ch.hour_values
    if len(hv) != len(cells):
        return 'err:value'
    return ('ok %d ' % len(cells)) + ' '.join('%d %d %d' % (y, x, int(round(v))) for (y, x), v in zip(cells, hv))



def _num_close(a, b, tol=1e-9):
    fa, fb = float(Fraction(a)), float(Fraction(b))
    return abs(fa - fb) <= tol * max(1.0, abs(fa), abs(fb))


def _same_numbers(mo, io, exact_head=False):
    """Token-wise comparison of two response lines: structure tokens must be equal, numbers close."""
    if not (mo.startswith('ok') and io.startswith('ok')):
        return mo == io
    ta, tb = mo.split(), io.split()
    if len(ta) != len(tb):
        return False
    for x, y in zip(ta, tb):
        if x == y:
            continue
        try:
            if not _num_close(x, y):
                return False
        except (ValueError, ZeroDivisionError):
            return False
    return True


def compare_numeric(ctx, op, cases, model_line, impl_fn, key=None):
    """Like core.compare_batch, for responses whose numbers come from float arithmetic on the
    implementation side and exact rationals on the model side (relative tolerance 1e-9)."""
    lines = [model_line(c) for c in cases]
    outs = ctx.driver().run(lines)
    for c, line, mo in zip(cases, lines, outs):
        try:
            io = impl_fn(c)
        except Exception as e:
            io = 'err:' + err_name(e)
        ctx.compared += 1
        ctx.count('op:' + op)
        ctx.case((op, key(c) if key else line), nontrivial=not io.startswith('err:'))
        if io.startswith('err:'):
            ctx.count('err_results')
        if not _same_numbers(mo, io):
            ctx.disagree(op, {'case': c, 'line': line}, mo[:2000], io[:2000])
    if cases:
        ctx.sample({'op': op, 'request': lines[0][:300], 'model': outs[0][:300]})


# ---------------------------------------------------------------------------------------------
# correspondence


def correspondence(ctx):
    with contextlib.redirect_stdout(io.StringIO()):      # AnalysisPeriod prints when it clips a day
        _correspondence(ctx)


def _correspondence(ctx):
    rng = ctx.rng
    # hourly plot
    cases = list(HP_CORPUS)
    for _ in range(ctx.n(300, 2500)):
        cases.append(_hp_case(rng))
    for _ in range(ctx.n(25, 300)):
        cases.append(_same_day_number_case(rng, rev=rng.random() < 0.8))
    for c in cases:
        ap = c['ap']
        kind = ('cont' if c['cont'] else 'disc') + ('/rev' if c['rev'] else '')
        ctx.count('hp:' + kind)
        ctx.count('hp:ts=%d' % ap[6])
        if ap[2] > ap[5]:
            ctx.count('hp:overnight')
        elif (ap[2], ap[5]) != (0, 23):
            ctx.count('hp:window' + ('(st>0..23)' if ap[5] == 23 else ''))
        if _moy_of(ap[7], ap[0], ap[1], ap[2]) > _moy_of(ap[7], ap[3], ap[4], ap[5]):
            ctx.count('hp:year-wrapping')
        if not c['cont'] and len(c['moys']) < len(period_moys(ap)):
            ctx.count('hp:sparse')
    compare_batch(ctx, 'hp', cases, _hp_line, _hp_impl,
                  key=lambda c: (c['cont'], c['rev'], tuple(c['ap']), tuple(c['moys'])))
    # histograms
    hc = [_hist_case(rng) for _ in range(ctx.n(500, 6000))]
    hc += [{'bins': [0, 1, 2, 3], 'vals': [0, 0, 0.9, 1, 1.5, 1.99, 2, 3]}, {'bins': [], 'vals': [1.0]},
           {'bins': [1.0], 'vals': [0.0, 1.0, 2.0]}]
    compare_batch(ctx, 'hist', hc, _hist_line, _hist_impl, key=lambda c: (tuple(c['bins']), tuple(c['vals'])))
    cc = [_circ_case(rng) for _ in range(ctx.n(600, 6000))]
    cc += [{'bins': [358, 0, 3], 'vals': [358, 359, 0, 1, 2, 3], 'range': None},
           {'bins': [358, 0, 3], 'vals': [], 'range': None}]
    for c in cc:
        ctx.count('circ:range=' + ('given' if c['range'] else 'none'))
    compare_batch(ctx, 'circ', cc, _circ_line, _circ_impl,
                  key=lambda c: (tuple(c['bins']), tuple(c['vals']), str(c['range'])))
    # wind rose
    wc = [_wr_case(rng, n) for n in range(1, 37)] + [_wr_case(rng) for _ in range(ctx.n(120, 1500))]
    for c in wc:
        ctx.count('wrose:n=%s' % ('exact' if c['n'] in EXACT_N else 'inexact'))
        ctx.count('wrose:calm samples', sum(1 for v in c['spd'] if not v > 1e-10))
    compare_numeric(ctx, 'wrose', wc, _wr_line, _wr_impl,
                    key=lambda c: (c['n'], c['speed'], tuple(c['dirs']), tuple(c['spd'])))
    ac = list(range(1, 37)) + [72, 360]
    outs = ctx.driver().run(['angles %d' % n for n in ac])
    from ladybug.windrose import WindRose
    for n, o in zip(ac, outs):
        ctx.compared += 1
        want = [float(Fraction(t)) for t in o[2:].split()]
        got = list(WindRose._compute_angles(n))
        if len(want) != len(got) or any(abs(a - b) > 1e-9 for a, b in zip(want, got)):
            ctx.disagree('angles', {'n': n}, o, repr(got))
    # bars
    bc = [_bars_case(rng, False) for _ in range(ctx.n(150, 1500))]
    for c in bc:
        ctx.count('mbars:stack=%s' % c['stack'])
        ctx.count('mbars:collections=%d' % len(c['units']))
    compare_numeric(ctx, 'mbars', bc, _bars_line, _bars_impl, key=lambda c: repr(c))
    dc = [_bars_case(rng, True) for _ in range(ctx.n(120, 1200))]
    for c in dc:
        ctx.count('dbars:start day %s' % ('1' if c['period'][1] == 1 else '>1'))
        ctx.count('dbars:months=%d' % (c['period'][3] - c['period'][0] + 1))
    compare_numeric(ctx, 'dbars', dc, _bars_line, _bars_impl, key=lambda c: repr(c))
    # psychrometric chart
    pc = [_psy_case(rng) for _ in range(ctx.n(100, 1000))]
    compare_batch(ctx, 'psych', pc, _psy_line, _psy_impl, key=lambda c: repr(c))


# ---------------------------------------------------------------------------------------------
# property oracle: the statement of C17 evaluated on the real objects, independent of the model


def _distinct_colors(n):
    from ladybug.color import Color
    return [Color(k % 251, (k // 251) % 251, 7 + (k * 37) % 200) for k in range(n)]


def _check_hp(inp):
    sig = {'cont': bool(inp['cont']), 'rev': bool(inp['rev'])}
    ap = inp['ap']
    window = 'overnight' if ap[2] > ap[5] else 'whole' if (ap[2], ap[5]) == (0, 23) else \
        'st>0..23' if ap[5] == 23 else 'window'
    sig['window'] = window
    sig['substep'] = ap[6] > 1
    wraps = _moy_of(ap[7], ap[0], ap[1], ap[2]) > _moy_of(ap[7], ap[3], ap[4], ap[5])
    sig['sameday_wrap'] = bool(wraps and ap[0] == ap[3] and ap[1] == ap[4] and ap[2] > ap[5])
    try:
        hp = _build_hp(inp)
        mesh, nx, ny, cells = _hp_cells(hp, inp)
        colors = list(mesh.colors)
        dc = hp.data_collection
        dts = list(dc.datetimes)
        vals = list(dc.values)
        pvals = list(hp.values)
        crange = hp.legend.color_range
        p = hp.analysis_period
    except Exception as e:
        return {'required': 'a coloured mesh with one face per value', 'observed': 'raises %s: %s' % (
            type(e).__name__, str(e)[:120]), 'sig': dict(sig, clause='builds', error=type(e).__name__)}
    if len(cells) != len(vals):
        return {'required': '%d faces' % len(vals), 'observed': '%d faces' % len(cells),
                'sig': dict(sig, clause='face_count')}
    # where every datum belongs, from its own date-time and the period (stdlib arithmetic)
    leap = p.is_leap_year
    ndays = 366 if leap else 365
    d0 = (datetime(_year(leap), p.st_month, p.st_day) - datetime(_year(leap), 1, 1)).days
    step = 60 // p.timestep
    row0 = p.st_hour * 60 if p.st_hour <= p.end_hour else 0
    want = {}
    for dt, v in zip(dts, vals):
        doy0 = (datetime(_year(leap), dt.month, dt.day) - datetime(_year(leap), 1, 1)).days
        col = (doy0 - d0) % ndays
        mod = dt.hour * 60 + dt.minute
        row = (mod - row0) // step
        if inp['rev']:
            row = ny - 1 - row
        want[v] = (col, row)
    if len(want) != len(vals):
        return None                                     # ids not distinct: not a case of this oracle
    seen = set()
    for k, (cell, pv, colr) in enumerate(zip(cells, pvals, colors)):
        if pv not in want or pv in seen:
            return {'required': 'each value on exactly one face', 'observed': 'face %d carries %r' % (k, pv),
                    'sig': dict(sig, clause='bijection')}
        seen.add(pv)
        if cell != want[pv]:
            return {'required': 'value %r (%s) at cell %s' % (pv, dts[vals.index(pv)], want[pv]),
                    'observed': 'face %d at cell %s' % (k, cell), 'sig': dict(sig, clause='cell')}
        if colr != crange.color(pv):
            return {'required': 'colour of value %r' % pv, 'observed': str(colr), 'sig': dict(sig, clause='colour')}
    # second identification of the datum behind a face: distinct legend colours, one per id
    n = len(vals)
    if 2 <= n <= 600:
        try:
            from ladybug.legend import LegendParameters
            cols = _distinct_colors(n)
            hp2 = _build_hp(inp, LegendParameters(min=0, max=n - 1, colors=cols))
            mesh2, _, _, cells2 = _hp_cells(hp2, inp)
            index = {(c.r, c.g, c.b): k for k, c in enumerate(cols)}
            for cell, colr in zip(cells2, mesh2.colors):
                k = index.get((colr.r, colr.g, colr.b))
                if k is None:
                    break                               # blend between stops (float domain): not decisive
                if cell != want[k]:
                    return {'required': 'colour of value %d at cell %s' % (k, want[k]),
                            'observed': 'at cell %s' % (cell,), 'sig': dict(sig, clause='colour_cell')}
        except Exception as e:
            return {'required': 'plot with a custom legend', 'observed': 'raises %s' % type(e).__name__,
                    'sig': dict(sig, clause='builds_legend', error=type(e).__name__)}
    return None


def _check_hist(inp):
    from ladybug._datacollectionbase import BaseCollection
    bins, vals = inp['bins'], inp['vals']
    if not bins or any(a > b for a, b in zip(bins, bins[1:])):
        return None                                     # the statement is about monotone edges
    h = BaseCollection.histogram(list(vals), bins)
    sig = {}
    if len(h) != len(bins) + 1:
        return {'required': '%d lists' % (len(bins) + 1), 'observed': len(h), 'sig': dict(sig, clause='shape')}
    if sorted(v for b in h for v in b) != sorted(vals):
        return {'required': 'every value in exactly one bin', 'observed': str(h)[:200],
                'sig': dict(sig, clause='partition')}
    for j, b in enumerate(h):
        for v in b:
            lo = bins[j - 1] if j >= 1 else None
            hi = bins[j] if j < len(bins) else None
            if (lo is not None and not v >= lo) or (hi is not None and not v < hi):
                return {'required': '%r in [%r, %r)' % (v, lo, hi), 'observed': 'in list %d' % j,
                        'sig': dict(sig, clause='edges')}
    return None


def _arc_contains(a, b, lo, hi, k):
    """Half-open circular arc from edge a to edge b inside the range [lo, hi)."""
    if a < b:
        return a <= k < b
    return (a <= k < hi) or (lo <= k < b)


def _check_circ(inp):
    from ladybug._datacollectionbase import BaseCollection
    bins, vals, rp = inp['bins'], inp['vals'], inp['range']
    if rp is None or len(bins) < 2:
        return None
    lo, hi = rp
    h = BaseCollection.histogram_circular(list(vals), bins, (lo, hi))
    sig = {}
    placed = sorted(v for b in h for v in b)
    inr = [v for v in vals if lo <= v < hi]
    covered = [v for v in inr if any(_arc_contains(bins[i], bins[i + 1], lo, hi, v) for i in range(len(bins) - 1))]
    if placed != sorted(covered):
        return {'required': 'each in-range sample inside some bin exactly once: %s' % sorted(covered)[:20],
                'observed': str(placed)[:200], 'sig': dict(sig, clause='once')}
    for i, b in enumerate(h):
        for v in b:
            if not _arc_contains(bins[i], bins[i + 1], lo, hi, v):
                return {'required': '%r inside arc %r..%r' % (v, bins[i], bins[i + 1]), 'observed': 'bin %d' % i,
                        'sig': dict(sig, clause='arc')}
    return None


def _check_wrose(inp):
    n = inp['n']
    sig = {'speed': bool(inp['speed'])}
    try:
        wr = _build_wr(inp)
        h = wr.histogram_data
        zc = wr.zero_count
        pv = list(wr.prevailing_direction)
    except Exception as e:
        return {'required': 'a wind rose', 'observed': 'raises %s' % type(e).__name__,
                'sig': dict(sig, clause='builds', error=type(e).__name__)}
    total = len(inp['dirs'])
    got = sum(len(b) for b in h)
    if got + zc != total:
        neg = any(-1e-9 < d < 0 for d in inp['dirs'])
        return {'required': 'sector counts + calms = %d samples' % total, 'observed': '%d + %d' % (got, zc),
                'sig': dict(sig, clause='sum', tiny_negative_direction=neg)}
    # sector of each sample by exact modular arithmetic: sector i is centred on i * 360 / n
    exact = n in EXACT_N
    want = [[] for _ in range(n)]
    calm = 0
    for d, v in zip(inp['dirs'], inp['spd']):
        if inp['speed'] and not v > 1e-10:
            calm += 1
            continue
        fd = Fraction(d) % 360
        x = (fd + Fraction(180, n)) / Fraction(360, n)
        if not exact and abs(x - round(x)) < Fraction(1, 10 ** 6):
            return None                                 # edge of an inexact sector: float edge undecided
        want[int(math.floor(x)) % n].append(v)
    if calm != zc:
        return {'required': '%d calms' % calm, 'observed': zc, 'sig': dict(sig, clause='calm')}
    for i in range(n):
        if sorted(want[i]) != sorted(h[i]):
            return {'required': 'sector %d holds %d samples' % (i, len(want[i])), 'observed': '%d samples' % len(h[i]),
                    'sig': dict(sig, clause='sector')}
    mx = max(len(b) for b in h)
    arg = [i * 360.0 / n for i in range(n) if len(h[i]) == mx]
    if len(arg) != len(pv) or any(abs(a - b) > 1e-9 for a, b in zip(arg, pv)):
        return {'required': 'prevailing %s' % arg, 'observed': str(pv), 'sig': dict(sig, clause='prevailing')}
    return None


def _check_bars(inp):
    sig = {'daily': bool(inp['daily']), 'stack': bool(inp['stack'])}
    try:
        mc = _build_chart(inp)
        meshes = mc.data_meshes
    except Exception as e:
        return {'required': 'bar meshes', 'observed': 'raises %s: %s' % (type(e).__name__, str(e)[:80]),
                'sig': dict(sig, clause='builds', error=type(e).__name__)}
    bx, xd = inp['base'][0], inp['xdim']
    leap = inp['period'][7]
    # the meshes come group by group (units in order of first appearance)
    order = []
    for u, ds in _bar_groups(inp):
        order += [(u, d) for d in ds]
    if len(meshes) != len(order):
        return {'required': '%d meshes' % len(order), 'observed': len(meshes), 'sig': dict(sig, clause='shape')}
    eps = 1e-7 * max(1.0, abs(bx) + xd * 13)
    for (u, data), mesh in zip(order, meshes):
        bars = _mesh_bars(mesh)
        if len(bars) != len(data):
            return {'required': '%d bars' % len(data), 'observed': len(bars), 'sig': dict(sig, clause='bar_count')}
        for k, (x, y0, w, y1) in enumerate(bars):
            if inp['daily']:
                d = datetime(_year(leap), inp['period'][0], inp['period'][1]) + timedelta(days=k)
                col = d.month - inp['period'][0]
                big = xd / _n_bars(inp)
                slot = big / _mdays(leap, d.month)
                # inside its month's column and, within the collection's strip, at the slot of its day
                off = (x - (bx + col * xd)) % big
                if not (bx + col * xd - eps <= x and x + w <= bx + (col + 1) * xd + eps) or \
                        min(abs(off - (d.day - 1) * slot), abs(off - big - (d.day - 1) * slot)) > eps:
                    return {'required': 'bar of %d/%d in column %d at day slot %d' % (d.month, d.day, col, d.day - 1),
                            'observed': 'x=%r w=%r' % (x, w),
                            'sig': dict(sig, clause='day_column', first_day_is_1=inp['period'][1] == 1)}
            else:
                if not (bx + k * xd - eps <= x and x + w <= bx + (k + 1) * xd + eps and w > 0):
                    return {'required': 'bar %d inside column %d' % (k, k), 'observed': 'x=%r w=%r' % (x, w),
                            'sig': dict(sig, clause='month_column')}
        # heights affine in the values (one common slope and intercept per collection)
        hs = [b[3] - b[1] for b in bars]
        tol = 1e-7 * (1 + max(abs(h) for h in hs))
        pts = sorted(zip(data, hs))
        (v0, h0), (v1, h1) = pts[0], pts[-1]
        if v1 > v0:
            slope = (h1 - h0) / (v1 - v0)
            bad = slope <= 0 or any(abs(h0 + slope * (v - v0) - h) > tol for v, h in pts)
        else:
            bad = any(abs(h - h0) > tol for v, h in pts)
        if bad:
            return {'required': 'heights affine and increasing in the values', 'observed': str(pts)[:160],
                    'sig': dict(sig, clause='affine')}
    return None


def _check_psych(inp):
    from ladybug.psychrometrics import humid_ratio_from_db_rh
    sig = {}
    mn, mx = inp['min'], inp['max']
    on = [(t, r) for t, r in zip(inp['t'], inp['rh']) if mn <= t <= mx]
    try:
        ch = _build_psy(inp)
    except AssertionError:
        return None if not on else {'required': 'a chart', 'observed': 'AssertionError',
                                    'sig': dict(sig, clause='builds')}
    mtx = ch.time_matrix
    if sum(sum(r) for r in mtx) != len(on):
        return {'required': 'sum of cells = %d on-chart hours' % len(on), 'observed': sum(sum(r) for r in mtx),
                'sig': dict(sig, clause='sum')}
    want = {}
    for t, r in on:
        x = min(int(math.floor(t - mn)), mx - mn - 1)
        y = min(max(int(math.floor(r / 5.0)), 0), 19)
        want[(y, x)] = want.get((y, x), 0) + 1
    for y, row in enumerate(mtx):
        for x, cnt in enumerate(row):
            if cnt != want.get((y, x), 0):
                return {'required': 'cell rh %d..%d, t %d..%d counts %d hours' % (
                    5 * y, 5 * y + 5, mn + x, mn + x + 1, want.get((y, x), 0)), 'observed': cnt,
                    'sig': dict(sig, clause='cell')}
    cells = _psy_faces(ch, inp)
    hv = list(ch.hour_values)
    mesh = ch.colored_mesh
    cols = list(mesh.colors)
    cr = ch.legend.color_range
    if sorted(cells) != sorted(want) or len(hv) != len(cells):
        return {'required': 'one face per non-empty cell', 'observed': '%d faces' % len(cells),
                'sig': dict(sig, clause='faces')}
    vs = mesh.vertices
    for (y, x), v, f, colr in zip(cells, hv, mesh.faces, cols):
        if v != want[(y, x)]:
            return {'required': 'face of cell %s shows %d hours' % ((y, x), want[(y, x)]), 'observed': v,
                    'sig': dict(sig, clause='face_value')}
        if colr != cr.color(v):
            return {'required': 'legend colour of %r' % v, 'observed': str(colr), 'sig': dict(sig, clause='colour')}
        # geometry of the face: temperature edges and the humidity curve of its lower-left / upper-right corner
        p1, p3 = vs[f[0]], vs[f[2]]
        x1 = inp['base'][0] + inp['xdim'] * x
        y1 = inp['base'][1] + (inp['ydim'] * humid_ratio_from_db_rh(mn + x, 5 * y, 101325) if y > 0 else 0)
        y3 = inp['base'][1] + inp['ydim'] * humid_ratio_from_db_rh(mn + x + 1, 5 * (y + 1), 101325)
        if abs(p1.x - x1) > 1e-9 or abs(p3.x - x1 - inp['xdim']) > 1e-9 or abs(p1.y - y1) > 1e-9 or \
                abs(p3.y - y3) > 1e-9:
            return {'required': 'face corners (%r, %r) (%r, %r)' % (x1, y1, x1 + inp['xdim'], y3),
                    'observed': '%s %s' % (p1, p3), 'sig': dict(sig, clause='geometry')}
    return None


def check_case(op, inp):
    if op == 'hp':
        return _check_hp(inp)
    if op == 'hist':
        return _check_hist(inp)
    if op == 'circ':
        return _check_circ(inp)
    if op == 'wrose':
        return _check_wrose(inp)
    if op == 'bars':
        return _check_bars(inp)
    if op == 'psych':
        return _check_psych(inp)
    raise ValueError('unknown op ' + op)


replay = check_case

WR_TINY_NEG = {'n': 8, 'speed': True, 'dirs': [-1e-20] + [10.0] * 23, 'spd': [1.0] * 24, 'days': 1}


def _oracle_cases(ctx):
    rng = ctx.rng
    big = ctx.searching or not ctx.quick
    for c in HP_CORPUS:
        yield 'hp', c
    yield 'hp', HP_SAMEDAY
    for _ in range(600 if big else 120):
        yield 'hp', _hp_case(rng)
    for _ in range(150 if big else 20):
        yield 'hp', _same_day_number_case(rng, rev=rng.random() < 0.8)
    yield 'hist', {'bins': [0, 1, 2, 3], 'vals': [0, 0, 0.9, 1, 1.5, 1.99, 2, 3]}
    for _ in range(4000 if big else 500):
        yield 'hist', _hist_case(rng)
    for _ in range(4000 if big else 500):
        yield 'circ', _circ_case(rng)
    yield 'wrose', WR_TINY_NEG
    for n in range(1, 37):
        yield 'wrose', _wr_case(rng, n)
    for _ in range(1000 if big else 100):
        yield 'wrose', _wr_case(rng)
    yield 'bars', {'daily': True, 'period': [1, 15, 0, 3, 10, 23, 1, False], 'units': ['C'], 'stack': False,
                   'datas': [[float(i) for i in range(55)]], 'ranges': {'C': [0.0, 60.0]}, 'xdim': 10,
                   'ydim': 40, 'base': [0, 0]}
    for _ in range(800 if big else 100):
        yield 'bars', _bars_case(rng, False)
    for _ in range(800 if big else 100):
        yield 'bars', _bars_case(rng, True)
    for _ in range(600 if big else 80):
        yield 'psych', _psy_case(rng)


def oracle(ctx):
    with contextlib.redirect_stdout(io.StringIO()):
        run_oracle_cases(ctx, _oracle_cases(ctx), check_case)
