"""C07 — Every serial form reads back to an object equal to the one written.

Model: lean/Ladybug/Model/Codec.lean (PyVal, jsonRT, record decoders) and Model/Serial/*.lean
(one codec per class); theorems: lean/Ladybug/Props/C07.lean; driver: drv_c07.
Tie: translator (Gen/DataTypeNames from ladybug/datatype/*.py) + correspondence: the model's
`enc (dec v)` against the real `X.from_dict(v).to_dict()` on real `to_dict` outputs (JSON round
tripped, key-shuffled, optional keys dropped, malformed), text forms and copies.
Oracle: the property statement on the real classes, for every serialisable class.
"""
import contextlib
import copy
import io
import json
import math
import os
import pickle
import shutil
import struct
import tempfile

from harness import core
from harness.core import run_oracle_cases

PROP = 'C07'
PROOF_MODULES = ['Ladybug.Props.C07']
GREP_MODULES = ['Ladybug.Model.Codec', 'Ladybug.Model.Serial.Basic', 'Ladybug.Model.Serial.Coll',
                'Ladybug.Model.Serial.Legend', 'Ladybug.Model.Serial.DesignDay', 'Ladybug.Model.Serial.Wea',
                'Ladybug.Model.Serial.Csv', 'Ladybug.Proofs.C07Basic', 'Ladybug.Proofs.C07Loc',
                'Ladybug.Proofs.C07Legend', 'Ladybug.Proofs.C07DesignDay', 'Ladybug.Proofs.C07Wea',
                'Ladybug.Proofs.C07Csv', 'Ladybug.Model.AP', 'Ladybug.Gen.ApTables',
                'Ladybug.Gen.DataTypeNames', 'Ladybug.Drv.C07',
                'Ladybug.DrvCore', 'Ladybug.Py', 'Ladybug.Model.Cal']
RULE = ('instances are described by plain-data specs (class + constructor arguments) drawn type-directed '
        'per class: leap years, 29 Feb, wrapping / overnight periods, sub-hourly steps, empty / string / '
        'non-string metadata, every standard data type + generic types with every optional field, all five '
        'collection classes and their immutable twins, colours, colour ranges, legend parameters (plain, '
        'categorized, 2D/3D), legends, design-day conditions, design days, DDY, Wea (annual / partial), '
        'EPW (asset files), psychrometric charts.  correspondence: model enc(dec v) vs real '
        'from_dict(v).to_dict() on real to_dict output, its key-shuffled / key-dropped / malformed variants; '
        'oracle: dict+JSON, to_dict fixed point, key order, duplicate/copy, text forms, CSV/JSON/PKL files. '
        'A case is non-trivial when the implementation returns a value; distinct = distinct (op, input).')
TRUSTED_BASE = [
    'translators tools/extract/datatype_names.py (class names of the standard data types), ap_tables.py and '
    'dt_tables.py (tables of the calendar / analysis-period models the codecs reuse)',
    'modelled, not verified: json.dumps/json.loads keep ints, strings, bools, None and finite floats '
    '(bit-exact; op json_float checks it for every generated float), turn tuples into lists and integer '
    'keys into their decimal text; CPython dict semantics; pickle/copy',
    'floats are opaque bit patterns in the model: float(int), round(lon/15) and the 2-stop re-mapping of '
    'ColorRange.domain are executed by the driver with IEEE arithmetic but nothing is proved about them (the '
    'ColorRange law carries the re-mapping\'s idempotence on 2-colour ranges as an explicit hypothesis)',
    'unit acceptance lists of the standard data types are not modelled (the harness sends acceptable units)',
    'the enc direction of the correspondence goes through dec: the model is asked for enc(dec(v)) on real '
    'to_dict outputs v',
    'character level of the text forms (str.split / join, %d printing, the replace chain of '
    'AnalysisPeriod.from_string) is executable in the model and tied by correspondence only: the theorems '
    'C07_AnalysisPeriod_string_partial and C07_HeaderCsv_partial are at token level (hypothesis SplitsBack)',
    'non-default Legend3DParameters / Legend2DParameters, the text of generated category names, legends with '
    'categorized parameters, continuous non-annual Wea objects (law proved for annual and discontinuous ones), '
    'EPW, PsychrometricChart and the CSV/PKL *file* forms are compared / oracle-checked only, not proved',
    'len(AnalysisPeriod) and its datetimes in the Wea codec come from the C04 model (Model/AP.lean)',
]
ASSUMPTIONS = ['object equality is the class\'s own __eq__ where defined; ColorRange, EPW and '
               'PsychrometricChart define none and are compared through their dictionaries']
LEVEL_TEXT = ('Machine-checked Lean 4 theorems (36) over a codec model of the serial forms: json.loads(json.dumps) '
              'modelled as jsonRT (tuples to lists, integer keys to text); the round-trip law '
              'dec(jsonRT(enc a)) = a is proved for every well-formed DateTime, Date, Time, AnalysisPeriod '
              '(incl. duplicate and token-level text), Location, Color, standard and generic DataType, Header, '
              'the five data-collection classes and immutable twins, ColorRange, LegendParameters, '
              'LegendParametersCategorized, Legend, the design-day conditions, DesignDay, DDY (list lift) and '
              'annual Wea; with the to_dict fixed point and, once for all record decoders, independence of key '
              'order and of unknown keys; the CSV header strings at token level under the stated guard.  '
              'Recorded findings have counterexample theorems (data-type naming, categorized default names, '
              'discontinuous Wea flag, CSV separators, generic-type text).  The model is compared with the real '
              'from_dict/to_dict and text functions on generated instances on every run; file forms, copies, '
              'EPW and psychrometric charts are checked by the oracle on the real code only.')
LEVEL_NOTE = ('Trusted: Lean kernel; axioms propext/Classical.choice/Quot.sound only; JSON library behaviour as '
              'modelled by jsonRT; floats opaque; the table extractors; correspondence on generated inputs only; '
              'character-level split/join behind the hypothesis SplitsBack.  EPW, PsychrometricChart, non-default '
              '3D/2D legend properties and the CSV/PKL file forms are oracle-only (sampled, not proved).')
TECHNIQUE = ('Lean 4 proof (codec combinators, simp over finite-map lookups, induction on lists) about a model '
             'tied to the code by differential correspondence and regenerated tables')


def extract(ctx):
    from tools.extract import datatype_names, ap_tables, dt_tables
    ctx.datatype_names = datatype_names.extract()
    ap_tables.extract()       # Model/AP.lean (len / datetimes of an analysis period, used by the Wea codec)
    dt_tables.extract()       # Model/Cal.lean


# ---------------------------------------------------------------------------------------------
# wire format of Python values (see lean/Ladybug/Drv/C07.lean)


def _fbits(x):
    return '%016x' % struct.unpack('<Q', struct.pack('<d', x))[0]


def _hx(s):
    return s.encode('utf-8').hex()


def wire(v):
    """Python value -> token string."""
    if v is None:
        return 'N'
    if v is True:
        return 'T'
    if v is False:
        return 'F'
    if isinstance(v, int):
        return 'i%d' % v
    if isinstance(v, float):
        return 'f' + _fbits(v)
    if isinstance(v, str):
        return 's' + _hx(v)
    if isinstance(v, list):
        return ' '.join(['L%d' % len(v)] + [wire(x) for x in v])
    if isinstance(v, tuple):
        return ' '.join(['U%d' % len(v)] + [wire(x) for x in v])
    if isinstance(v, dict):
        parts = ['D%d' % len(v)]
        for k, x in v.items():
            if isinstance(k, bool) or not isinstance(k, (str, int)):
                raise ValueError('unsupported key %r' % (k,))
            parts.append(('s' + _hx(k)) if isinstance(k, str) else 'i%d' % k)
            parts.append(wire(x))
        return ' '.join(parts)
    raise ValueError('unsupported value %r' % (v,))


def unwire(toks, i=0):
    """Token list -> (canonical value, next index).  Canonical: floats as ('f', bits), tuples as
    ('U', [...]) so that comparison is exact and type-aware; dict keys as ('s', k) / ('i', k)."""
    t = toks[i]
    c, rest = t[0], t[1:]
    if t == 'N':
        return None, i + 1
    if t == 'T':
        return True, i + 1
    if t == 'F':
        return False, i + 1
    if c == 'i':
        return int(rest), i + 1
    if c == 'f':
        return ('f', rest), i + 1
    if c == 's':
        return ('s', bytes.fromhex(rest).decode('utf-8')), i + 1
    if c in 'LU':
        n = int(rest)
        out = []
        i += 1
        for _ in range(n):
            v, i = unwire(toks, i)
            out.append(v)
        return (c, out), i
    if c == 'D':
        n = int(rest)
        out = {}
        i += 1
        for _ in range(n):
            k, i = unwire(toks, i)
            v, i = unwire(toks, i)
            out[k if not isinstance(k, int) else ('i', k)] = v
        return ('D', out), i
    raise ValueError('bad token ' + t)


def canon(v):
    """Python value -> the canonical form `unwire` produces (for comparison with model output)."""
    return unwire(wire(v).split(' '))[0]


def canon_line(line):
    if line.startswith('err'):
        return 'err:'                      # the model does not distinguish exception classes
    if not line.startswith('ok '):
        return line
    try:
        return 'ok ' + repr(unwire(line[3:].split(' '))[0])
    except Exception:
        return line


# ---------------------------------------------------------------------------------------------
# instance specs (plain data) and their builders


def _imp():
    import ladybug.dt as dt
    import ladybug.analysisperiod as ap
    import ladybug.location as loc
    import ladybug.header as hd
    import ladybug.datacollection as dc
    import ladybug.datacollectionimmutable as dci
    import ladybug.color as col
    import ladybug.legend as lg
    import ladybug.designday as dd
    import ladybug.ddy as ddy
    import ladybug.wea as wea
    import ladybug.epw as epw
    import ladybug.psychchart as pc
    import ladybug.datautil as du
    from ladybug.datatype.base import DataTypeBase, _DataTypeEnumeration
    from ladybug.datatype.generic import GenericType
    return locals()


_TYPES = None


def _types():
    global _TYPES
    if _TYPES is None:
        from ladybug.datatype.base import _DataTypeEnumeration
        _TYPES = dict(_DataTypeEnumeration(import_modules=True)._TYPES)
    return _TYPES


COLL_CLASSES = {
    'HourlyDiscontinuous': ('HourlyDiscontinuousCollection', 'HourlyDiscontinuousCollectionImmutable'),
    'HourlyContinuous': ('HourlyContinuousCollection', 'HourlyContinuousCollectionImmutable'),
    'Daily': ('DailyCollection', 'DailyCollectionImmutable'),
    'Monthly': ('MonthlyCollection', 'MonthlyCollectionImmutable'),
    'MonthlyPerHour': ('MonthlyPerHourCollection', 'MonthlyPerHourCollectionImmutable'),
}


def _num(x):
    """Specs travel through JSON (replay files): floats that are inf come as strings."""
    if isinstance(x, str):
        return float(x)
    return x


def build(spec):
    """Construct the real object described by `spec` (a JSON-able dict with key 'cls')."""
    L = _imp()
    c = spec['cls']
    a = spec.get('args')
    if c == 'DateTime':
        return L['dt'].DateTime(a[0], a[1], a[2], a[3], bool(a[4]))
    if c == 'Date':
        return L['dt'].Date(a[0], a[1], bool(a[2]))
    if c == 'Time':
        return L['dt'].Time(a[0], a[1])
    if c == 'AnalysisPeriod':
        return L['ap'].AnalysisPeriod(*a)
    if c == 'Location':
        return L['loc'].Location(*a)
    if c == 'DataType':
        if 'generic' in spec:
            g = list(spec['generic'])
            g[2], g[3] = _num(g[2]), _num(g[3])
            if g[5] is not None:
                g[5] = {(int(k) if spec.get('int_keys') else k): v for k, v in g[5]}
            return L['GenericType'](*g)
        return _types()[spec['type']](spec.get('name'))
    if c == 'Header':
        md = spec.get('meta')
        return L['hd'].Header(build(spec['dt']), spec['unit'], build(spec['ap']),
                              None if md is None else dict(md))
    if c == 'Collection':
        names = COLL_CLASSES[spec['kind']]
        mod = L['dci'] if spec.get('immutable') else L['dc']
        klass = getattr(mod, names[1 if spec.get('immutable') else 0])
        h = build(spec['header'])
        if spec['kind'] == 'HourlyContinuous':
            obj = klass(h, list(spec['values']))
        else:
            if spec['kind'] == 'HourlyDiscontinuous':
                dts = [L['dt'].DateTime(*d[:4], leap_year=bool(d[4])) for d in spec['datetimes']]
            elif spec['kind'] == 'MonthlyPerHour':
                dts = [tuple(d) for d in spec['datetimes']]
            else:
                dts = list(spec['datetimes'])
            obj = klass(h, list(spec['values']), dts)
            obj._validated_a_period = bool(spec.get('validated', False))
        return obj
    if c == 'Color':
        return L['col'].Color(*a)
    if c == 'ColorRange':
        cols = None if spec['colors'] is None else [L['col'].Color(*x) for x in spec['colors']]
        return L['col'].ColorRange(cols, spec['domain'], spec['continuous'])
    if c == 'Legend3DParameters':
        from ladybug_geometry.geometry3d.pointvector import Point3D, Vector3D
        from ladybug_geometry.geometry3d.plane import Plane
        bp = None if spec.get('origin') is None else Plane(Vector3D(0, 0, 1), Point3D(*spec['origin']))
        return L['lg'].Legend3DParameters(bp, spec.get('sh'), spec.get('sw'), spec.get('th'))
    if c == 'Legend2DParameters':
        return L['lg'].Legend2DParameters(*a)
    if c == 'LegendParameters':
        cols = None if spec.get('colors') is None else [L['col'].Color(*x) for x in spec['colors']]
        lp = L['lg'].LegendParameters(spec.get('min'), spec.get('max'), spec.get('segment_count'),
                                      cols, spec.get('title'))
        for k in ('continuous_legend', 'decimal_count', 'include_larger_smaller', 'vertical', 'font'):
            if k in spec:
                setattr(lp, k, spec[k])
        if spec.get('ordinal') is not None:
            lp.ordinal_dictionary = {int(k): v for k, v in spec['ordinal']}
        if spec.get('user_data') is not None:
            lp.user_data = dict(spec['user_data'])
        if spec.get('p3d') is not None:
            lp.properties_3d = build(spec['p3d'])
        if spec.get('p2d') is not None:
            lp.properties_2d = build(spec['p2d'])
        return lp
    if c == 'LegendParametersCategorized':
        cols = [L['col'].Color(*x) for x in spec['colors']]
        lp = L['lg'].LegendParametersCategorized(spec['domain'], cols, spec.get('names'), spec.get('title'))
        for k in ('continuous_colors', 'continuous_legend', 'decimal_count', 'include_larger_smaller',
                  'vertical', 'font'):
            if k in spec:
                setattr(lp, k, spec[k])
        return lp
    if c == 'Legend':
        lp = None if spec.get('lp') is None else build(spec['lp'])
        return L['lg'].Legend(list(spec['values']), lp)
    if c == 'DryBulbCondition':
        return L['dd'].DryBulbCondition(*a)
    if c == 'HumidityCondition':
        return L['dd'].HumidityCondition(*a)
    if c == 'WindCondition':
        return L['dd'].WindCondition(*a)
    if c == 'SkyCondition':
        date = L['dt'].Date(*spec['date'])
        k = spec['kind']
        if k == 'ASHRAEClearSky':
            return L['dd'].ASHRAEClearSky(date, *a)
        if k == 'ASHRAETau':
            return L['dd'].ASHRAETau(date, *a)
        return L['dd']._SkyCondition(date, *a)
    if c == 'DesignDay':
        return L['dd'].DesignDay(spec['name'], spec['day_type'], build(spec['location']),
                                 build(spec['db']), build(spec['hum']), build(spec['wind']),
                                 build(spec['sky']))
    if c == 'DDY':
        return L['ddy'].DDY(build(spec['location']), [build(d) for d in spec['days']])
    if c == 'Wea':
        loc = build(spec['location'])
        if spec.get('annual', True):
            n = (8784 if spec.get('leap') else 8760) * spec.get('timestep', 1)
            dn = [float((i * 7) % 900) for i in range(n)]
            dh = [float((i * 3) % 300) for i in range(n)]
            return L['wea'].Wea.from_annual_values(loc, dn, dh, spec.get('timestep', 1),
                                                   bool(spec.get('leap')))
        ts = spec['ap']['args'][6]
        w = L['wea'].Wea.from_annual_values(loc, [float(i % 800) for i in range(8760 * ts)],
                                            [float(i % 200) for i in range(8760 * ts)], ts)
        return w.filter_by_analysis_period(build(spec['ap']))
    if c == 'EPW':
        return L['epw'].EPW(os.path.join(core.REPO, 'tests', 'assets', 'epw', spec['file']))
    if c == 'PsychrometricChart':
        from ladybug_geometry.geometry2d.pointvector import Point2D
        lp = None if spec.get('lp') is None else build(spec['lp'])
        t = build(spec['temperature']) if isinstance(spec['temperature'], dict) else spec['temperature']
        rh = build(spec['rh']) if isinstance(spec['rh'], dict) else spec['rh']
        return L['pc'].PsychrometricChart(t, rh, spec.get('pressure', 101325), lp,
                                          Point2D(*spec.get('base', (0, 0))), spec.get('x_dim', 1),
                                          spec.get('y_dim', 1500), spec.get('tmin', -20),
                                          spec.get('tmax', 50), spec.get('hrmax', 0.03),
                                          spec.get('use_ip', False))
    raise ValueError('unknown spec class %r' % (c,))


def reader_class(spec, obj):
    """The class whose from_dict reads the dictionary of `obj` back."""
    L = _imp()
    c = spec['cls']
    if c == 'DataType':
        return L['DataTypeBase']
    if c == 'SkyCondition':
        return L['dd']._SkyCondition
    return type(obj)


NO_EQ = ('ColorRange', 'EPW', 'PsychrometricChart')


def jdump(d):
    return json.dumps(d, sort_keys=True)


def same(spec, a, b):
    """Equality of two objects as the property means it."""
    if type(a) is not type(b):
        return False
    if spec['cls'] in NO_EQ:     # compared through their dictionaries, as Python values (0 == 0.0)
        return json.loads(json.dumps(a.to_dict())) == json.loads(json.dumps(b.to_dict()))
    if spec['cls'] == 'Legend3DParameters' or spec['cls'] == 'Legend2DParameters':
        return a == b and jdump(a.to_dict()) == jdump(b.to_dict())
    return a == b and not (a != b)


def deep_shuffle(v, rng):
    if isinstance(v, dict):
        ks = list(v.keys())
        rng.shuffle(ks)
        return {k: deep_shuffle(v[k], rng) for k in ks}
    if isinstance(v, list):
        return [deep_shuffle(x, rng) for x in v]
    return v


# ---------------------------------------------------------------------------------------------
# property oracle


def _dt_facts(dt):
    """Facts about a data type spec that characterise the known data-type defects."""
    if 'generic' in dt:
        return {'dt': 'generic', 'dt_int_keys': bool(dt.get('int_keys') and dt['generic'][5])}
    name = dt.get('name')
    if name is None:
        kind = 'default'
    elif name.title().replace(' ', '') == dt['type']:
        kind = 'titles_to_class'
    else:
        kind = 'custom'
    return {'dt': 'standard', 'dt_name': kind}


DICT_OPS = ('dict_json', 'unknown_key', 'json_file', 'pkl')


def root_of(op, inp):
    """Which known limitation domain (known_findings.d/C07.json) the case lies in: 'none', the
    name of exactly one domain, or 'multiple:...' (never generated: a failure there could not be
    attributed).  Computed from the input alone."""
    spec = inp['spec']
    c = spec['cls']
    devs = set()
    dt = spec if c == 'DataType' else spec.get('dt') if c == 'Header' else \
        spec['header']['dt'] if c == 'Collection' else None
    textual = op in ('text', 'csv')
    if dt is not None:
        f = _dt_facts(dt)
        if f['dt'] == 'generic':
            if textual:
                devs.add('generic_text')
            if f['dt_int_keys'] and c == 'DataType' and op in DICT_OPS + ('text',):
                devs.add('generic_int_keys')
        else:
            if f['dt_name'] == 'titles_to_class' and (op in DICT_OPS or textual):
                devs.add('name_titles_to_class')
            if f['dt_name'] == 'custom' and textual:
                devs.add('custom_name_text')
    lpc = spec if c == 'LegendParametersCategorized' else \
        spec.get('lp') if c == 'Legend' and (spec.get('lp') or {}).get('cls') == 'LegendParametersCategorized' else None
    if lpc is not None and not lpc.get('names') and op in DICT_OPS:
        devs.add('lpc_default_names')
    if c == 'Wea' and not spec.get('annual', True) and op in DICT_OPS and \
            (spec['ap']['args'][2], spec['ap']['args'][5]) != (0, 23):
        devs.add('wea_discontinuous')
    if textual and c in ('Header', 'Collection'):
        mk = _meta_kind((spec if c == 'Header' else spec['header']).get('meta'))
        if mk == 'nonstring':
            devs.add('csv_meta_nonstring')
        if mk == 'separator':
            devs.add('csv_meta_separator')
    if op == 'csv' and spec['kind'] != 'HourlyContinuous' and not spec.get('validated'):
        devs.add('csv_unvalidated')
    for m in inp.get('more', []):
        r = root_of(op, {'spec': m})
        if r != 'none':
            devs.add(r)
    if not devs:
        return 'none'
    if len(devs) == 1:
        return sorted(devs)[0]
    return 'multiple:' + '+'.join(sorted(devs))


def _sig(spec, form, **kw):
    s = {'cls': spec['cls'], 'form': form}
    if spec['cls'] == 'Collection':
        s['kind'] = spec['kind']
        s.update(_dt_facts(spec['header']['dt']))
    if spec['cls'] == 'Header':
        s.update(_dt_facts(spec['dt']))
    if spec['cls'] == 'DataType':
        s.update(_dt_facts(spec))
    s.update(kw)
    return s


def _describe(x):
    try:
        return jdump(x.to_dict())[:400]
    except Exception:
        return repr(x)[:400]


UNCONSTRUCTIBLE = []


def check_case(op, inp):
    """op = serial form; inp = {'spec': ..., 'seed': int}."""
    import random
    spec = inp['spec']
    rng = random.Random(inp.get('seed', 0))
    try:
        x = build(spec)
    except Exception:
        UNCONSTRUCTIBLE.append(spec['cls'])     # the spec describes no instance: nothing to check
        return None
    rc = reader_class(spec, x) if op not in ('json_float',) else None

    def fail(form, required, observed, **kw):
        return {'required': required, 'observed': observed,
                'sig': _sig(spec, form, root=root_of(op, inp), **kw)}

    def attempt(form, f, **kw):
        try:
            back = f()
        except Exception as e:
            return fail(form, _describe(x), 'raises %s: %s' % (type(e).__name__, str(e)[:200]),
                        outcome='raises', **kw)
        if not same(spec, x, back):
            return fail(form, _describe(x), _describe(back), outcome='unequal', **kw)
        return None

    if op == 'dict_json':
        d = x.to_dict()
        js = json.dumps(d)
        r = attempt('dict_json', lambda: rc.from_dict(json.loads(js)))
        if r:
            return r
        back = rc.from_dict(json.loads(js))
        # "the same dictionary": Python equality of the two dictionaries (12 == 12.0)
        if json.loads(json.dumps(back.to_dict())) != json.loads(js):
            return fail('fixed_point', jdump(json.loads(js))[:400], jdump(back.to_dict())[:400])
        # the plain dictionary (no JSON) must read back too
        r = attempt('dict_plain', lambda: rc.from_dict(copy.deepcopy(x.to_dict())))
        if r:
            return r
        # key order
        sh = deep_shuffle(json.loads(js), rng)
        return attempt('key_order', lambda: rc.from_dict(sh))
    if op == 'unknown_key':
        d = json.loads(json.dumps(x.to_dict()))
        d['zz_unknown_key'] = {'a': [1, 2]}
        return attempt('unknown_key', lambda: rc.from_dict(d))
    if op == 'duplicate':
        r = attempt('duplicate', lambda: x.duplicate())
        if r:
            return r
        if hasattr(type(x), '__copy__'):
            return attempt('copy', lambda: copy.copy(x))
        return None
    if op == 'pickle':
        return attempt('pickle', lambda: pickle.loads(pickle.dumps(x)))
    if op == 'text':
        L = _imp()
        c = spec['cls']
        if c == 'AnalysisPeriod':
            return attempt('text', lambda: type(x).from_string(str(x)))
        if c == 'DataType':
            return attempt('text', lambda: L['DataTypeBase'].from_string(x.to_string()))
        if c == 'Location':
            # to_idf prints str(float): all five IDF fields must survive
            def rd():
                y = type(x).from_idf(x.to_idf())
                # state / country / station / source are not part of the IDF form
                return type(x)(y.city, x.state, x.country, y.latitude, y.longitude, y.time_zone,
                               y.elevation, x.station_id, x.source)
            return attempt('text', rd)
        if c == 'Color':
            def rd():
                y = type(x).from_hex(x.to_hex())
                return type(x)(y.r, y.g, y.b, x.a)
            return attempt('text', rd)
        if c == 'Header':
            def rd():
                return type(x).from_csv_strings(x.to_csv_strings(bool(inp.get('per_row'))),
                                                x.analysis_period)
            return attempt('text', rd, meta=_meta_kind(spec.get('meta')))
        raise ValueError('no text form for ' + c)
    if op in ('csv', 'json_file', 'pkl'):
        L = _imp()
        du = L['du']
        tmp = tempfile.mkdtemp(prefix='c07_')
        try:
            xs = [x] + [build(s) for s in inp.get('more', [])]
            kind = {'csv': 'csv', 'json_file': 'json', 'pkl': 'pkl'}[op]
            extra = {}
            if op == 'csv':
                extra = {'meta': _meta_kind(spec['header'].get('meta')),
                         'validated': bool(spec.get('validated', spec['kind'] == 'HourlyContinuous')),
                         'leap': bool(spec['header']['ap']['args'][7])}
            try:
                path = getattr(du, 'collections_to_' + kind)(xs, tmp, 'data')
                back = getattr(du, 'collections_from_' + kind)(path)
            except Exception as e:
                return fail(op, _describe(x), 'raises %s: %s' % (type(e).__name__, str(e)[:200]),
                            outcome='raises', **extra)
            if len(back) != len(xs):
                return fail(op, len(xs), len(back), outcome='count', **extra)
            for a, b in zip(xs, back):
                # file readers build mutable collections: compare with the mutable form
                a2 = a.to_mutable() if not a.is_mutable else a
                if not (type(a2) is type(b) and a2 == b):
                    what = 'unequal'
                    if a2.header != b.header:
                        what = 'header'
                    elif a2.datetimes != b.datetimes:
                        what = 'datetimes'
                    elif a2.values != b.values:
                        what = 'values'
                    elif a2.validated_a_period != b.validated_a_period:
                        what = 'validated'
                    return fail(op, _describe(a2), _describe(b), outcome=what, **extra)
            return None
        finally:
            shutil.rmtree(tmp, ignore_errors=True)
    raise ValueError('unknown op ' + op)


def _meta_kind(md):
    if not md:
        return 'empty'
    for k, v in (md.items() if isinstance(md, dict) else md):
        if not isinstance(v, str) or not isinstance(k, str):
            return 'nonstring'
        if any(s in v or s in k for s in (',', ' | ', ': ', '\n')):
            return 'separator'
    return 'strings'


replay = check_case


# ---------------------------------------------------------------------------------------------
# generators (plain data only; objects are built inside build())

MONTH_DAYS = (31, 28, 31, 30, 31, 30, 31, 31, 30, 31, 30, 31)
TIMESTEPS = (1, 2, 3, 4, 5, 6, 10, 12, 15, 20, 30, 60)


def _mdays(m, leap):
    return 29 if (m == 2 and leap) else MONTH_DAYS[m - 1]


def gen_float(rng):
    r = rng.random()
    if r < 0.15:
        return float(rng.randrange(-50, 50))
    if r < 0.25:
        return rng.choice([0.1, 0.2, 0.3, 1e-9, 1e22, 123456789.123456789, 1 / 3.0, -2.5, 5e-324, 1.7976931348623157e308])
    return rng.uniform(-1000, 1000)


def gen_dt(rng, leap=None):
    leap = (rng.random() < 0.5) if leap is None else leap
    if leap and rng.random() < 0.2:
        return [2, 29, rng.randrange(24), rng.choice([0, 30, 59, rng.randrange(60)]), True]
    m = rng.choice([1, 2, 3, 12, rng.randrange(1, 13)])
    d = rng.choice([1, _mdays(m, leap), rng.randrange(1, _mdays(m, leap) + 1)])
    return [m, d, rng.choice([0, 23, rng.randrange(24)]), rng.choice([0, 59, rng.randrange(60)]), leap]


def gen_ap(rng, leap=None, full_days=False, timestep=None):
    leap = (rng.random() < 0.5) if leap is None else leap
    sm = rng.choice([1, 2, 12, rng.randrange(1, 13)])
    em = rng.choice([1, 2, 12, rng.randrange(1, 13)])
    sd = rng.choice([1, _mdays(sm, leap), rng.randrange(1, _mdays(sm, leap) + 1)])
    ed = rng.choice([1, _mdays(em, leap), rng.randrange(1, _mdays(em, leap) + 1)])
    if full_days:
        sh, eh = 0, 23
    else:
        sh = rng.choice([0, 0, 23, rng.randrange(24)])
        eh = rng.choice([23, 23, 0, rng.randrange(24)])
    ts = timestep or rng.choice(TIMESTEPS)
    return {'cls': 'AnalysisPeriod', 'args': [sm, sd, sh, em, ed, eh, ts, leap]}


def gen_str(rng, allow_empty=False):
    pool = ['x', 'Zone 1', 'Tehran', 'a b c', u'Köln', 'PHL', 'TMY3', 'src', '726980', '-', '0']
    if allow_empty:
        pool = pool + ['']
    return rng.choice(pool)


def gen_location(rng):
    r = rng.random()
    if r < 0.1:
        return {'cls': 'Location', 'args': [None, None, None, 0, 0, None, 0, None, None]}
    lat = rng.choice([0, 0.0, 90.0, -90.0, rng.uniform(-90, 90), float(rng.randrange(-90, 91)), rng.randrange(-90, 91)])
    lon = rng.choice([0, 180.0, -180.0, 7.5, -7.5, 22.5, rng.uniform(-180, 180), rng.randrange(-180, 181)])
    tz = rng.choice([None, None, 0, 3.5, -12, 14, 5.75, float(rng.randrange(-12, 15))])
    elev = rng.choice([0, 0.0, -5.5, 54, gen_float(rng)])
    return {'cls': 'Location', 'args': [
        rng.choice([None, '', gen_str(rng)]), rng.choice([None, gen_str(rng)]),
        rng.choice([None, gen_str(rng)]), lat, lon, tz, elev,
        rng.choice([None, '', '726980', 12345]), rng.choice([None, 'TMY3', gen_str(rng)])]}


def gen_datatype(rng, generic=None):
    generic = (rng.random() < 0.35) if generic is None else generic
    if generic:
        name = rng.choice(['Foo', 'My Type', 'thermal thing', 'Temperature', 'x'])
        unit = rng.choice(['bar', 'C', 'widgets/h', '%'])
        mn = rng.choice([float('-inf'), 0, -1.5, 0.0])
        mx = rng.choice([float('inf'), 100, 1.5])
        abbr = rng.choice([None, '', 'F', name])
        ud = rng.choice([None, None, [['-1', 'Cold'], ['0', 'Neutral'], ['1', 'Hot']], [['0', 'False'], ['1', 'True']]])
        pit = rng.random() < 0.6
        cum = (not pit) and rng.random() < 0.5
        int_keys = ud is not None and rng.random() < 0.7
        return {'cls': 'DataType', 'generic': [name, unit, mn if mn != float('-inf') else '-inf',
                                                mx if mx != float('inf') else 'inf', abbr, ud, pit, cum],
                'int_keys': int_keys}
    names = sorted(_types().keys())
    t = rng.choice(names)
    r = rng.random()
    name = None
    if r < 0.25:
        name = rng.choice(['my custom name', 'Zone Air Temperature', 'x', 'thing 2'])
    elif r < 0.3:
        name = _default_name(t)                 # explicit name equal to the default one
    elif r < 0.33:
        name = _default_name(t).lower()
    return {'cls': 'DataType', 'type': t, 'name': name}


def _default_name(cls):
    import re
    return re.sub(r"(?<=\w)([A-Z])", r" \1", cls)


def _units_of(dtspec):
    if 'generic' in dtspec:
        return [dtspec['generic'][1]]
    return list(_types()[dtspec['type']]._units)


def gen_meta(rng, kind=None):
    kind = kind or rng.choice(['none', 'empty', 'strings', 'strings', 'nonstring', 'separator'])
    if kind == 'none':
        return None
    if kind == 'empty':
        return {}
    if kind == 'strings':
        return dict(rng.sample([('source', 'TMY3'), ('city', 'Boston'), ('Zone', 'LIVING ROOM'),
                                ('type', 'Zone Air Temperature'), ('System', 'VAV_1')], rng.randrange(1, 4)))
    if kind == 'nonstring':
        return dict(rng.sample([('n', 1), ('f', 2.5), ('flag', True), ('none', None), ('lst', [1, 2]),
                                ('city', 'x')], rng.randrange(1, 4)))
    return dict(rng.sample([('a', 'x, y'), ('b', 'p | q'), ('c', 'k: v'), ('d: e', 'z')], rng.randrange(1, 3)))


def gen_ap_cheap(rng, leap=None):
    """Analysis periods whose `len()` is cheap: Header.to_dict evaluates `if self.analysis_period`, i.e.
    `AnalysisPeriod.__len__`, which enumerates every time step unless the hours are 0..23."""
    a = gen_ap(rng, leap)
    if rng.random() < 0.6:
        a['args'][2], a['args'][5] = 0, 23
    else:
        from datetime import date, timedelta
        g = a['args']
        y = 2016 if g[7] else 2017
        e = date(y, g[0], g[1]) + timedelta(days=rng.choice([0, 1, 3, 9]))
        if e.year != y:
            e = date(y, 1, e.day)
        g[3], g[4] = e.month, e.day
        g[6] = rng.choice([1, 1, 2, 4])
    return a


def gen_header(rng, ap=None, meta_kind=None, generic=None):
    dt = gen_datatype(rng, generic)
    return {'cls': 'Header', 'dt': dt, 'unit': rng.choice(_units_of(dt)),
            'ap': ap or gen_ap_cheap(rng), 'meta': gen_meta(rng, meta_kind)}


def _ap_len_full_days(a):
    from datetime import date
    sm, sd, _, em, ed, _, ts, leap = a
    y = 2016 if leap else 2017
    s = (date(y, sm, sd) - date(y, 1, 1)).days
    e = (date(y, em, ed) - date(y, 1, 1)).days
    n = 366 if leap else 365
    days = e - s + 1 if e >= s else (n - s) + e + 1
    return days * 24 * ts


def gen_values(rng, n):
    style = rng.random()
    if style < 0.3:
        return [float(i) for i in range(n)]
    if style < 0.5:
        return [rng.randrange(-5, 50) for _ in range(n)]           # ints
    return [gen_float(rng) for _ in range(n)]


def gen_collection(rng, kind=None, immutable=None, meta_kind=None, generic=None, small=True):
    kind = kind or rng.choice(sorted(COLL_CLASSES))
    immutable = (rng.random() < 0.35) if immutable is None else immutable
    leap = rng.random() < 0.5
    if kind == 'HourlyContinuous':
        # short periods keep the value lists small
        ts = rng.choice([1, 1, 2, 4, 60]) if small else rng.choice(TIMESTEPS)
        sm = rng.choice([1, 2, 12, rng.randrange(1, 13)])
        sd = rng.choice([1, _mdays(sm, leap), rng.randrange(1, _mdays(sm, leap) + 1)])
        # end = start + 0..2 days, possibly wrapping the year
        from datetime import date, timedelta
        y = 2016 if leap else 2017
        e = date(y, sm, sd) + timedelta(days=rng.choice([0, 1, 2]))
        if e.year != y:
            e = date(y, 1, e.day)
        a = [sm, sd, 0, e.month, e.day, 23, ts, leap]
        if rng.random() < 0.08:
            a = [1, 1, 0, 12, 31, 23, 1, leap]
        ap = {'cls': 'AnalysisPeriod', 'args': a}
        h = gen_header(rng, ap, meta_kind, generic)
        return {'cls': 'Collection', 'kind': kind, 'immutable': immutable, 'header': h,
                'values': gen_values(rng, _ap_len_full_days(a))}
    ap = gen_ap_cheap(rng, leap)
    h = gen_header(rng, ap, meta_kind, generic)
    n = rng.choice([1, 2, 3, 5, 12])
    if kind == 'HourlyDiscontinuous':
        seen, dts = set(), []
        while len(dts) < n:
            d = gen_dt(rng, leap)
            if tuple(d) not in seen:
                seen.add(tuple(d))
                dts.append(d)
        dts.sort()
    elif kind == 'Daily':
        days = 366 if leap else 365
        dts = sorted(rng.sample(sorted(set([1, 59, 60, 61, days] + [rng.randrange(1, days + 1) for _ in range(12)])), min(n, 5)))
    elif kind == 'Monthly':
        dts = sorted(rng.sample(range(1, 13), n))
    else:
        pool = [(m, hh, mi) for m in (1, 2, 6, 12) for hh in (0, 7, 23) for mi in (0, 30)]
        dts = [list(t) for t in sorted(rng.sample(pool, n))]
    return {'cls': 'Collection', 'kind': kind, 'immutable': immutable, 'header': h,
            'values': gen_values(rng, len(dts)), 'datetimes': dts,
            'validated': rng.random() < 0.5}


def gen_color(rng):
    return [rng.choice([0, 255, rng.randrange(256)]) for _ in range(4)]


def gen_colorrange(rng):
    n = rng.choice([2, 2, 3, 5, 10])
    cols = None if rng.random() < 0.3 else [gen_color(rng) for _ in range(n)]
    ncol = 10 if cols is None else n
    cont = rng.random() < 0.6
    r = rng.random()
    if r < 0.2 and (cont or ncol > 2):
        dom = None
    elif r < 0.7 or ncol < 3:
        a, b = sorted([gen_float(rng) for _ in range(2)])
        dom = [a, b] if ncol >= 3 or cont else [a]
        if a == b and len(dom) == 2:
            dom = [a, a + 1]
    else:
        k = rng.randrange(1, ncol) if not cont else rng.randrange(3, ncol + 1) if ncol >= 3 else 2
        dom = sorted(rng.uniform(-100, 100) for _ in range(k))
    return {'cls': 'ColorRange', 'colors': cols, 'domain': dom, 'continuous': cont}


def gen_legendpar(rng, rich=True):
    s = {'cls': 'LegendParameters'}
    if rng.random() < 0.6:
        a, b = sorted([rng.choice([0, -3, 3.5, gen_float(rng)]) for _ in range(2)])
        if rng.random() < 0.8:
            s['min'] = a
        if rng.random() < 0.8:
            s['max'] = b
    if rng.random() < 0.5:
        s['segment_count'] = rng.choice([1, 2, 7, 11])
    if rng.random() < 0.4:
        s['colors'] = [gen_color(rng) for _ in range(rng.choice([2, 3, 6]))]
    if rng.random() < 0.5:
        s['title'] = rng.choice(['', 'C', 'Temperature (C)'])
    if rich:
        if rng.random() < 0.4:
            s['continuous_legend'] = rng.random() < 0.5
        if rng.random() < 0.4:
            s['decimal_count'] = rng.choice([0, 1, 2, 4])
        if rng.random() < 0.4:
            s['include_larger_smaller'] = rng.random() < 0.5
        if rng.random() < 0.4:
            s['vertical'] = rng.random() < 0.5
        if rng.random() < 0.3:
            s['font'] = rng.choice(['Arial', 'Courier'])
        if rng.random() < 0.3:
            s['ordinal'] = rng.choice([[['-1', 'Cold'], ['0', 'Neutral'], ['1', 'Hot']], [['0', 'no'], ['1', 'yes']]])
        if rng.random() < 0.3:
            s['user_data'] = {'k': 'v', 'n': 1}
        if rng.random() < 0.35:
            s['p3d'] = {'cls': 'Legend3DParameters',
                        'origin': rng.choice([None, [1.0, 2.0, 0.0], [0, 0, 0]]),
                        'sh': rng.choice([None, 0.5, 2]), 'sw': rng.choice([None, 0.25]),
                        'th': rng.choice([None, 0.3])}
        if rng.random() < 0.35:
            s['p2d'] = {'cls': 'Legend2DParameters',
                        'args': [rng.choice([None, '20px', '5%']), rng.choice([None, '10px']),
                                 rng.choice([None, '5%', '36px']), rng.choice([None, '2%']),
                                 rng.choice([None, '1.5%', '12px'])]}
    return s


def gen_legendpar_cat(rng):
    k = rng.choice([1, 2, 3])
    dom = sorted(rng.choice([0, 100, 2000, gen_float(rng)]) for _ in range(k))
    s = {'cls': 'LegendParametersCategorized', 'domain': dom,
         'colors': [gen_color(rng) for _ in range(k + 1)]}
    if rng.random() < 0.5:
        s['names'] = ['cat %d' % i for i in range(k + 1)]
    if rng.random() < 0.5:
        s['title'] = 'T'
    if rng.random() < 0.4:
        s['continuous_colors'] = rng.random() < 0.5
    if rng.random() < 0.4:
        s['vertical'] = rng.random() < 0.5
    return s


def gen_legend(rng):
    vals = [gen_float(rng) for _ in range(rng.choice([1, 2, 5]))]
    if rng.random() < 0.2:
        vals = [vals[0]] * len(vals)
    r = rng.random()
    lp = None if r < 0.2 else gen_legendpar_cat(rng) if r < 0.4 else gen_legendpar(rng)
    if lp is not None and lp['cls'] == 'LegendParameters':
        if rng.random() < 0.5:
            lp.pop('min', None)
        if 'min' not in lp and 'max' in lp:
            lp['max'] = max(vals) + 1          # the legend takes min from the values: keep min <= max
        if 'max' not in lp and 'min' in lp:
            lp['min'] = min(vals) - 1
    return {'cls': 'Legend', 'values': vals, 'lp': lp}


def gen_designday_parts(rng):
    leap = rng.random() < 0.3
    m = rng.randrange(1, 13)
    date = [m, rng.randrange(1, _mdays(m, leap) + 1), leap]
    db = {'cls': 'DryBulbCondition', 'args': rng.choice([
        [gen_float(rng), abs(gen_float(rng))], [35, 10, 'DefaultMultipliers', ''],
        [30.5, 8.5, 'MultiplierSchedule', 'Sched 1']])}
    hum = {'cls': 'HumidityCondition', 'args': rng.choice([
        ['Wetbulb', 20.5], ['Dewpoint', 15, 101325, True, False], ['HumidityRatio', 0.01, 95000.0, False, True],
        ['Enthalpy', 60000.0, 101325, False, False, 'Hum Sched', ''], ['Wetbulb', 21, 101325, False, False, '', 'WB Range']])}
    wind = {'cls': 'WindCondition', 'args': rng.choice([[gen_float(rng) % 30], [3.5, 270], [0, 0], [2, 360.0]])}
    k = rng.choice(['ASHRAEClearSky', 'ASHRAETau', 'SkyCondition'])
    if k == 'ASHRAEClearSky':
        sky = {'cls': 'SkyCondition', 'kind': k, 'date': date, 'args': rng.choice([[], [0.5], [1.2, True], [0, False]])}
    elif k == 'ASHRAETau':
        sky = {'cls': 'SkyCondition', 'kind': k, 'date': date,
               'args': rng.choice([[0.4, 2.1], [0.556, 1.779, True], [0.3, 2.5, False, True]])}
    else:
        sky = {'cls': 'SkyCondition', 'kind': k, 'date': date,
               'args': rng.choice([[], [True], [False, 'Beam Sched', 'Diff Sched']])}
    return db, hum, wind, sky


def gen_designday(rng, loc=None):
    db, hum, wind, sky = gen_designday_parts(rng)
    return {'cls': 'DesignDay', 'name': rng.choice(['Test Day', 'Boston Ann Clg .4% Condns DB=>MWB', 7]),
            'day_type': rng.choice(['SummerDesignDay', 'WinterDesignDay']),
            'location': loc or gen_location(rng), 'db': db, 'hum': hum, 'wind': wind, 'sky': sky}


def gen_psych(rng):
    if rng.random() < 0.5:
        return {'cls': 'PsychrometricChart', 'temperature': rng.choice([20, 25.5, 0]), 'rh': rng.choice([50, 30.5]),
                'lp': None if rng.random() < 0.5 else gen_legendpar(rng, rich=False)}
    ap = {'cls': 'AnalysisPeriod', 'args': [6, 1, 0, 6, 1, 23, 1, False]}
    from_t = {'cls': 'Collection', 'kind': 'HourlyContinuous', 'immutable': False,
              'header': {'cls': 'Header', 'dt': {'cls': 'DataType', 'type': 'Temperature', 'name': None},
                         'unit': 'C', 'ap': ap, 'meta': None},
              'values': [10 + rng.uniform(0, 20) for _ in range(24)]}
    from_rh = {'cls': 'Collection', 'kind': 'HourlyContinuous', 'immutable': False,
               'header': {'cls': 'Header', 'dt': {'cls': 'DataType', 'type': 'RelativeHumidity', 'name': None},
                          'unit': '%', 'ap': ap, 'meta': None},
               'values': [20 + rng.uniform(0, 60) for _ in range(24)]}
    return {'cls': 'PsychrometricChart', 'temperature': from_t, 'rh': from_rh,
            'pressure': rng.choice([101325, 95000.5]), 'x_dim': rng.choice([1, 2.5]),
            'base': rng.choice([(0, 0), (10.5, -3)]), 'tmin': rng.choice([-20, -5]),
            'tmax': rng.choice([50, 45]), 'lp': None if rng.random() < 0.5 else gen_legendpar(rng, rich=False)}


# fixed corpus: the instances behind every recorded finding / repaired defect, always evaluated
def _hdr(dt=None, ap=None, meta=None, unit='C'):
    return {'cls': 'Header', 'dt': dt or {'cls': 'DataType', 'type': 'Temperature', 'name': None},
            'unit': unit, 'ap': ap or {'cls': 'AnalysisPeriod', 'args': [1, 1, 0, 12, 31, 23, 1, False]},
            'meta': meta}


_LEAP_AP = {'cls': 'AnalysisPeriod', 'args': [2, 28, 0, 3, 1, 23, 1, True]}
_GEN_DT = {'cls': 'DataType', 'generic': ['Foo', 'bar', '-inf', 'inf', None, None, True, False], 'int_keys': False}
_GEN_DT_DESCR = {'cls': 'DataType', 'generic': ['Foo', 'bar', 0, 10, 'F', [['-1', 'Cold'], ['0', 'Neutral'], ['1', 'Hot']], False, True],
                 'int_keys': True}
_LOC = {'cls': 'Location', 'args': ['Boston', 'MA', 'USA', 42.37, -71.02, -5.0, 6.0, '725090', 'TMY3']}

CORPUS = [
    ('dict_json', {'spec': {'cls': 'Collection', 'kind': 'MonthlyPerHour', 'immutable': False, 'header': _hdr(),
                            'values': [1.5, 2.5], 'datetimes': [[2, 0, 0], [3, 23, 30]], 'validated': False}}),
    ('json_file', {'spec': {'cls': 'Collection', 'kind': 'MonthlyPerHour', 'immutable': False, 'header': _hdr(),
                            'values': [1.5, 2.5], 'datetimes': [[2, 0, 0], [3, 23, 30]], 'validated': True}}),
    ('csv', {'spec': {'cls': 'Collection', 'kind': 'Daily', 'immutable': False, 'header': _hdr(meta={'city': 'x'}),
                      'values': [1.5, 2.5, 3.5], 'datetimes': [59, 60, 61], 'validated': True}}),
    ('csv', {'spec': {'cls': 'Collection', 'kind': 'HourlyDiscontinuous', 'immutable': False,
                      'header': _hdr(ap=_LEAP_AP), 'values': [1.0, 2.5, 3.0],
                      'datetimes': [[2, 28, 1, 0, True], [2, 29, 5, 0, True], [3, 1, 7, 0, True]], 'validated': True}}),
    ('csv', {'spec': {'cls': 'Collection', 'kind': 'Monthly', 'immutable': False, 'header': _hdr(),
                      'values': [1.5, 2.5], 'datetimes': [2, 3], 'validated': False}}),
    ('csv', {'spec': {'cls': 'Collection', 'kind': 'Monthly', 'immutable': False, 'header': _hdr(meta={'n': 1}),
                      'values': [1.5, 2.5], 'datetimes': [2, 3], 'validated': True}}),
    ('csv', {'spec': {'cls': 'Collection', 'kind': 'Monthly', 'immutable': False,
                      'header': _hdr(dt=_GEN_DT, unit='bar'), 'values': [1.5, 2.5], 'datetimes': [2, 3], 'validated': True}}),
    ('text', {'spec': _GEN_DT}),
    ('dict_json', {'spec': _GEN_DT_DESCR}),
    ('dict_json', {'spec': {'cls': 'DataType', 'type': 'Temperature', 'name': 'temperature'}}),
    ('duplicate', {'spec': {'cls': 'DataType', 'type': 'Temperature', 'name': None}}),
    ('duplicate', {'spec': _GEN_DT}),
    ('dict_json', {'spec': {'cls': 'DryBulbCondition', 'args': [30.5, 8.5, 'MultiplierSchedule', 'Sched 1']}}),
    ('dict_json', {'spec': {'cls': 'HumidityCondition', 'args': ['Enthalpy', 60000.0, 101325, False, False, 'Hum Sched', '']}}),
    ('dict_json', {'spec': {'cls': 'Wea', 'location': _LOC, 'annual': True, 'timestep': 1, 'leap': False}}),
]


def _finding_examples():
    path = os.path.join(core.ROOT, 'known_findings.d', 'C07.json')
    try:
        with open(path) as f:
            return [(k['example_input']['op'], k['example_input']['input']) for k in json.load(f)['findings']]
    except (OSError, KeyError, ValueError):
        return []


def _oracle_cases(ctx):
    rng = ctx.rng
    for op, inp in CORPUS + _finding_examples():
        yield op, inp
    big = ctx.searching or not ctx.quick
    k = 5 if big else 1

    def emit(spec, ops):
        for op in ops:
            yield op, {'spec': spec, 'seed': rng.randrange(10 ** 6)}

    basic = ('dict_json', 'unknown_key', 'duplicate', 'pickle')
    for _ in range(60 * k):
        d = gen_dt(rng)
        for c, a in (('DateTime', d), ('Date', [d[0], d[1], d[4]]), ('Time', [d[2], d[3]])):
            for x in emit({'cls': c, 'args': a}, ('dict_json', 'unknown_key', 'pickle')):
                yield x
    for _ in range(150 * k):
        for x in emit(gen_ap(rng), basic + ('text',)):
            yield x
    for _ in range(120 * k):
        for x in emit(gen_location(rng), basic + ('text',)):
            yield x
    for t in sorted(_types()):
        for x in emit({'cls': 'DataType', 'type': t, 'name': None}, ('dict_json', 'duplicate', 'text')):
            yield x
    for _ in range(120 * k):
        for x in emit(gen_datatype(rng), ('dict_json', 'unknown_key', 'duplicate', 'text', 'pickle')):
            yield x
    for _ in range(100 * k):
        h = gen_header(rng)
        for x in emit(h, basic):
            yield x
        yield 'text', {'spec': h, 'per_row': rng.random() < 0.5, 'seed': 0}
    for kind in sorted(COLL_CLASSES):
        for imm in (False, True):
            for _ in range(14 * k):
                c = gen_collection(rng, kind, imm)
                for x in emit(c, basic + ('csv', 'json_file', 'pkl')):
                    yield x
    # aligned pairs of collections in one file
    for _ in range(12 * k):
        c = gen_collection(rng, meta_kind=rng.choice(['strings', 'empty', 'none']), generic=False)
        c2 = copy.deepcopy(c)
        c2['values'] = gen_values(rng, len(c['values']))
        c2['header']['meta'] = gen_meta(rng, rng.choice(['strings', 'empty', 'none']))
        for op in ('csv', 'json_file', 'pkl'):
            yield op, {'spec': c, 'more': [c2], 'seed': 0}
    for _ in range(60 * k):
        for x in emit({'cls': 'Color', 'args': gen_color(rng)}, basic + ('text',)):
            yield x
    for _ in range(80 * k):
        for x in emit(gen_colorrange(rng), ('dict_json', 'unknown_key', 'duplicate')):
            yield x
    for _ in range(80 * k):
        for x in emit(gen_legendpar(rng), ('dict_json', 'unknown_key', 'duplicate')):
            yield x
    for _ in range(30 * k):
        for x in emit(gen_legendpar_cat(rng), ('dict_json', 'duplicate')):
            yield x
    for _ in range(40 * k):
        for x in emit(gen_legend(rng), ('dict_json', 'duplicate')):
            yield x
    for _ in range(40 * k):
        for part in gen_designday_parts(rng):
            for x in emit(part, ('dict_json', 'duplicate', 'unknown_key')):
                yield x
    for _ in range(30 * k):
        for x in emit(gen_designday(rng), ('dict_json', 'duplicate')):
            yield x
    for _ in range(8 * k):
        loc = gen_location(rng)
        ddy = {'cls': 'DDY', 'location': loc, 'days': [gen_designday(rng, loc) for _ in range(rng.choice([1, 2, 3]))]}
        for x in emit(ddy, ('dict_json', 'duplicate')):
            yield x
    for _ in range(6 * k):
        for x in emit(gen_psych(rng), ('dict_json',)):
            yield x
    weas = [{'cls': 'Wea', 'location': gen_location(rng), 'annual': True, 'timestep': 1, 'leap': False},
            {'cls': 'Wea', 'location': gen_location(rng), 'annual': False,
             'ap': {'cls': 'AnalysisPeriod', 'args': [3, 1, 0, 3, 2, 23, 2, False]}},
            {'cls': 'Wea', 'location': gen_location(rng), 'annual': False,
             'ap': {'cls': 'AnalysisPeriod', 'args': [9, 30, 0, 10, 1, 23, 4, False]}}]
    if big:
        weas += [{'cls': 'Wea', 'location': gen_location(rng), 'annual': True, 'timestep': 2, 'leap': True},
                 {'cls': 'Wea', 'location': gen_location(rng), 'annual': False,
                  'ap': {'cls': 'AnalysisPeriod', 'args': [3, 1, 0, 3, 5, 23, 1, False]}},
                 {'cls': 'Wea', 'location': gen_location(rng), 'annual': False,
                  'ap': {'cls': 'AnalysisPeriod', 'args': [6, 21, 8, 6, 23, 17, 1, False]}}]
    for w in weas:
        for x in emit(w, ('dict_json', 'duplicate')):
            yield x
    epws = ['chicago.epw'] if not big else ['chicago.epw', 'tokyo.epw', 'boston.epw']
    for f in epws:
        if os.path.exists(os.path.join(core.REPO, 'tests', 'assets', 'epw', f)):
            yield 'dict_json', {'spec': {'cls': 'EPW', 'file': f}, 'seed': 0}


def oracle(ctx):
    with contextlib.redirect_stdout(io.StringIO()):     # ladybug prints notices ("Updated end_day ...")
        _oracle(ctx)


def _oracle(ctx):
    def counted(cases):
        for op, inp in cases:
            s = inp['spec']
            r = root_of(op, inp)
            if r.startswith('multiple'):
                ctx.count('skipped:compound-known-limitations')
                continue
            # the known-limitation domains are probed by the fixed corpus and a few generated cases
            # only: the failure list of a run is capped, and the rest of the stream must be reached
            if r != 'none' and ctx.counters.get('root:' + r, 0) >= 6:
                ctx.count('skipped:known-limitation-domain')
                continue
            ctx.count('root:' + r)
            ctx.count('spec:' + s['cls'] + (':' + s['kind'] if s['cls'] == 'Collection' else ''))
            yield op, inp
    del UNCONSTRUCTIBLE[:]
    run_oracle_cases(ctx, counted(_oracle_cases(ctx)), check_case)
    ctx.count('unconstructible_specs', len(UNCONSTRUCTIBLE))


# ---------------------------------------------------------------------------------------------
# correspondence: model enc(dec v) vs real from_dict(v).to_dict()

class _Shim(object):
    """Wraps an already computed dictionary so that it can stand where an object is expected."""
    def __init__(self, d):
        self._d = d

    def to_dict(self):
        return self._d


MODEL_CLASSES = {
    'DateTime': lambda L: L['dt'].DateTime, 'Date': lambda L: L['dt'].Date, 'Time': lambda L: L['dt'].Time,
    'AnalysisPeriod': lambda L: L['ap'].AnalysisPeriod, 'Location': lambda L: L['loc'].Location,
    'Color': lambda L: L['col'].Color, 'DataType': lambda L: L['DataTypeBase'],
    'Header': lambda L: L['hd'].Header,
}


def _mutations(d, rng, n, strings=True):
    """Variants of a dictionary: key order, dropped keys, nulls, wrong types, bad values."""
    out = []
    for _ in range(n):
        v = deep_shuffle(copy.deepcopy(d), rng)
        r = rng.random()
        ks = [k for k in v.keys()]
        if r < 0.35 and ks:
            for k in rng.sample(ks, rng.randrange(1, min(3, len(ks)) + 1)):
                v.pop(k)
        elif r < 0.5 and ks:
            v[rng.choice(ks)] = None
        elif r < 0.6 and ks:
            k = rng.choice(ks)
            if isinstance(v[k], bool):
                v[k] = not v[k]
            elif isinstance(v[k], int):
                # negative hour/minute are normalised by float arithmetic in dt.py (Time(23, -1) is
                # 22:59): outside the property and outside the model
                v[k] = rng.choice([0, 13, 32, 24, 61, 255, 256, 7] + ([] if k in ('hour', 'minute') else [-1]))
            elif isinstance(v[k], str) and k != 'unit' and strings:   # unit lists of standard types: not modelled
                v[k] = rng.choice(['', 'Nope', 'GenericType', 'Temperature'])
        elif r < 0.7:
            v['zz_unknown'] = rng.choice([1, 'x', None, [1], {'a': 1}])
        out.append(v)
    return out


def _model_rt(ctx, op, cls, dicts, reader):
    """Compare the model's enc(dec v) with reader(v).to_dict() for every dictionary in dicts."""
    def impl(d):
        back = reader(copy.deepcopy(d)).to_dict()
        return 'ok ' + wire(back)

    core.compare_batch(ctx, op, dicts, lambda d: 'rt %s %s' % (cls, wire(d)), impl,
                       canon=canon_line, key=lambda d: jdump(d))


def correspondence(ctx):
    with contextlib.redirect_stdout(io.StringIO()):
        _correspondence(ctx)


def _correspondence(ctx):
    L = _imp()
    rng = ctx.rng
    n = ctx.n(1, 6)

    # JSON library assumptions behind jsonRT: floats bit-exact, tuples -> lists, int keys -> text
    vals = [gen_float(rng) for _ in range(400 * n)] + [0.0, -0.0, 1e-320, 1e308, 0.1, 1 / 3.0]
    for x in vals:
        ctx.compared += 1
        ctx.count('op:json_float')
        if _fbits(json.loads(json.dumps(x))) != _fbits(x):
            ctx.disagree('json_float', repr(x), 'bit-exact', repr(json.loads(json.dumps(x))))
    jcases = []
    for _ in range(150 * n):
        jcases.append({'a': (1, 2.5, [3, (4, 'x')]), 'k': {1: 'one', -2: 'm', 'z': None}, 'b': True,
                       'v': [gen_float(rng), rng.randrange(-9, 9)], gen_str(rng): gen_str(rng, True)})
    core.compare_batch(ctx, 'json', jcases, lambda d: 'json ' + wire(d),
                       lambda d: 'ok ' + wire(json.loads(json.dumps(d))), canon=canon_line, key=repr)

    def real_dicts(specs, rc=None):
        out = []
        for s in specs:
            try:
                obj = build(s)
                out.append(json.loads(json.dumps(obj.to_dict())))
            except Exception:
                ctx.count('spec_not_constructible')
        return out

    # basic classes
    dts = [gen_dt(rng) for _ in range(120 * n)]
    groups = [
        ('DateTime', [{'cls': 'DateTime', 'args': d} for d in dts]),
        ('Date', [{'cls': 'Date', 'args': [d[0], d[1], d[4]]} for d in dts]),
        ('Time', [{'cls': 'Time', 'args': [d[2], d[3]]} for d in dts]),
        ('AnalysisPeriod', [gen_ap(rng) for _ in range(250 * n)]),
        ('Location', [gen_location(rng) for _ in range(250 * n)]),
        ('Color', [{'cls': 'Color', 'args': gen_color(rng)} for _ in range(100 * n)]),
        ('DataType', [{'cls': 'DataType', 'type': t, 'name': None} for t in sorted(_types())] +
         [gen_datatype(rng) for _ in range(250 * n)]),
        ('Header', [gen_header(rng) for _ in range(200 * n)]),
    ]
    for cls, specs in groups:
        reader = MODEL_CLASSES[cls](L).from_dict
        ds = real_dicts(specs)
        _model_rt(ctx, 'rt_' + cls, cls, ds, reader)
        muts = []
        for d in ds:
            muts += _mutations(d, rng, 2)
        # nested mutations for headers
        if cls == 'Header':
            for d in ds[:len(ds) // 2]:
                v = copy.deepcopy(d)
                sub = rng.choice(['data_type', 'analysis_period'])
                # (no string replacement inside a header: a changed class would change the unit list)
                v[sub] = _mutations(v[sub], rng, 1, strings=False)[0]
                muts.append(v)
        _model_rt(ctx, 'rtmut_' + cls, cls, muts, reader)

    # AnalysisPeriod: constructor-level dictionaries (falsy values, clipping, rejections)
    apd = []
    for _ in range(400 * n):
        keys = ['st_month', 'st_day', 'st_hour', 'end_month', 'end_day', 'end_hour', 'timestep', 'is_leap_year']
        d = {}
        for k in keys:
            r = rng.random()
            if r < 0.15:
                continue
            if k == 'is_leap_year':
                d[k] = rng.choice([True, False, None])
            elif r < 0.25:
                d[k] = rng.choice([0, None])
            elif 'month' in k:
                d[k] = rng.choice([1, 2, 12, 13, rng.randrange(1, 13)])
            elif 'day' in k:
                d[k] = rng.choice([1, 28, 29, 30, 31, 32, rng.randrange(1, 32)])
            elif 'hour' in k:
                d[k] = rng.choice([0, 23, 24, rng.randrange(24)])
            else:
                d[k] = rng.choice(TIMESTEPS + (7, 0, 120))
        apd.append(d)
    _model_rt(ctx, 'rtctor_AnalysisPeriod', 'AnalysisPeriod', apd, L['ap'].AnalysisPeriod.from_dict)

    # AnalysisPeriod text form and copy
    aps = [gen_ap(rng)['args'] for _ in range(300 * n)]

    def nat8(a):
        return ' '.join(str(int(x)) for x in a)

    def show_ap(p):
        return 'ok %d %d %d %d %d %d %d %d' % (p.st_month, p.st_day, p.st_hour, p.end_month, p.end_day,
                                               p.end_hour, p.timestep, 1 if p.is_leap_year else 0)

    AP = L['ap'].AnalysisPeriod
    core.compare_batch(ctx, 'ap_str', aps, lambda a: 'ap_str ' + nat8(a),
                       lambda a: 'ok s' + _hx(str(AP(*a))), canon=canon_line)
    core.compare_batch(ctx, 'ap_copy', aps, lambda a: 'ap_copy ' + nat8(a),
                       lambda a: show_ap(AP(*a).duplicate()), canon=canon_line)
    texts = [str(AP(*a)) for a in aps[:len(aps) // 2]]
    texts += [t.upper() for t in texts[:20]] + [' ' + t + ' ' for t in texts[:20]]
    texts += ['1/1 to 12/31 between 0 and 23 @1', '1/1 to 2/30 between 0 and 23 @1', '1/1 to 12/31 between 0 and 23 @7',
              '13/1 to 12/31 between 0 and 23 @1', '1/1 to 12/31 between 0 and 24 @1', 'garbage', '',
              '1/1 to 12/31 between 0 and 23', '2/29 to 2/29 between 0 and 23 @1', '2/29 to 2/29 between 0 and 23 @1*']
    core.compare_batch(ctx, 'ap_parse', texts, lambda t: 'ap_parse ' + (_hx(t) or '00'),
                       lambda t: show_ap(AP.from_string(t)), canon=canon_line)

    # Location copy
    lds = real_dicts([gen_location(rng) for _ in range(150 * n)])
    core.compare_batch(ctx, 'loc_copy', lds, lambda d: 'loc_copy ' + wire(d),
                       lambda d: 'ok ' + wire(L['loc'].Location.from_dict(copy.deepcopy(d)).duplicate().to_dict()),
                       canon=canon_line, key=jdump)

    # data type naming helpers on every class name and on custom names
    names = sorted(_types()) + ['PM25', 'ABc', 'aB', 'x_Y', 'A1B']
    core.compare_batch(ctx, 'spaced', names, lambda s: 'spaced ' + _hx(s), lambda s: 'ok s' + _hx(_default_name(s)))
    tn = [_default_name(s) for s in names] + ['my custom name', 'dry bulb temperature', 'pm25 a1b', 'x', 'a  b', "it's"]
    core.compare_batch(ctx, 'titlekey', tn, lambda s: 'titlekey ' + _hx(s),
                       lambda s: 'ok s' + _hx(s.title().replace(' ', '')))

    # colour ranges, legend parameters, legends (3D / 2D properties are not modelled: only dictionaries
    # without these keys are sent to the model)
    def no_props(d):
        lp = d.get('legend_parameters') if isinstance(d.get('legend_parameters'), dict) else d
        return 'properties_3d' not in lp and 'properties_2d' not in lp

    def lpc_reader(d):
        back = L['lg'].LegendParametersCategorized.from_dict(copy.deepcopy(d))
        out = back.to_dict()
        if not d.get('category_names') or d.get('category_names') == {'type': 'Default'}:
            out['category_names'] = ('<generated>',)       # the text of generated names is not modelled
        return _Shim(out)

    def legend_specs():
        out = []
        for _ in range(120 * n):
            g = gen_legend(rng)
            if g['lp'] is not None and g['lp']['cls'] != 'LegendParameters':
                g['lp'] = gen_legendpar(rng)
            if g['lp'] is not None:
                g['lp'].pop('p3d', None)
                g['lp'].pop('p2d', None)
                g['lp'].pop('min', None)
                g['lp'].pop('max', None)
            out.append(g)
        return out

    lgroups = [
        ('ColorRange', [gen_colorrange(rng) for _ in range(200 * n)], L['col'].ColorRange.from_dict),
        ('LegendParameters', [gen_legendpar(rng) for _ in range(250 * n)], L['lg'].LegendParameters.from_dict),
        ('LegendParametersCategorized', [gen_legendpar_cat(rng) for _ in range(120 * n)], lpc_reader),
        ('Legend', legend_specs(), L['lg'].Legend.from_dict),
    ]
    crd = []
    for _ in range(200 * n):
        k = rng.choice([2, 3, 5])
        d = {'colors': [dict(zip('rgba', gen_color(rng))) for _ in range(k)]}
        if rng.random() < 0.2:
            d.pop('colors')
            k = 10
        m = rng.choice([1, 2, 2, 3, k])
        d['domain'] = [rng.choice([rng.randrange(-5, 50), float(rng.randrange(-5, 50)) / 4]) for _ in range(m)]
        if rng.random() < 0.15:
            d['domain'] = rng.choice([None, [], [0, 0]])
        if rng.random() < 0.8:
            d['continuous_colors'] = rng.random() < 0.5
        crd.append(d)
    _model_rt(ctx, 'rtctor_ColorRange', 'ColorRange', crd, L['col'].ColorRange.from_dict)

    for cls, specs, reader in lgroups:
        ds = [d for d in real_dicts(specs) if no_props(d)]
        _model_rt(ctx, 'rt_' + cls, cls, ds, reader)
        muts = []
        for d in ds:
            muts += [m for m in _mutations(d, rng, 2, strings=(cls != 'ColorRange')) if no_props(m)]
            if cls == 'Legend' and isinstance(d.get('legend_parameters'), dict) and rng.random() < 0.5:
                v = copy.deepcopy(d)
                v['legend_parameters'] = _mutations(v['legend_parameters'], rng, 1)[0]
                if no_props(v):
                    muts.append(v)
        _model_rt(ctx, 'rtmut_' + cls, cls, muts, reader)

    # design-day conditions, design days, DDY
    parts = [gen_designday_parts(rng) for _ in range(150 * n)]
    dgroups = [
        ('DryBulbCondition', [p_[0] for p_ in parts], L['dd'].DryBulbCondition.from_dict),
        ('HumidityCondition', [p_[1] for p_ in parts], L['dd'].HumidityCondition.from_dict),
        ('WindCondition', [p_[2] for p_ in parts], L['dd'].WindCondition.from_dict),
        ('SkyCondition', [p_[3] for p_ in parts], L['dd']._SkyCondition.from_dict),
        ('DesignDay', [gen_designday(rng) for _ in range(80 * n)], L['dd'].DesignDay.from_dict),
    ]
    ddys = []
    for _ in range(25 * n):
        loc = gen_location(rng)
        ddys.append({'cls': 'DDY', 'location': loc,
                     'days': [gen_designday(rng, loc) for _ in range(rng.choice([1, 2, 3]))]})
    dgroups.append(('DDY', ddys, L['ddy'].DDY.from_dict))
    for cls, specs, reader in dgroups:
        ds = real_dicts(specs)
        _model_rt(ctx, 'rt_' + cls, cls, ds, reader)
        muts = []
        for d in ds:
            muts += _mutations(d, rng, 2, strings=(cls in ('HumidityCondition', 'DesignDay')))
            if cls == 'DesignDay' and rng.random() < 0.6:
                v = copy.deepcopy(d)
                sub = rng.choice(['dry_bulb_condition', 'humidity_condition', 'wind_condition',
                                  'sky_condition', 'location'])
                v[sub] = _mutations(v[sub], rng, 1, strings=False)[0]
                muts.append(v)
        _model_rt(ctx, 'rtmut_' + cls, cls, muts, reader)

    # Wea: annual, partial continuous, discontinuous (few: the dictionaries are large)
    wspecs = [{'cls': 'Wea', 'location': gen_location(rng), 'annual': True, 'timestep': 1, 'leap': False}]
    if not ctx.quick:
        wspecs.append({'cls': 'Wea', 'location': gen_location(rng), 'annual': True, 'timestep': 2, 'leap': True})
    for _ in range(6 * n):
        m = rng.randrange(1, 13)
        d0 = rng.randrange(1, 27)
        full = rng.random() < 0.5
        sh, eh = (0, 23) if full else (rng.randrange(0, 12), rng.randrange(12, 24))
        wspecs.append({'cls': 'Wea', 'location': gen_location(rng), 'annual': False,
                       'ap': {'cls': 'AnalysisPeriod', 'args': [m, d0, sh, m, d0 + rng.choice([0, 1, 2]), eh,
                                                                 rng.choice([1, 1, 2, 4]), False]}})
    wds = real_dicts(wspecs)
    _model_rt(ctx, 'rt_Wea', 'Wea', wds, L['wea'].Wea.from_dict)
    wm = []
    for d in wds:
        if len(d['direct_normal_irradiance']) > 2000 and ctx.quick and wm:
            continue
        for v in _mutations(d, rng, 3, strings=False):
            if v.get('timestep', 1) is None or v.get('timestep', 1) not in TIMESTEPS:
                v['timestep'] = 1          # a null / odd timestep takes constructor paths that are not modelled
            wm.append(v)
        v = copy.deepcopy(d)
        if 'datetimes' in v and rng.random() < 0.7:
            r = rng.random()
            if r < 0.4:
                v['datetimes'] = v['datetimes'][:-1]
            elif r < 0.7:
                v['direct_normal_irradiance'] = v['direct_normal_irradiance'][:-1]
            else:
                v['is_leap_year'] = True
            wm.append(v)
    _model_rt(ctx, 'rtmut_Wea', 'Wea', wm, L['wea'].Wea.from_dict)

    # text forms: str.split, data-type text, CSV header strings
    seps = [' | ', ': ', ',']
    pieces = ['', 'a', 'k: v', 'x | y', 'p |', '| q', ' ', 'a: b: c', 'city: Boston', ' |', '|', ': ', 'a,b', u'Kö: ln']
    scases = []
    for _ in range(400 * n):
        sep = rng.choice(seps)
        k = rng.randrange(0, 5)
        txt = rng.choice(seps + ['', ' ']).join(rng.choice(pieces) for _ in range(k))
        scases.append((sep, txt))
    core.compare_batch(ctx, 'split', scases, lambda c: 'split %s %s' % (_hx(c[0]), _hx(c[1]) or '00'),
                       lambda c: 'ok ' + wire(c[1].split(c[0])), canon=canon_line, key=repr)
    tcases = [_default_name(t) for t in sorted(_types())] + [t for t in sorted(_types())][:30] + \
        ['dry bulb temperature', 'Foo | bar', 'Foo', 'a | b | c', 'Foo | bar | 0 | 1 | F | None | True | False',
         'Temperature | C', 'x | ', ' | y', '']
    core.compare_batch(ctx, 'dt_text', tcases, lambda t: 'dt_text ' + (_hx(t) or '00'),
                       lambda t: 'ok ' + wire(L['DataTypeBase'].from_string(t).to_dict()),
                       canon=canon_line, key=repr)
    hcases = []
    for _ in range(300 * n):
        h = gen_header(rng)
        md = h.get('meta')
        if md and any(isinstance(v, (float, list, dict)) for v in md.values()):
            md = {k: v for k, v in md.items() if not isinstance(v, (float, list, dict))}
            h['meta'] = md
        if rng.random() < 0.25:
            h['meta'] = dict(rng.sample([('a', 'p |'), ('b', '| q'), ('c: d', 'e'), ('f', ''), ('', 'g'),
                                         ('h', 'i: j'), ('k', ' | '), ('l', 'm')], rng.randrange(1, 4)))
        hcases.append((rng.random() < 0.5, h))
    hd = []
    for per_row, hs in hcases:
        try:
            hd.append((per_row, json.loads(json.dumps(build(hs).to_dict()))))
        except Exception:
            ctx.count('spec_not_constructible')

    def impl_csv(c):
        h = L['hd'].Header.from_dict(copy.deepcopy(c[1]))
        back = L['hd'].Header.from_csv_strings(h.to_csv_strings(c[0]), h.analysis_period)
        return 'ok ' + wire(back.to_dict())

    outs = core.compare_batch(ctx, 'hdr_csv', hd, lambda c: 'hdr_csv %s %s' % ('1' if c[0] else '0', wire(c[1])),
                              impl_csv, canon=lambda l: 'skip' if l == 'skip' else canon_line(l), key=repr)

    # collections: every class and immutable twin
    for kind in sorted(COLL_CLASSES):
        for imm in (False, True):
            specs = [gen_collection(rng, kind, imm) for _ in range(30 * n)]
            mod = L['dci'] if imm else L['dc']
            reader = getattr(mod, COLL_CLASSES[kind][1 if imm else 0]).from_dict
            ds = real_dicts(specs)
            tag = kind + ('_imm' if imm else '')
            _model_rt(ctx, 'rt_' + tag, tag, ds, reader)
            muts = []
            for d in ds:
                muts += _mutations(d, rng, 1)
                v = copy.deepcopy(d)
                r = rng.random()
                if r < 0.3:
                    v['values'] = v['values'][:-1]
                elif r < 0.5:
                    v['type'] = rng.choice(sorted(COLL_CLASSES))
                elif r < 0.7 and 'datetimes' in v and v['datetimes']:
                    v['datetimes'] = v['datetimes'][1:] + v['datetimes'][:1]
                else:
                    v['header'] = _mutations(v['header'], rng, 1, strings=False)[0]
                muts.append(v)
            _model_rt(ctx, 'rtmut_' + tag, tag, muts, reader)
