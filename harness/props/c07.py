"""C07 — Every serial form reads back to an object equal to the one written.

Model: lean/Ladybug/Model/Codec.lean (PyVal, jsonRT, record decoders) and Model/Serial/*.lean
(one codec per class); theorems: lean/Ladybug/Props/C07.lean; driver: drv_c07.
Tie: translator (Gen/DataTypeNames from ladybug/datatype/*.py) + correspondence: the model's
`enc (dec v)` against the real `X.from_dict(v).to_dict()` on real `to_dict` outputs (JSON round
tripped, key-shuffled, optional keys dropped, malformed), text forms and copies.
Oracle: the property statement on the real classes, for every serialisable class.

Round 3: histories on ONE object (op `history`: assignments, in-place operations, refused operations,
reads in random order and repeated; after every step the serial-form observables, and equality with a
fresh object built from the public state), several objects read in one process (op `seq`), slices of
the stream in fresh interpreters in different orders, rare classes first (op `order`), the array forms
(op `array`) and the rare strata of the quantifier; the Lean object state machines
(Model/Serial/Hist.lean) are compared with real Location / collection objects step by step (op `hist`).
The list of producers and their consumers is at the head of the history section below.

Round 4 (kinds e-j of seeded/C07-9..12; the one miss, C07-12, was a ONE-SHOT ITERABLE handed to a file writer):
  (f) container shapes: every sequence argument of every class (values / datetimes of the ten collection
      classes, colours / domain of ColorRange, colours of LegendParameters, domain / colours / names of
      LegendParametersCategorized, values of Legend, design days of DDY, annual values of Wea) and the series
      handed to collections_to_csv / _to_json / _to_pkl as list, tuple, generator, iterator, map, filter, deque
      (op `shape`, key `shape` of the file ops): a shape the code refuses is no instance; an accepted one reads
      back, writes the same dictionary every time it is asked, and IS the instance the list describes;
      correspondence `file_series` / `rt_file_*`: the files written from every shape hold the model's encFile.
  (f) aliasing (op `alias`): a copy (duplicate / copy.copy / deepcopy / pickle), a read-back, a twin
      (to_mutable / to_immutable) and a second object built from the same (default) arguments are separate
      values - editing one through setters, item assignment, in-place conversion or the metadata dictionary it
      hands out leaves the other's dictionary unchanged (both directions); editing a dictionary after it was
      written / after it was read changes neither object.  Recorded conventions of the pinned code that are NOT
      asserted: legend parameters share their ordinal / user-data dictionaries with their dictionary form and their copies, a header keeps the
      metadata dictionary it is handed.
  (e) sibling classes: op `twin` (mutable / immutable twins convert into each other, equal the directly built
      twin, keep the validated flag, write the same dictionary up to the class name); copy.deepcopy and pickle of
      every class; every field of LegendParameters also on LegendParametersCategorized; theorems
      C07_twins_same_dictionary / _json, C07_read_as_mutable / _immutable, C07_twin_conversions.
  (i) input shapes: numbers given as text ('plain', blank-padded / zero-padded, exponent notation) to every
      constructor that converts (Location, Color, AnalysisPeriod month/day/hour, categorized domain); hand-written
      texts of the documented formats (op `text_shape`: zero-padded, capitals, blanks incl. after the leap star,
      no blanks, mixed widths; one- and two-digit DateTime / Date / Time texts); unsorted, reversed and duplicated
      datetimes; exotic but legal characters in every text field incl. CSV / JSON / PKL files.
  (h) numeric edges: value texts with an exponent and no fraction part (1e-05, 3e+16), 1e-12 .. 1e+100, halves,
      -0.0, subnormal / largest float, +-inf in collection values, in every file form and dictionary; longitudes
      whose derived time zone is a rounding half-way case.
  (j) branches of the anchored functions and the stratum that reaches each (counters `branch:` / `stratum:`):
      datautil writers: folder missing -> makedirs (newdir), file name with / without extension, capitals (fname);
      collections_to_csv: metadata aligned (one row per item) / not aligned (3 header rows) (pairs in one file with
      equal / different metadata); collections_from_csv: five class branches x leap flag; _dict_to_collection: five
      type branches (json_file / pkl of every class); Header.to_dict / __copy__ `if self.analysis_period`: the
      else branch is unreachable (the constructor refuses a missing period, every period has len >= 1);
      Header.from_csv_strings `len > 2` (metadata present / absent); Header.to_csv_strings per_row both;
      DateTime / Date to_array / to_dict leap branch (leap strata); from_dict optional keys present / absent
      (writer omits leap_year False; key-dropped variants in the correspondence); GenericType.to_dict six optional
      fields (gen_datatype); DataTypeBase.from_dict generic / standard / name-matches-class; Color.from_dict alpha
      absent (correspondence key drop) / alpha 0; LegendParameters(-Categorized).__copy__ user_data None / dict;
      Legend3D / 2D to_dict default / non-default fields; Legend.from_dict parameters None / plain / categorized;
      Wea.from_dict continuous / datetimes, timestep, leap, part-day hours; AnalysisPeriod.from_string leap star,
      except branch (malformed text is refused: not a form the writer produces; correspondence malformed stream);
      from_*_string except branches likewise; to_immutable `_enumeration is None` (first conversion in a fresh
      interpreter: op `twin` / `alias` inside the `order` runs).

Round 5 (seeded C07-15, tie-only: from_dict / from_file of Wea merged into one helper that validates, so the
reader SORTS the steps).  Two classes:
  (k) a reader (or writer) that NORMALISES what was written - sorts, validates against a period, removes
      duplicates, re-derives: visible only on content that is legitimately not in canonical order.  The collection
      classes have had unsorted / reversed / duplicated strata since round 4; the classes that hold collections
      inside ANOTHER dictionary form had not: Wea now has strata whose steps are out of calendar order and do not
      fill a period - built through the public constructor from unflagged discontinuous collections (wrap =
      December before January, shuffled, reversed; spec key `ctor`, outside every recorded limitation: must read
      back EQUAL) and through the public selections (spec key `sel`: filter_by_analysis_period over the year end
      + filter_by_sun_up at a high latitude / + filter_by_pattern, filter_by_hoys / _moys with unsorted hours,
      sub-hourly part-day windows) on ops dict_json / unknown_key / duplicate / pickle; correspondence rt_Wea gets the
      same instances, rtmut_Wea the same steps reversed / rotated / swapped.  Lean: WeaC.wfScattered (no order
      condition) + C07_Wea_steps_in_any_order (full law), _fixed, C07_Wea_reader_keeps_order,
      C07_Wea_period_rederived_counterexample.
  (l) a recorded finding that EXCUSES MORE THAN ITS DEVIATION: every discontinuous Wea lies in the domain of
      C07-wea-discontinuous-validated-flag, whose match was {root, outcome: unequal}, and the first clause that
      failed ended the case - so values / datetimes in another order were excused and the fixed point was never
      asked.  Now an `unequal` outcome inside a recorded domain names WHAT differs (`differs`, for Wea part by
      part; `lost`: flag / period / content), the findings match only their own deviation (Wea: lost flag / lost
      period; categorized default names: differs eq_only), and a failure that a finding explains no longer ends the
      case: same-dictionary-again, plain dictionary and key order are still evaluated and the first UNEXPLAINED
      failure is reported.  Branch of Wea.from_dict newly counted: steps-do-not-fill-spanned-period (fallback to
      the annual period).  New recorded finding C07-wea-dict-rederives-period (the dictionary carries no header
      period; genuine, same root as the validated-flag finding).

Round 6 (seeded C07-17, missed: collections_to_csv wrote every column's metadata under the keys of the FIRST collection).
  (m) CROSS-TALK BETWEEN THE MEMBERS OF ONE SERIES: a writer (or reader) of several objects into one file computes a
      member's form with something taken from a sibling (the first member's keys / layout / data type / unit / year
      kind), usually through a new optional argument whose default keeps the single-object form intact.  Each object
      alone is right; a file that two objects share is wrong.  The old pair stratum gave the second member the SAME
      data type and unit, a random metadata size, and left most non-continuous pairs inside the csv_unvalidated
      limitation.  Now (`_round6_cases`, counters `stratum:series_*`): series of 2-4 aligned collections of every class
      (twins mixed) in ONE csv / json / pkl file whose members differ in exactly one respect a writer could share -
      metadata of the same size (2-4 items: the one-item-per-row layout) with other keys, with the same keys in another
      order, with the same keys and other values; sizes that differ (one-row layout); empty / missing metadata next to
      filled; other data type and unit; the odd member first, in the middle, last - all outside every recorded
      limitation.  Oracle clauses added to the file ops: every member reads back equal to ITSELF (sig `member`, `series`),
      equal to what it reads back to when written ALONE (sig outcome `depends_on_siblings`), and the writer leaves
      the members as they were (`writer_changed_member`).  Correspondence `csv_series`: the header block of the real file
      (layout flag, one column per member) against the model's csvColumns / Hdr.csvSeries, the headers read back by
      collections_from_csv against the model's.  Lean: csvLayout / csvColumns (Model/Serial/Csv.lean),
      C07_csv_column_is_members_own (a column depends on its own header and the layout flag only),
      C07_csv_series_partial (every column of a series reads back to its own header, token level).
      NEW GENUINE DEFECT of the pinned tree found by the stratum `other_period`: the CSV file has ONE cell for the
      analysis period (the first member's); an aligned member (same class, same datetimes) of a non-continuous class
      whose header names another period reads back with the first member's period.  Recorded finding
      C07-csv-one-period-per-file (root `csv_shared_period`, excuses `lost: period` of a later member only), modelled as
      the code is (Hdr.csvSeries), theorem C07_csv_series_period_counterexample.
"""
import contextlib
import copy
import io
import json
import math
import os
import pickle
import shutil
import struct
import tempfile

from harness import core
from harness.core import run_oracle_cases

PROP = 'C07'
PROOF_MODULES = ['Ladybug.Props.C07']
GREP_MODULES = ['Ladybug.Model.Codec', 'Ladybug.Model.Serial.Basic', 'Ladybug.Model.Serial.Coll',
                'Ladybug.Model.Serial.Legend', 'Ladybug.Model.Serial.DesignDay', 'Ladybug.Model.Serial.Wea',
                'Ladybug.Model.Serial.Csv', 'Ladybug.Model.Serial.Hist', 'Ladybug.Model.Serial.Files', 'Ladybug.Proofs.C07Hist',
                'Ladybug.Proofs.C07Basic', 'Ladybug.Proofs.C07Loc',
                'Ladybug.Proofs.C07Legend', 'Ladybug.Proofs.C07DesignDay', 'Ladybug.Proofs.C07Wea',
                'Ladybug.Proofs.C07Csv', 'Ladybug.Model.AP', 'Ladybug.Gen.ApTables',
                'Ladybug.Gen.DataTypeNames', 'Ladybug.Drv.C07',
                'Ladybug.DrvCore', 'Ladybug.Py', 'Ladybug.Model.Cal']
RULE = ('instances are described by plain-data specs (class + constructor arguments) drawn type-directed '
        'per class: leap years, 29 Feb, wrapping / overnight periods, sub-hourly steps, empty / string / '
        'non-string metadata, every standard data type + generic types with every optional field, all five '
        'collection classes and their immutable twins, colours, colour ranges, legend parameters (plain, '
        'categorized, 2D/3D), legends, design-day conditions, design days, DDY, Wea (annual / partial), '
        'EPW (asset files), psychrometric charts.  correspondence: model enc(dec v) vs real '
        'from_dict(v).to_dict() on real to_dict output, its key-shuffled / key-dropped / malformed variants; '
        'oracle: dict+JSON, to_dict fixed point, key order, duplicate/copy/deepcopy, text forms, array forms, CSV/JSON/PKL files; '
        'round 4: every sequence argument and every series of collections as list / tuple / generator / iterator / map / filter / deque, '
        'numbers as text, hand-written text shapes, aliasing between an object and its copies / read-backs / twins / second objects and '
        'the dictionaries written and read, mutable-immutable twins, numeric edges (exponent texts, 1e-12..1e100, halves, inf), exotic '
        'characters, unsorted / duplicated datetimes, new folders and file names with extensions; '
        'histories on one object (setters with accepted / refused values incl. zeros and exact bounds, item '
        'assignment, unit conversion in place, metadata, nested parts; reads in random order, repeated) checked '
        'after every step against the serial-form observables and a fresh object built from the public state; '
        'sequences of objects of one class read in one process; slices of the stream in fresh interpreters in '
        'different orders (leap / wrapping / sub-hourly / refused-first cases first in one of them); strata: time '
        'zone 0 off the Greenwich meridian, zeros and bounds of every Location number, leap-year arrays and '
        'partial leap-year Wea, single-element collections. '
        'A case is non-trivial when the implementation returns a value; distinct = distinct (op, input).')
TRUSTED_BASE = [
    'translators tools/extract/datatype_names.py (class names of the standard data types), ap_tables.py and '
    'dt_tables.py (tables of the calendar / analysis-period models the codecs reuse)',
    'modelled, not verified: json.dumps/json.loads keep ints, strings, bools, None and finite floats '
    '(bit-exact; op json_float checks it for every generated float), turn tuples into lists and integer '
    'keys into their decimal text; CPython dict semantics; pickle/copy',
    'floats are opaque bit patterns in the model: float(int), round(lon/15) and the 2-stop re-mapping of '
    'ColorRange.domain are executed by the driver with IEEE arithmetic but nothing is proved about them (the '
    'ColorRange law carries the re-mapping\'s idempotence on 2-colour ranges as an explicit hypothesis)',
    'unit acceptance lists of the standard data types are not modelled (the harness sends acceptable units)',
    'the enc direction of the correspondence goes through dec: the model is asked for enc(dec(v)) on real '
    'to_dict outputs v',
    'character level of the text forms (str.split / join, %d printing, the replace chain of '
    'AnalysisPeriod.from_string) is executable in the model and tied by correspondence only: the theorems '
    'C07_AnalysisPeriod_string_partial and C07_HeaderCsv_partial are at token level (hypothesis SplitsBack)',
    'non-default Legend3DParameters / Legend2DParameters, the text of generated category names, legends with '
    'categorized parameters, continuous non-annual Wea objects (law proved for annual and discontinuous ones), '
    'EPW, PsychrometricChart and the CSV/PKL *file* forms are compared / oracle-checked only, not proved',
    'len(AnalysisPeriod) and its datetimes in the Wea codec come from the C04 model (Model/AP.lean)',
    'the CSV file of a series: the model has the header block as one column per member (csvLayout / csvColumns / '
    'Hdr.csvSeries); the transposition zip(*columns) / zip(*rows), the value and datetime cells and the text of the '
    'period cell are compared (correspondence csv_series, oracle op csv), not modelled',
    'object state machines (Model/Serial/Hist.lean) exist for Location and the data collections; their setters '
    'validate before assigning (for Location that is the behaviour of fixes/C07_location_setters_refused_assignment'
    '.patch; on the pinned code a refused assignment that changed the object ends the step-wise comparison of that '
    'history and is reported by the oracle / recorded finding instead); histories of every other class with setters '
    '(Color, Header, ColorRange, legend parameters, design-day conditions, DesignDay, DDY, Wea) and read-purity of '
    'EPW-free lazily computed attributes are checked by the oracle on the real code only; in-place unit conversion is '
    'compared with the data type\'s own out-of-place conversion (conversion arithmetic is not C07\'s subject)',
]
ASSUMPTIONS = ['object equality is the class\'s own __eq__ where defined; ColorRange, EPW and '
               'PsychrometricChart define none and are compared through their dictionaries']
LEVEL_TEXT = ('Machine-checked Lean 4 theorems (58) over a codec model of the serial forms: json.loads(json.dumps) '
              'modelled as jsonRT (tuples to lists, integer keys to text); the round-trip law '
              'dec(jsonRT(enc a)) = a is proved for every well-formed DateTime, Date, Time, AnalysisPeriod '
              '(incl. duplicate and token-level text), Location, Color, standard and generic DataType, Header, '
              'the five data-collection classes and immutable twins, ColorRange, LegendParameters, '
              'LegendParametersCategorized, Legend, the design-day conditions, DesignDay, DDY (list lift) and '
              'annual Wea; with the to_dict fixed point and, once for all record decoders, independence of key '
              'order and of unknown keys; the CSV header strings at token level under the stated guard.  '
              'Recorded findings have counterexample theorems (data-type naming, categorized default names, '
              'discontinuous Wea flag, CSV separators, one analysis period per CSV file, generic-type text).  Histories on one object: Location and '
              'the data collections are object state machines over their public state; for every history of accepted '
              'and refused assignments and reads the object still reads back / copies equal to itself and answers as a '
              'fresh object built from its public state, a refused operation changes nothing, reads are pure '
              '(proved by induction over the history).  Round 4: the mutable and immutable twins of a collection write the '
              'same JSON and each dictionary reads as either twin; a JSON / pickle file of a series of collections of one class '
              'reads back, in order and in number, to the mutable twins (the model of the writers takes the list of the elements; '
              'the real writers are fed every container shape).  The model is compared with the real '
              'from_dict/to_dict and text functions on generated instances on every run; file forms, copies, '
              'EPW and psychrometric charts are checked by the oracle on the real code only.')
LEVEL_NOTE = ('Trusted: Lean kernel; axioms propext/Classical.choice/Quot.sound only; JSON library behaviour as '
              'modelled by jsonRT; floats opaque; the table extractors; correspondence on generated inputs only; '
              'character-level split/join behind the hypothesis SplitsBack.  EPW, PsychrometricChart, non-default '
              '3D/2D legend properties and the CSV/PKL file forms are oracle-only (sampled, not proved).')
TECHNIQUE = ('Lean 4 proof (codec combinators, simp over finite-map lookups, induction on lists) about a model '
             'tied to the code by differential correspondence and regenerated tables')


def extract(ctx):
    from tools.extract import datatype_names, ap_tables, dt_tables
    ctx.datatype_names = datatype_names.extract()
    ap_tables.extract()       # Model/AP.lean (len / datetimes of an analysis period, used by the Wea codec)
    dt_tables.extract()       # Model/Cal.lean


# ---------------------------------------------------------------------------------------------
# wire format of Python values (see lean/Ladybug/Drv/C07.lean)


def _fbits(x):
    return '%016x' % struct.unpack('<Q', struct.pack('<d', x))[0]


def _hx(s):
    return s.encode('utf-8').hex()


def wire(v):
    """Python value -> token string."""
    if v is None:
        return 'N'
    if v is True:
        return 'T'
    if v is False:
        return 'F'
    if isinstance(v, int):
        return 'i%d' % v
    if isinstance(v, float):
        return 'f' + _fbits(v)
    if isinstance(v, str):
        return 's' + _hx(v)
    if isinstance(v, list):
        return ' '.join(['L%d' % len(v)] + [wire(x) for x in v])
    if isinstance(v, tuple):
        return ' '.join(['U%d' % len(v)] + [wire(x) for x in v])
    if isinstance(v, dict):
        parts = ['D%d' % len(v)]
        for k, x in v.items():
            if isinstance(k, bool) or not isinstance(k, (str, int)):
                raise ValueError('unsupported key %r' % (k,))
            parts.append(('s' + _hx(k)) if isinstance(k, str) else 'i%d' % k)
            parts.append(wire(x))
        return ' '.join(parts)
    raise ValueError('unsupported value %r' % (v,))


def unwire(toks, i=0):
    """Token list -> (canonical value, next index).  Canonical: floats as ('f', bits), tuples as
    ('U', [...]) so that comparison is exact and type-aware; dict keys as ('s', k) / ('i', k)."""
    t = toks[i]
    c, rest = t[0], t[1:]
    if t == 'N':
        return None, i + 1
    if t == 'T':
        return True, i + 1
    if t == 'F':
        return False, i + 1
    if c == 'i':
        return int(rest), i + 1
    if c == 'f':
        return ('f', rest), i + 1
    if c == 's':
        return ('s', bytes.fromhex(rest).decode('utf-8')), i + 1
    if c in 'LU':
        n = int(rest)
        out = []
        i += 1
        for _ in range(n):
            v, i = unwire(toks, i)
            out.append(v)
        return (c, out), i
    if c == 'D':
        n = int(rest)
        out = {}
        i += 1
        for _ in range(n):
            k, i = unwire(toks, i)
            v, i = unwire(toks, i)
            out[k if not isinstance(k, int) else ('i', k)] = v
        return ('D', out), i
    raise ValueError('bad token ' + t)


def canon(v):
    """Python value -> the canonical form `unwire` produces (for comparison with model output)."""
    return unwire(wire(v).split(' '))[0]


def canon_line(line):
    if line.startswith('err'):
        return 'err:'                      # the model does not distinguish exception classes
    if not line.startswith('ok '):
        return line
    try:
        return 'ok ' + repr(unwire(line[3:].split(' '))[0])
    except Exception:
        return line


# ---------------------------------------------------------------------------------------------
# instance specs (plain data) and their builders


def _imp():
    import ladybug.dt as dt
    import ladybug.analysisperiod as ap
    import ladybug.location as loc
    import ladybug.header as hd
    import ladybug.datacollection as dc
    import ladybug.datacollectionimmutable as dci
    import ladybug.color as col
    import ladybug.legend as lg
    import ladybug.designday as dd
    import ladybug.ddy as ddy
    import ladybug.wea as wea
    import ladybug.epw as epw
    import ladybug.psychchart as pc
    import ladybug.datautil as du
    from ladybug.datatype.base import DataTypeBase, _DataTypeEnumeration
    from ladybug.datatype.generic import GenericType
    return locals()


_TYPES = None


def _types():
    global _TYPES
    if _TYPES is None:
        from ladybug.datatype.base import _DataTypeEnumeration
        _TYPES = dict(_DataTypeEnumeration(import_modules=True)._TYPES)
    return _TYPES


COLL_CLASSES = {
    'HourlyDiscontinuous': ('HourlyDiscontinuousCollection', 'HourlyDiscontinuousCollectionImmutable'),
    'HourlyContinuous': ('HourlyContinuousCollection', 'HourlyContinuousCollectionImmutable'),
    'Daily': ('DailyCollection', 'DailyCollectionImmutable'),
    'Monthly': ('MonthlyCollection', 'MonthlyCollectionImmutable'),
    'MonthlyPerHour': ('MonthlyPerHourCollection', 'MonthlyPerHourCollectionImmutable'),
}


def _num(x):
    """Specs travel through JSON (replay files): floats that are inf come as strings."""
    if isinstance(x, str):
        return float(x)
    return x


SHAPES = ('list', 'tuple', 'gen', 'iter', 'map', 'filter', 'deque')


def _shp(seq, shape):
    """The same data in another container shape (round 4, kind f/i).  `gen`, `iter`, `map`, `filter`
    can be iterated only once."""
    if seq is None or shape is None:
        return seq
    seq = list(seq)
    if shape == 'list':
        return seq
    if shape == 'tuple':
        return tuple(seq)
    if shape == 'gen':
        return (v for v in seq)
    if shape == 'iter':
        return iter(seq)
    if shape == 'map':
        return map(lambda v: v, seq)
    if shape == 'filter':
        return filter(lambda v: True, seq)
    if shape == 'deque':
        import collections
        return collections.deque(seq)
    raise ValueError('unknown shape %r' % (shape,))


# constructor arguments that go through float() / int() and therefore accept numbers given as text
_STRNUM_IDX = {'Location': (3, 4, 5, 6), 'Color': (0, 1, 2, 3), 'AnalysisPeriod': (0, 1, 2, 3, 4, 5)}


def _numtext(v, mode):
    """A number as text: 'plain' str(v), 'pad' with blanks / leading zero, 'exp' exponent notation."""
    if v is None or isinstance(v, (bool, str)):
        return v
    if mode == 'plain':
        return repr(v)
    if mode == 'pad':
        return (' %02d ' % v) if isinstance(v, int) and v >= 0 else ' %r ' % (v,)
    if mode == 'exp':
        return ('%.17e' % v) if isinstance(v, float) and v == v and abs(v) != float('inf') else repr(v)
    raise ValueError('unknown number text mode %r' % (mode,))


def build(spec):
    """Construct the real object described by `spec` (a JSON-able dict with key 'cls')."""
    L = _imp()
    c = spec['cls']
    a = spec.get('args')
    shape = spec.get('shape')
    S = (lambda seq: _shp(seq, shape)) if shape else (lambda seq: seq)
    if spec.get('strnum') and a is not None and c in _STRNUM_IDX:
        a = [_numtext(v, spec['strnum']) if i in _STRNUM_IDX[c] else v for i, v in enumerate(a)]
    if c == 'DateTime':
        return L['dt'].DateTime(a[0], a[1], a[2], a[3], bool(a[4]))
    if c == 'Date':
        return L['dt'].Date(a[0], a[1], bool(a[2]))
    if c == 'Time':
        return L['dt'].Time(a[0], a[1])
    if c == 'AnalysisPeriod':
        return L['ap'].AnalysisPeriod(*a)
    if c == 'Location':
        return L['loc'].Location(*a)
    if c == 'DataType':
        if 'generic' in spec:
            g = list(spec['generic'])
            g[2], g[3] = _num(g[2]), _num(g[3])
            if g[5] is not None:
                g[5] = {(int(k) if spec.get('int_keys') else k): v for k, v in g[5]}
            return L['GenericType'](*g)
        return _types()[spec['type']](spec.get('name'))
    if c == 'Header':
        md = spec.get('meta')
        return L['hd'].Header(build(spec['dt']), spec['unit'], build(spec['ap']),
                              None if md is None else dict(md))
    if c == 'Collection':
        names = COLL_CLASSES[spec['kind']]
        mod = L['dci'] if spec.get('immutable') else L['dc']
        klass = getattr(mod, names[1 if spec.get('immutable') else 0])
        h = build(spec['header'])
        if spec['kind'] == 'HourlyContinuous':
            obj = klass(h, S([_num(v) for v in spec['values']]))
        else:
            if spec['kind'] == 'HourlyDiscontinuous':
                dts = [L['dt'].DateTime(*d[:4], leap_year=bool(d[4])) for d in spec['datetimes']]
            elif spec['kind'] == 'MonthlyPerHour':
                dts = [tuple(d) for d in spec['datetimes']]
            else:
                dts = list(spec['datetimes'])
            obj = klass(h, S([_num(v) for v in spec['values']]), S(dts))
            obj._validated_a_period = bool(spec.get('validated', False))
        return obj
    if c == 'Color':
        return L['col'].Color(*a)
    if c == 'ColorRange':
        cols = None if spec['colors'] is None else [L['col'].Color(*x) for x in spec['colors']]
        dom = spec['domain']
        if spec.get('strnum') and dom is not None:
            dom = [_numtext(v, spec['strnum']) for v in dom]
        return L['col'].ColorRange(S(cols), S(dom), spec['continuous'])
    if c == 'Legend3DParameters':
        from ladybug_geometry.geometry3d.pointvector import Point3D, Vector3D
        from ladybug_geometry.geometry3d.plane import Plane
        bp = None if spec.get('origin') is None else Plane(Vector3D(0, 0, 1), Point3D(*spec['origin']))
        return L['lg'].Legend3DParameters(bp, spec.get('sh'), spec.get('sw'), spec.get('th'))
    if c == 'Legend2DParameters':
        return L['lg'].Legend2DParameters(*a)
    if c == 'LegendParameters':
        cols = None if spec.get('colors') is None else [L['col'].Color(*x) for x in spec['colors']]
        lp = L['lg'].LegendParameters(spec.get('min'), spec.get('max'), spec.get('segment_count'),
                                      S(cols), spec.get('title'))
        for k in ('continuous_legend', 'decimal_count', 'include_larger_smaller', 'vertical', 'font'):
            if k in spec:
                setattr(lp, k, spec[k])
        if spec.get('ordinal') is not None:
            lp.ordinal_dictionary = {int(k): v for k, v in spec['ordinal']}
        if spec.get('user_data') is not None:
            lp.user_data = dict(spec['user_data'])
        if spec.get('p3d') is not None:
            lp.properties_3d = build(spec['p3d'])
        if spec.get('p2d') is not None:
            lp.properties_2d = build(spec['p2d'])
        return lp
    if c == 'LegendParametersCategorized':
        cols = [L['col'].Color(*x) for x in spec['colors']]
        dom = spec['domain']
        if spec.get('strnum'):
            dom = [_numtext(v, spec['strnum']) for v in dom]
        lp = L['lg'].LegendParametersCategorized(S(dom), S(cols), S(spec.get('names')), spec.get('title'))
        for k in ('continuous_colors', 'continuous_legend', 'decimal_count', 'include_larger_smaller',
                  'vertical', 'font'):
            if k in spec:
                setattr(lp, k, spec[k])
        return lp
    if c == 'Legend':
        lp = None if spec.get('lp') is None else build(spec['lp'])
        return L['lg'].Legend(S(list(spec['values'])), lp)
    if c == 'DryBulbCondition':
        return L['dd'].DryBulbCondition(*a)
    if c == 'HumidityCondition':
        return L['dd'].HumidityCondition(*a)
    if c == 'WindCondition':
        return L['dd'].WindCondition(*a)
    if c == 'SkyCondition':
        date = L['dt'].Date(*spec['date'])
        k = spec['kind']
        if k == 'ASHRAEClearSky':
            return L['dd'].ASHRAEClearSky(date, *a)
        if k == 'ASHRAETau':
            return L['dd'].ASHRAETau(date, *a)
        return L['dd']._SkyCondition(date, *a)
    if c == 'DesignDay':
        return L['dd'].DesignDay(spec['name'], spec['day_type'], build(spec['location']),
                                 build(spec['db']), build(spec['hum']), build(spec['wind']),
                                 build(spec['sky']))
    if c == 'DDY':
        return L['ddy'].DDY(build(spec['location']), S([build(d) for d in spec['days']]))
    if c == 'Wea':
        loc = build(spec['location'])
        if spec.get('annual', True):
            n = (8784 if spec.get('leap') else 8760) * spec.get('timestep', 1)
            dn = [float((i * 7) % 900) for i in range(n)]
            dh = [float((i * 3) % 300) for i in range(n)]
            return _wea_select(L, L['wea'].Wea.from_annual_values(loc, S(dn), S(dh), spec.get('timestep', 1),
                                                                   bool(spec.get('leap'))), spec.get('sel') or [])
        if spec.get('ctor') is not None:
            return _wea_ctor(L, loc, spec['ctor'])
        if spec.get('ap') is not None:
            ts = spec['ap']['args'][6]
            lp = bool(spec['ap']['args'][7])
        else:
            ts, lp = spec.get('timestep', 1), bool(spec.get('leap'))
        nh = (8784 if lp else 8760) * ts
        w = L['wea'].Wea.from_annual_values(loc, [float(i % 800) for i in range(nh)],
                                            [float(i % 200) for i in range(nh)], ts, lp)
        if spec.get('ap') is not None:
            w = w.filter_by_analysis_period(build(spec['ap']))
        return _wea_select(L, w, spec.get('sel') or [])
    if c == 'EPW':
        return L['epw'].EPW(os.path.join(core.REPO, 'tests', 'assets', 'epw', spec['file']))
    if c == 'PsychrometricChart':
        from ladybug_geometry.geometry2d.pointvector import Point2D
        lp = None if spec.get('lp') is None else build(spec['lp'])
        t = build(spec['temperature']) if isinstance(spec['temperature'], dict) else spec['temperature']
        rh = build(spec['rh']) if isinstance(spec['rh'], dict) else spec['rh']
        return L['pc'].PsychrometricChart(t, rh, spec.get('pressure', 101325), lp,
                                          Point2D(*spec.get('base', (0, 0))), spec.get('x_dim', 1),
                                          spec.get('y_dim', 1500), spec.get('tmin', -20),
                                          spec.get('tmax', 50), spec.get('hrmax', 0.03),
                                          spec.get('use_ip', False))
    raise ValueError('unknown spec class %r' % (c,))


def _wea_select(L, w, sel):
    """Round 5: the public selections of a Wea, one after the other (each gives a new Wea whose steps are the
    chosen ones IN THE ORDER the selection leaves them: a period that wraps the year end puts December before
    January, `filter_by_hoys` keeps the order of the hours it is given)."""
    for st in sel:
        k = st['k']
        if k == 'ap':
            w = w.filter_by_analysis_period(L['ap'].AnalysisPeriod(*st['args']))
        elif k == 'sun_up':
            w = w.filter_by_sun_up(st.get('alt', 0))
        elif k == 'hoys':
            w = w.filter_by_hoys(list(st['hoys']))
        elif k == 'moys':
            w = w.filter_by_moys(list(st['moys']))
        elif k == 'pattern':
            w = w.filter_by_pattern([bool(b) for b in st['pattern']])
        else:
            raise ValueError('unknown Wea selection %r' % (k,))
    return w


def _wea_ctor(L, loc, c):
    """Round 5: a Wea handed two aligned discontinuous collections through its public constructor - steps in
    ANY order (the datetimes as listed), headers as every Wea constructor writes them (source / country / city)."""
    from ladybug.datatype.energyflux import DirectNormalIrradiance, DiffuseHorizontalIrradiance
    ts, lp = c.get('ts', 1), bool(c.get('leap'))
    a = c.get('ap')
    ap = L['ap'].AnalysisPeriod(*a) if a else L['ap'].AnalysisPeriod(timestep=ts, is_leap_year=lp)
    md = {'source': loc.source, 'country': loc.country, 'city': loc.city}
    dts = [L['dt'].DateTime(d[0], d[1], d[2], d[3], lp) for d in c['dts']]
    n = len(dts)
    dn = [float((i * 37 + 5) % 900) for i in range(n)]
    dh = [float((i * 11 + 3) % 300) + 0.5 for i in range(n)]
    HD = L['dc'].HourlyDiscontinuousCollection
    x = HD(L['hd'].Header(DirectNormalIrradiance(), 'W/m2', ap, dict(md)), dn, list(dts))
    y = HD(L['hd'].Header(DiffuseHorizontalIrradiance(), 'W/m2', ap, dict(md)), dh, list(dts))
    x._validated_a_period = y._validated_a_period = bool(c.get('validated', False))
    return L['wea'].Wea(loc, x, y)


def reader_class(spec, obj):
    """The class whose from_dict reads the dictionary of `obj` back."""
    L = _imp()
    c = spec['cls']
    if c == 'DataType':
        return L['DataTypeBase']
    if c == 'SkyCondition':
        return L['dd']._SkyCondition
    return type(obj)


NO_EQ = ('ColorRange', 'EPW', 'PsychrometricChart')
_NO_DEEPCOPY = ('EPW', 'PsychrometricChart', 'Wea')      # heavy objects: deep copies cost seconds


def jdump(d):
    return json.dumps(d, sort_keys=True)


def same(spec, a, b):
    """Equality of two objects as the property means it."""
    if type(a) is not type(b):
        return False
    if spec['cls'] in NO_EQ:     # compared through their dictionaries, as Python values (0 == 0.0)
        return json.loads(json.dumps(a.to_dict())) == json.loads(json.dumps(b.to_dict()))
    if spec['cls'] == 'Legend3DParameters' or spec['cls'] == 'Legend2DParameters':
        return a == b and jdump(a.to_dict()) == jdump(b.to_dict())
    return a == b and not (a != b)


def deep_shuffle(v, rng):
    if isinstance(v, dict):
        ks = list(v.keys())
        rng.shuffle(ks)
        return {k: deep_shuffle(v[k], rng) for k in ks}
    if isinstance(v, list):
        return [deep_shuffle(x, rng) for x in v]
    return v


# ---------------------------------------------------------------------------------------------
# property oracle


def _dt_facts(dt):
    """Facts about a data type spec that characterise the known data-type defects."""
    if 'generic' in dt:
        return {'dt': 'generic', 'dt_int_keys': bool(dt.get('int_keys') and dt['generic'][5])}
    name = dt.get('name')
    if name is None:
        kind = 'default'
    elif name.title().replace(' ', '') == dt['type']:
        kind = 'titles_to_class'
    else:
        kind = 'custom'
    return {'dt': 'standard', 'dt_name': kind}


DICT_OPS = ('dict_json', 'unknown_key', 'json_file', 'pkl')


def _wea_rederived(spec):
    """Does the Wea lie in the domain of the recorded limitation of its dictionary form?  (The dictionary
    stores location, values, timestep, year kind and the datetimes; the header period, the class of the two
    collections and their validated flag are RE-DERIVED by the reader: any Wea with discontinuous collections
    that are flagged as validated, or whose header period is not the one the reader derives, lies in it.)
    A Wea built from unflagged discontinuous collections over the whole year does not."""
    if spec.get('ctor') is not None:
        return bool(spec['ctor'].get('validated')) or bool(spec['ctor'].get('ap'))
    if spec.get('sel'):
        return True
    if spec.get('annual', True):
        return False
    return (spec['ap']['args'][2], spec['ap']['args'][5]) != (0, 23)


def _wea_differs(a, b):
    """Round 5: WHAT differs between two Weas, part by part (the recorded limitation covers the re-derived parts
    only: never the location, the values, the datetimes, their order, the timestep or the year kind)."""
    out = []
    if not (a.location == b.location):
        out.append('location')
    for nm in ('direct_normal_irradiance', 'diffuse_horizontal_irradiance'):
        ca, cb = getattr(a, nm), getattr(b, nm)
        va, vb = list(ca.values), list(cb.values)
        if va != vb or [type(v) for v in va] != [type(v) for v in vb]:
            out.append('values')
        da, db = list(ca.datetimes), list(cb.datetimes)
        if da != db or [d.leap_year for d in da] != [d.leap_year for d in db]:
            out.append('datetimes')
        ha, hb = ca.header, cb.header
        if ha.analysis_period != hb.analysis_period:
            out.append('header_period')
        if str(ha.data_type) != str(hb.data_type) or ha.unit != hb.unit or ha.metadata != hb.metadata:
            out.append('header_other')
        if type(ca) is not type(cb):
            out.append('collection_class')
        if ca.validated_a_period != cb.validated_a_period:
            out.append('validated')
    if a.timestep != b.timestep:
        out.append('timestep')
    if a.is_leap_year != b.is_leap_year:
        out.append('leap')
    out = sorted(set(out))
    if not out:
        return {'differs': 'eq_only', 'lost': 'content'}
    lost = 'flag' if out == ['validated'] else \
        'period' if set(out) <= {'validated', 'header_period', 'collection_class'} else 'content'
    return {'differs': '+'.join(out), 'lost': lost}


def _differs(spec, a, b):
    """Extra signature facts of an `unequal` outcome inside a recorded-limitation domain, so that the recorded
    finding matches only ITS deviation and not whatever else goes wrong on the same instances."""
    try:
        if spec['cls'] == 'Wea':
            return _wea_differs(a, b)
        return {'differs': 'eq_only' if jdump(json.loads(json.dumps(a.to_dict()))) ==
                jdump(json.loads(json.dumps(b.to_dict()))) else 'dictionary'}
    except Exception as e:
        return {'differs': 'raises ' + type(e).__name__}


def root_of(op, inp):
    """Which known limitation domain (known_findings.d/C07.json) the case lies in: 'none', the
    name of exactly one domain, or 'multiple:...' (never generated: a failure there could not be
    attributed).  Computed from the input alone."""
    spec = inp['spec']
    c = spec['cls']
    devs = set()
    dt = spec if c == 'DataType' else spec.get('dt') if c == 'Header' else \
        spec['header']['dt'] if c == 'Collection' else None
    textual = op in ('text', 'csv')
    if dt is not None:
        f = _dt_facts(dt)
        if f['dt'] == 'generic':
            if textual:
                devs.add('generic_text')
            if f['dt_int_keys'] and c == 'DataType' and op in DICT_OPS + ('text',):
                devs.add('generic_int_keys')
        else:
            if f['dt_name'] == 'titles_to_class' and (op in DICT_OPS or textual):
                devs.add('name_titles_to_class')
            if f['dt_name'] == 'custom' and textual:
                devs.add('custom_name_text')
    lpc = spec if c == 'LegendParametersCategorized' else \
        spec.get('lp') if c == 'Legend' and (spec.get('lp') or {}).get('cls') == 'LegendParametersCategorized' else None
    if lpc is not None and not lpc.get('names') and op in DICT_OPS:
        devs.add('lpc_default_names')
    if c == 'Wea' and op in DICT_OPS and _wea_rederived(spec):
        devs.add('wea_discontinuous')
    if textual and c in ('Header', 'Collection'):
        mk = _meta_kind((spec if c == 'Header' else spec['header']).get('meta'))
        if mk == 'nonstring':
            devs.add('csv_meta_nonstring')
        if mk == 'separator':
            devs.add('csv_meta_separator')
    if op == 'csv' and spec['kind'] != 'HourlyContinuous' and not spec.get('validated'):
        devs.add('csv_unvalidated')
    if op == 'csv' and any(m['header']['ap']['args'] != spec['header']['ap']['args'] for m in inp.get('more', [])):
        devs.add('csv_shared_period')       # round 6: the file has ONE cell for the analysis period (the first member's)
    for m in inp.get('more', []):
        r = root_of(op, {'spec': m})
        if r != 'none':
            devs.add(r)
    if not devs:
        return 'none'
    if len(devs) == 1:
        return sorted(devs)[0]
    return 'multiple:' + '+'.join(sorted(devs))


def _sig(spec, form, **kw):
    s = {'cls': spec['cls'], 'form': form}
    if spec['cls'] == 'Collection':
        s['kind'] = spec['kind']
        s.update(_dt_facts(spec['header']['dt']))
    if spec['cls'] == 'Header':
        s.update(_dt_facts(spec['dt']))
    if spec['cls'] == 'DataType':
        s.update(_dt_facts(spec))
    s.update(kw)
    return s


def _describe(x):
    try:
        return jdump(x.to_dict())[:400]
    except Exception:
        return repr(x)[:400]


UNCONSTRUCTIBLE = []


def _check_plain(op, inp):
    """op = serial form; inp = {'spec': ..., 'seed': int}."""
    import random
    spec = inp['spec']
    rng = random.Random(inp.get('seed', 0))
    try:
        x = build(spec)
    except Exception:
        UNCONSTRUCTIBLE.append(spec['cls'])     # the spec describes no instance: nothing to check
        return None
    rc = reader_class(spec, x) if op not in ('json_float',) else None

    def fail(form, required, observed, **kw):
        return {'required': required, 'observed': observed,
                'sig': _sig(spec, form, root=root_of(op, inp), **kw)}

    def attempt(form, f, **kw):
        try:
            back = f()
        except Exception as e:
            return fail(form, _describe(x), 'raises %s: %s' % (type(e).__name__, str(e)[:200]),
                        outcome='raises', **kw)
        if not same(spec, x, back):
            if root_of(op, inp) != 'none':
                kw = dict(kw, **_differs(spec, x, back))
                if kw.get('lost') == 'content' or kw.get('differs') == 'dictionary':
                    return fail(form, _describe(x), 'differs in: %s; %s' % (kw['differs'], _describe(back)),
                                outcome='unequal', **kw)
            return fail(form, _describe(x), _describe(back), outcome='unequal', **kw)
        return None

    if op == 'dict_json':
        d = x.to_dict()
        js = json.dumps(d)
        # round 5: a failure that a recorded finding explains does not end the case - the clauses after it
        # (same dictionary again, plain dictionary, key order) are still owed; the first UNEXPLAINED failure
        # is the answer, else the first explained one
        explained = []

        def settle(r):
            if r is None:
                return False
            if r['sig'].get('outcome') == 'raises' or _known_hit(dict(r['sig'], op=op)) is None:
                return True
            explained.append(r)
            return False
        r = attempt('dict_json', lambda: rc.from_dict(json.loads(js)))
        if settle(r):
            return r
        back = rc.from_dict(json.loads(js))
        # "the same dictionary": Python equality of the two dictionaries (12 == 12.0)
        if json.loads(json.dumps(back.to_dict())) != json.loads(js):
            r = fail('fixed_point', jdump(json.loads(js))[:400], jdump(back.to_dict())[:400])
            if settle(r):
                return r
        # the plain dictionary (no JSON) must read back too
        r = attempt('dict_plain', lambda: rc.from_dict(copy.deepcopy(x.to_dict())))
        if settle(r):
            return r
        # key order
        sh = deep_shuffle(json.loads(js), rng)
        r = attempt('key_order', lambda: rc.from_dict(sh))
        if settle(r):
            return r
        return explained[0] if explained else None
    if op == 'unknown_key':
        d = json.loads(json.dumps(x.to_dict()))
        d['zz_unknown_key'] = {'a': [1, 2]}
        return attempt('unknown_key', lambda: rc.from_dict(d))
    if op == 'duplicate':
        r = attempt('duplicate', lambda: x.duplicate())
        if r:
            return r
        if hasattr(type(x), '__copy__'):
            r = attempt('copy', lambda: copy.copy(x))
            if r:
                return r
        if spec['cls'] not in _NO_DEEPCOPY:
            return attempt('deepcopy', lambda: copy.deepcopy(x))
        return None
    if op == 'pickle':
        return attempt('pickle', lambda: pickle.loads(pickle.dumps(x)))
    if op == 'array':
        # the array form (month, day, hour, minute[, 1]) that the dictionaries of discontinuous collections,
        # Wea objects and sky conditions embed; it must read back on its own, also after JSON
        arr = x.to_array()
        r = attempt('array', lambda: type(x).from_array(json.loads(json.dumps(arr))), leap=bool(spec['args'][-1])
                    if spec['cls'] != 'Time' else False)
        if r:
            return r
        return attempt('array_plain', lambda: type(x).from_array(arr))
    if op == 'text':
        L = _imp()
        c = spec['cls']
        if c == 'DateTime':     # str() is what the CSV files carry; the reader is told the year kind
            return attempt('text', lambda: type(x).from_date_time_string(str(x), x.leap_year))
        if c == 'Date':
            return attempt('text', lambda: type(x).from_date_string(str(x), x.leap_year))
        if c == 'Time':
            return attempt('text', lambda: type(x).from_time_string(str(x)))
        if c == 'AnalysisPeriod':
            return attempt('text', lambda: type(x).from_string(str(x)))
        if c == 'DataType':
            return attempt('text', lambda: L['DataTypeBase'].from_string(x.to_string()))
        if c == 'Location':
            # to_idf prints str(float): all five IDF fields must survive
            def rd():
                y = type(x).from_idf(x.to_idf())
                # state / country / station / source are not part of the IDF form
                return type(x)(y.city, x.state, x.country, y.latitude, y.longitude, y.time_zone,
                               y.elevation, x.station_id, x.source)
            return attempt('text', rd)
        if c == 'Color':
            def rd():
                y = type(x).from_hex(x.to_hex())
                return type(x)(y.r, y.g, y.b, x.a)
            return attempt('text', rd)
        if c == 'Header':
            def rd():
                return type(x).from_csv_strings(x.to_csv_strings(bool(inp.get('per_row'))),
                                                x.analysis_period)
            return attempt('text', rd, meta=_meta_kind(spec.get('meta')))
        raise ValueError('no text form for ' + c)
    if op in ('csv', 'json_file', 'pkl'):
        L = _imp()
        du = L['du']
        tmp = tempfile.mkdtemp(prefix='c07_')
        try:
            xs = [x] + [build(s) for s in inp.get('more', [])]
            before = [jdump(a.to_dict()) for a in xs]
            kind = {'csv': 'csv', 'json_file': 'json', 'pkl': 'pkl'}[op]
            extra = {}
            if op == 'csv':
                extra = {'meta': _meta_kind(spec['header'].get('meta')),
                         'validated': bool(spec.get('validated', spec['kind'] == 'HourlyContinuous')),
                         'leap': bool(spec['header']['ap']['args'][7])}
            shape = inp.get('shape')
            # rare branches of the writers: a folder that does not exist yet, a file name that already
            # carries the extension (in capitals too)
            folder = os.path.join(tmp, 'new', 'sub dir') if inp.get('newdir') else tmp
            fname = inp.get('fname') or 'data'
            if inp.get('newdir') or inp.get('fname'):
                extra['file_branch'] = '%s/%s' % ('newdir' if inp.get('newdir') else 'dir', 'ext' if '.' in fname else 'noext')
            if shape:
                extra['shape'] = shape
                try:
                    path = getattr(du, 'collections_to_' + kind)(_shp(xs, shape), folder, fname)
                except Exception:
                    if shape in ('list', 'tuple'):
                        raise_again = True
                    else:
                        return None        # a series that cannot be indexed / measured is refused: loud, not wrong
                else:
                    raise_again = False
                if raise_again:
                    return fail(op, _describe(x), 'the writer refuses a %s of collections' % shape,
                                outcome='raises', **extra)
            try:
                if not shape:
                    path = getattr(du, 'collections_to_' + kind)(xs, folder, fname)
                if not os.path.isfile(path) or os.path.dirname(os.path.abspath(path)) != os.path.abspath(folder) \
                        or not os.path.basename(path).lower().startswith(fname.lower().split('.')[0]):
                    return fail(op, 'a file %r in the folder asked for' % fname, 'path returned: %r' % path,
                                outcome='path', **extra)
                back = getattr(du, 'collections_from_' + kind)(path)
            except Exception as e:
                return fail(op, _describe(x), 'raises %s: %s' % (type(e).__name__, str(e)[:200]),
                            outcome='raises', **extra)
            if len(back) != len(xs):
                return fail(op, len(xs), len(back), outcome='count', **extra)
            if inp.get('series'):
                extra['series'] = inp['series']
            shared_period = root_of(op, inp) == 'csv_shared_period'
            explained = []
            for i_m, (a, b) in enumerate(zip(xs, back)):
                if len(xs) > 1:
                    extra['member'] = 'first' if i_m == 0 else 'later'
                # file readers build mutable collections: compare with the mutable form
                a2 = a.to_mutable() if not a.is_mutable else a
                if shared_period and type(a2) is type(b) and a2 != b:
                    # recorded limitation C07-csv-one-period-per-file excuses the header PERIOD of a later member
                    # (read back as the first member's) and nothing else
                    ha, hb = a2.header, b.header
                    only_period = (ha.data_type == hb.data_type and ha.unit == hb.unit and ha.metadata == hb.metadata and
                                   hb.analysis_period == xs[0].header.analysis_period and
                                   a2.values == b.values and a2.datetimes == b.datetimes and
                                   a2.validated_a_period == b.validated_a_period)
                    r_ = fail(op, _describe(a2), _describe(b), outcome='header',
                              lost='period' if only_period else 'content', **extra)
                    if only_period and i_m > 0:
                        explained.append(r_)
                        continue
                    return r_
                if not (type(a2) is type(b) and a2 == b):
                    what = 'unequal'
                    if a2.header != b.header:
                        what = 'header'
                    elif a2.datetimes != b.datetimes:
                        what = 'datetimes'
                    elif a2.values != b.values:
                        what = 'values'
                    elif a2.validated_a_period != b.validated_a_period:
                        what = 'validated'
                    return fail(op, _describe(a2), _describe(b), outcome=what, **extra)
            if explained:
                return explained[0]
            if len(xs) > 1:
                # round 6: the writer leaves the members as they were, and a member's place in a shared file
                # changes nothing: it reads back to what it reads back to from a file of its own
                for i_m, (d0, a) in enumerate(zip(before, xs)):
                    if jdump(a.to_dict()) != d0:
                        return fail(op, d0[:400], jdump(a.to_dict())[:400], outcome='writer_changed_member',
                                    **dict(extra, member='first' if i_m == 0 else 'later'))
                for i_m, (s_, b) in enumerate(zip([spec] + list(inp.get('more', [])), back)):
                    try:
                        p1 = getattr(du, 'collections_to_' + kind)([build(s_)], tmp, 'alone_%d' % i_m)
                        alone = getattr(du, 'collections_from_' + kind)(p1)
                    except Exception as e:
                        return fail(op, _describe(b), 'alone: raises %s: %s' % (type(e).__name__, str(e)[:200]),
                                    outcome='raises', **dict(extra, member='alone'))
                    if len(alone) != 1 or jdump(alone[0].to_dict()) != jdump(b.to_dict()):
                        return fail(op, 'alone in a file: ' + (_describe(alone[0]) if alone else 'nothing'),
                                    'in the shared file: ' + _describe(b), outcome='depends_on_siblings',
                                    **dict(extra, member='first' if i_m == 0 else 'later'))
            return None
        finally:
            shutil.rmtree(tmp, ignore_errors=True)
    raise ValueError('unknown op ' + op)


def _meta_kind(md):
    if not md:
        return 'empty'
    for k, v in (md.items() if isinstance(md, dict) else md):
        if not isinstance(v, str) or not isinstance(k, str):
            return 'nonstring'
        if any(s in v or s in k for s in (',', ' | ', ': ', '\n')) or v != v.strip() or k != k.strip():
            return 'separator'          # (blanks at the edges are stripped by the reader: same root)
    return 'strings'


# ---------------------------------------------------------------------------------------------
# histories on ONE object (round 3): setters, in-place operations, refused operations, repeated
# reads in random order; every step is followed by the observables of the property.
#
# The *shadow* of a history is a plain-data spec: the public state the user has established
# (initial constructor arguments, then every ACCEPTED assignment).  It has no hidden slots: that is
# the specification.  After every step the object must (1) read back from its dictionary / copy equal
# to itself, write the same dictionary again, and (2) be equal to - and write the same dictionary
# as - a fresh object built from the shadow.  An operation the code refuses (raises) leaves the
# shadow, and therefore every observable, as before.
#
# Producers and their consumers (every consumer is exercised by the correspondence or the oracle;
# a consistent change of a producer and ONE consumer is caught by the others):
#   DateTime.to_array/from_array   <- HourlyDiscontinuous(+Immutable).to_dict/from_dict, Wea.to_dict/from_dict
#                                     (non-annual, leap and non-leap), op `array` itself
#   Date.to_array/from_array       <- _SkyCondition/ASHRAEClearSky/ASHRAETau dict forms, DesignDay, DDY, op `array`
#   Time.to_array/from_array       <- op `array`
#   str(DateTime)/str(Date)        <- datautil CSV files (datetime_strings), op `text` (from_*_string)
#   AnalysisPeriod dict / text     <- Header, every collection, CSV files (from_string), Wea header, psych chart
#   Location dict                  <- DesignDay, DDY, Wea, EPW; Location.to_idf/from_idf (op text)
#   DataType dict / text           <- Header -> collections -> Wea / EPW / psych chart; Header CSV strings
#   Header dict / CSV strings      <- ten collection classes, datautil csv/json/pkl files
#   Color dict                     <- ColorRange, LegendParameters(+Categorized), Legend
#   LegendParameters dict          <- Legend, PsychrometricChart
#   collection dict                <- datautil json files, PsychrometricChart, EPW
#   __copy__/duplicate of a part   <- duplicate of every container (Header in collections, Location in
#                                     DesignDay/DDY/Wea, conditions in DesignDay, parameters in Legend)

_ARGIDX = {
    'Location': {'city': 0, 'state': 1, 'country': 2, 'latitude': 3, 'longitude': 4, 'time_zone': 5,
                 'elevation': 6, 'station_id': 7, 'source': 8},
    'Color': {'r': 0, 'g': 1, 'b': 2, 'a': 3},
    'DryBulbCondition': {'dry_bulb_max': 0, 'dry_bulb_range': 1},
    'HumidityCondition': {'humidity_type': 0, 'humidity_value': 1, 'barometric_pressure': 2, 'rain': 3,
                          'snow_on_ground': 4},
    'WindCondition': {'wind_speed': 0, 'wind_direction': 1},
}
_ARGDEF = {
    'Location': [None, None, None, 0, 0, None, 0, None, None],
    'Color': [0, 0, 0, 255],
    'DryBulbCondition': [None, None, 'DefaultMultipliers', ''],
    'HumidityCondition': [None, None, 101325, False, False, '', ''],
    'WindCondition': [None, 0],
}
_SKY = {
    'ASHRAEClearSky': ({'clearness': 0, 'daylight_savings': 1}, [1, False]),
    'ASHRAETau': ({'tau_b': 0, 'tau_d': 1, 'use_2017': 2, 'daylight_savings': 3}, [None, None, False, False]),
    'SkyCondition': ({'daylight_savings': 0}, [False, '', '']),
}
_BOOL_ATTRS = ('rain', 'snow_on_ground', 'daylight_savings', 'use_2017', 'include_larger_smaller')
_SUB = {      # attribute of a container -> key of the part's spec
    'DesignDay': {'location': 'location', 'dry_bulb_condition': 'db', 'humidity_condition': 'hum',
                  'wind_condition': 'wind', 'sky_condition': 'sky'},
    'DDY': {'location': 'location'},
    'Wea': {'location': 'location'},
    'Legend': {'legend_parameters': 'lp'},
}
_LP_KEYS = ('min', 'max', 'segment_count', 'colors', 'title', 'continuous_legend', 'decimal_count',
            'include_larger_smaller', 'vertical', 'font', 'ordinal_dictionary', 'user_data')
_LPC_KEYS = {'domain': 'domain', 'colors': 'colors', 'category_names': 'names', 'title': 'title',
             'continuous_colors': 'continuous_colors', 'continuous_legend': 'continuous_legend',
             'decimal_count': 'decimal_count', 'include_larger_smaller': 'include_larger_smaller',
             'vertical': 'vertical', 'font': 'font'}


def _realize(v):
    """Plain data of an operation argument -> the Python value handed to the real code."""
    if isinstance(v, dict):
        if 'cls' in v:
            return build(v)
        if 'colors' in v and len(v) == 1:
            L = _imp()
            return None if v['colors'] is None else [L['col'].Color(*c) for c in v['colors']]
        if 'pairs' in v:
            return {(int(k) if v.get('int_keys') else k): x for k, x in v['pairs']}
        if 'specs' in v:
            return [build(s) for s in v['specs']]
        if 'plain' in v:
            return copy.deepcopy(v['plain'])
    return copy.deepcopy(v)


def _pad(spec):
    a = list(spec.get('args') or [])
    d = _ARGDEF[spec['cls']] if spec['cls'] != 'SkyCondition' else _SKY[spec['kind']][1]
    return a + d[len(a):]


def shadow_init(spec):
    """Resolve what the constructor resolves from the other public arguments (no hidden state)."""
    s = copy.deepcopy(spec)
    c = s['cls']
    if c == 'Location':
        a = _pad(s)
        if a[5] is None:
            a[5] = round(float(a[4] or 0) / 15)
        s['args'] = a
    elif c in _ARGDEF or c == 'SkyCondition':
        s['args'] = _pad(s)
    for k in _SUB.get(c, {}).values():
        if isinstance(s.get(k), dict):
            s[k] = shadow_init(s[k])
    if c == 'DDY':
        s['days'] = [shadow_init(d) for d in s['days']]
    return s


def shadow_apply(spec, op):
    """The spec after an ACCEPTED operation (pure; the model of the history)."""
    s = copy.deepcopy(spec)
    c = s['cls']
    k = op['k']
    if k == 'read':
        return s
    if k == 'set' and '.' in op['attr']:
        head, rest = op['attr'].split('.', 1)
        if c == 'Collection' and head == 'header':
            s['header'] = shadow_apply(s['header'], dict(op, attr=rest))
            return s
        key = _SUB[c][head]
        s[key] = shadow_apply(s[key], dict(op, attr=rest))
        if c == 'DDY':           # the days share the DDY's location object
            for d in s['days']:
                d['location'] = copy.deepcopy(s[key])
        return s
    v = op.get('v')
    if k == 'set':
        a = op['attr']
        if a in _BOOL_ATTRS and not isinstance(v, dict):
            v = bool(v)
        if c == 'Location':
            if a == 'time_zone' and v is None:
                v = round(float(s['args'][4] or 0) / 15)
            s['args'][_ARGIDX[c][a]] = v
        elif c == 'Color':
            s['args'][_ARGIDX[c][a]] = int(v)
        elif c in _ARGIDX:
            s['args'][_ARGIDX[c][a]] = v
        elif c == 'SkyCondition':
            if a == 'date':
                s['date'] = list(v['args'])
            else:
                s['args'][_SKY[s['kind']][0][a]] = v
        elif c == 'Header':
            s['meta'] = None if v is None else dict(v['plain'])
        elif c == 'Collection':
            s['values'] = list(v['plain'])
        elif c == 'ColorRange':
            if a == 'colors':
                s['colors'] = v['colors']
            else:
                s['domain'] = None if v is None else list(v['plain'])
        elif c == 'LegendParameters':
            if a == 'colors':
                s['colors'] = v['colors']
            elif a == 'ordinal_dictionary':
                s['ordinal'] = None if v is None else [list(p) for p in v['pairs']]
            elif a == 'user_data':
                s['user_data'] = None if v is None else dict(v['plain'])
            else:
                s[a] = v
        elif c == 'LegendParametersCategorized':
            if a == 'colors':
                s['colors'] = v['colors']
            elif a in ('domain', 'category_names'):
                s[_LPC_KEYS[a]] = None if v is None else list(v['plain'])
            else:
                s[_LPC_KEYS[a]] = v
        elif c == 'DesignDay':
            if a in _SUB[c]:
                s[_SUB[c][a]] = shadow_init(v)
            else:
                s[a] = v
        elif c == 'DDY':
            if a == 'location':
                s['location'] = shadow_init(v)
                for d in s['days']:
                    d['location'] = copy.deepcopy(s['location'])
            else:
                s['days'] = [shadow_init(d) for d in v['specs']]
                for d in s['days']:
                    d['location'] = copy.deepcopy(s['location'])
        elif c == 'Wea':
            s['location'] = shadow_init(v)
        else:
            raise ValueError('no shadow for %s.%s' % (c, a))
        return s
    if k == 'setitem':
        s['values'][op['i']] = v
        return s
    if k == 'convert':
        s['values'] = list(op['_values'])
        s['header']['unit'] = op['_unit']
        return s
    raise ValueError('unknown history op %r' % (k,))


def _target(x, path):
    for p in path:
        x = getattr(x, p)
    return x


def real_apply(x, op):
    """Perform the operation on the real object (may raise: refused)."""
    k = op['k']
    if k == 'set':
        path = op['attr'].split('.')
        setattr(_target(x, path[:-1]), path[-1], _realize(op.get('v')))
    elif k == 'setitem':
        x[op['i']] = op['v']
    elif k == 'convert':
        if op['name'] == 'convert_to_unit':
            x.convert_to_unit(op['unit'])
        else:
            getattr(x, op['name'])()
    elif k == 'read':
        _read(x, op['what'])
    elif k == 'poke':
        # edit in place a container the object hands out
        cont = _target(x, op['path'].split('.'))
        if isinstance(cont, dict):
            cont[op['key']] = op['v']
        elif isinstance(cont, list):
            cont.append(op['v'])
        else:
            raise TypeError('not editable in place')
    else:
        raise ValueError('unknown history op %r' % (k,))


READS = {
    'DateTime': ['hoy', 'moy', 'doy', 'int_hoy', 'float_hour', 'date', 'time', 'leap_year', 'to_array', '__str__'],
    'Date': ['doy', 'leap_year', 'to_array', '__str__'],
    'AnalysisPeriod': ['datetimes', 'hoys', 'moys', 'hoys_int', 'doys_int', 'months_int', 'months_per_hour',
                       'is_annual', 'is_reversed', 'is_leap_year', '__len__', '__str__', 'st_time', 'end_time',
                       'minute_intervals'],
    'Location': ['meridian', 'is_default', 'to_idf', '__repr__', '__hash__'],
    'DataType': ['name', 'units', 'si_units', 'ip_units', 'min', 'max', 'abbreviation', 'unit_descr',
                 'point_in_time', 'cumulative', 'to_string', '__hash__'],
    'Header': ['to_tuple', 'to_csv_strings', '__repr__', 'metadata', 'unit', 'data_type', 'analysis_period'],
    'Collection': ['values', 'datetimes', 'bounds', 'min', 'max', 'average', 'median', 'total',
                   'datetime_strings', 'validated_a_period', 'is_mutable', 'is_continuous', '__len__',
                   '__repr__', 'to_immutable', 'to_mutable', 'get_aligned_collection', 'timestep_text',
                   'moys_dict', 'to_ip', 'to_si', 'average_monthly', 'group_by_month'],
    'Color': ['to_hex', '__repr__', '__hash__'],
    'ColorRange': ['colors', 'domain', 'continuous_colors', '__repr__', '__len__'],
    'LegendParameters': ['is_segment_count_default', 'are_colors_default', 'is_title_default', '__repr__',
                         'properties_3d', 'properties_2d', 'colors', 'ordinal_dictionary'],
    'LegendParametersCategorized': ['category_names', 'min', 'max', 'segment_count', '__repr__'],
    'Legend': ['segment_text', 'segment_numbers', 'color_range', 'value_colors', 'segment_colors', 'title',
               'segment_length', 'is_min_default', 'is_max_default', 'legend_parameters', '__repr__'],
    'DryBulbCondition': ['hourly_values', '__repr__'],
    'HumidityCondition': ['hourly_pressure', '__repr__'],
    'WindCondition': ['hourly_values', '__repr__'],
    'SkyCondition': ['hourly_sky_cover', '__repr__', 'date'],
    'DesignDay': ['analysis_period', 'hourly_dry_bulb', 'hourly_wind_speed', 'hourly_barometric_pressure',
                  'to_idf', '__repr__', 'hourly_datetimes'],
    'DDY': ['to_file_string', '__repr__', 'design_days'],
    'Wea': ['header', 'datetimes', 'hoys', 'analysis_period', 'is_annual', 'is_continuous', 'is_leap_year',
            'timestep', 'direct_normal_irradiance', 'diffuse_horizontal_irradiance', 'metadata',
            'enforce_on_hour'],
    'EPW': ['location', 'is_leap_year', 'is_data_loaded', 'is_header_loaded', 'header', 'years',
            'dry_bulb_temperature', 'metadata', 'annual_heating_design_day_996', 'ashrae_climate_zone',
            'monthly_ground_temperature', 'daylight_savings_start', 'comments_1', 'is_ip'],
    'PsychrometricChart': ['chart_border', 'temperature_lines', 'rh_lines', 'enthalpy_lines', 'wb_lines',
                           'hr_lines', 'legend', 'colored_mesh', 'container', 'time_matrix', 'hour_values',
                           'temperature_labels', 'title_text', 'x_axis_text', 'data_points', 'legend_parameters'],
}


def _read(x, what):
    """Touch one public observable (return value ignored: reads are checked through the serial forms)."""
    try:
        if what == '__str__':
            return str(x)
        if what == '__repr__':
            return repr(x)
        if what == '__len__':
            return len(x)
        if what == '__hash__':
            return hash(x)
        v = getattr(x, what)
        if callable(v):
            v = v()
        if hasattr(v, '__iter__') and not isinstance(v, (str, dict, list, tuple)):
            v = list(v)
        return v
    except Exception:
        return None      # an observable that is not defined for this instance is not a serial form


def _obs(spec, x, rc):
    """The observables the property speaks about, on the history object: None | (outcome, detail)."""
    try:
        d = json.loads(json.dumps(x.to_dict()))
    except Exception as e:
        return ('to_dict_raises', '%s: %s' % (type(e).__name__, str(e)[:160])), None
    try:
        back = rc.from_dict(copy.deepcopy(d))
    except Exception as e:
        return ('rt_raises', '%s: %s' % (type(e).__name__, str(e)[:160])), d
    if not same(spec, x, back):
        return ('rt_unequal', _describe(back)), d
    try:
        if json.loads(json.dumps(back.to_dict())) != d:
            return ('fixed_point', jdump(back.to_dict())[:300]), d
    except Exception as e:
        return ('fixed_point', 'raises %s' % type(e).__name__), d
    if hasattr(x, 'duplicate'):
        try:
            dup = x.duplicate()
        except Exception as e:
            return ('dup_raises', '%s: %s' % (type(e).__name__, str(e)[:160])), d
        if not same(spec, x, dup):
            return ('dup_unequal', _describe(dup)), d
    return None, d


# classes whose fresh twin is compared after every step (cheap to build), at the end only, or never
# (ColorRange: the 2-stop re-mapping makes the stored domain a function of the colours at the time of
# the assignment; its public state is what `duplicate()` reads, which is compared)
_FRESH_END_ONLY = ('Wea',)
_FRESH_NEVER = ('ColorRange', 'EPW', 'PsychrometricChart')


def run_history(spec, ops):
    """-> None | dict(step, outcome, detail, attr).  Pure function of (spec, ops)."""
    x = build(spec)
    rc = reader_class(spec, x)
    c = spec['cls']
    sh = shadow_init(spec)
    bad, d_prev = _obs(spec, x, rc)
    if bad:
        return None      # the fresh object itself does not round trip: the plain ops report that
    for i, op in enumerate(ops):
        attr = op.get('attr') or op.get('name') or op.get('what') or op['k']
        refused = False
        try:
            if op['k'] == 'convert':
                # expected result of the conversion, from a fresh twin (out of place)
                tw = build(sh)
                if op['name'] == 'convert_to_unit':
                    nv = tw.header.data_type.to_unit(list(tw.values), op['unit'], tw.header.unit)
                    nu = op['unit']
                elif op['name'] == 'convert_to_ip':
                    nv, nu = tw.header.data_type.to_ip(list(tw.values), tw.header.unit)
                else:
                    nv, nu = tw.header.data_type.to_si(list(tw.values), tw.header.unit)
                op = dict(op, _values=list(nv), _unit=nu)
        except Exception:
            pass             # the conversion is not defined: the real call below must refuse too
        try:
            real_apply(x, op)
        except Exception:
            refused = True
        if not refused:
            if op['k'] == 'convert' and '_values' not in op:
                return None  # accepted a conversion the data type refuses out of place: not a C07 matter
            try:
                sh = shadow_apply(sh, op)
            except Exception:
                return None
        bad, d = _obs(spec, x, rc)
        kind = 'refused' if refused else ('read' if op['k'] == 'read' else 'accepted')
        if bad:
            return {'step': i, 'outcome': bad[0], 'detail': bad[1], 'attr': attr, 'after': kind}
        if (refused or op['k'] == 'read') and d != d_prev:
            return {'step': i, 'outcome': 'changed_by_' + kind, 'attr': attr, 'after': kind,
                    'detail': 'dictionary before: %s | after: %s' % (jdump(d_prev)[:200], jdump(d)[:200])}
        d_prev = d
        last = i == len(ops) - 1
        if c in _FRESH_NEVER or (c in _FRESH_END_ONLY and not last):
            continue
        try:
            y = build(sh)
        except Exception:
            return None      # the constructor refuses what the setter accepted: no fresh twin to compare with
        try:
            dy = json.loads(json.dumps(y.to_dict()))
        except Exception:
            return None
        if dy != d or not same(spec, x, y):
            return {'step': i, 'outcome': 'differs_from_fresh', 'attr': attr, 'after': kind,
                    'detail': 'object after the history: %s | fresh object from the same public state: %s'
                    % (jdump(d)[:220], jdump(dy)[:220])}
    return None


def _hist_target(spec, attr):
    """'Class.attribute' of the innermost object an operation addresses (for failure signatures)."""
    c = spec['cls']
    while '.' in attr:
        head, attr = attr.split('.', 1)
        if c == 'Collection' and head == 'header':
            spec = spec['header']
        else:
            spec = spec.get(_SUB.get(c, {}).get(head)) or {'cls': '?'}
        c = spec['cls']
    return '%s.%s' % (c, attr)


_KNOWN = None


def _known_hit(sig):
    global _KNOWN
    if _KNOWN is None:
        try:
            _KNOWN = core.load_known(PROP)
        except Exception:
            _KNOWN = []
    for k in _KNOWN:
        if core.matches(sig, k):
            return k['id']
    return None


def _hist_sig(spec, inp, r):
    tg = _hist_target(spec, r['attr'])
    return _sig(spec, 'history', root=root_of('dict_json', inp), outcome=r['outcome'], attr=r['attr'],
                after=r['after'], target=tg, tclass=tg.split('.')[0])


def _shrink_history(spec, ops, r):
    """Shortest prefix, then drop earlier operations while the same outcome at the same attribute remains."""
    ops = ops[:r['step'] + 1]
    j = 0
    budget = 40
    while j < len(ops) - 1 and budget > 0:
        budget -= 1
        cand = ops[:j] + ops[j + 1:]
        try:
            r2 = run_history(spec, cand)
        except Exception:
            r2 = None
        if r2 is not None and r2['outcome'] == r['outcome'] and r2['attr'] == r['attr']:
            ops = cand[:r2['step'] + 1]
            r = r2
        else:
            j += 1
    return ops, r


def _check_history(op, inp):
    spec = inp['spec']
    try:
        build(spec)
    except Exception:
        UNCONSTRUCTIBLE.append(spec['cls'])
        return None
    ops = list(inp['ops'])
    first_known = None
    r = None
    for _ in range(len(ops) + 1):
        r = run_history(spec, ops)
        if r is None:
            break
        if _known_hit(_hist_sig(spec, inp, r)) is None:
            break
        # a recorded defect: remember it, take the operation out and look at the rest of the history
        if first_known is None:
            first_known = (list(ops), r)
        ops = ops[:r['step']] + ops[r['step'] + 1:]
    if r is None:
        if first_known is None:
            return None
        ops, r = first_known
        ops = ops[:r['step'] + 1]          # a recorded defect: the prefix is replay enough
    else:
        ops, r = _shrink_history(spec, ops, r)
    if ops != inp['ops']:
        inp['shrunk_from'] = len(inp['ops'])
        inp['ops'] = ops
    return {'required': 'after every operation of the history the object reads back / copies equal, writes the '
                        'same dictionary, and equals a fresh object built from the public state; a refused '
                        'operation or a read changes nothing',
            'observed': 'step %d (%s, %s): %s: %s' % (r['step'], r['attr'], r['after'], r['outcome'], r['detail']),
            'sig': _hist_sig(spec, inp, r)}


def _check_seq(op, inp):
    """Several objects written and read in ONE process, in the given order: reading one must not
    change what reading another gives (class-level / module-level memo)."""
    specs = inp['specs']
    objs = []
    for s in specs:
        try:
            objs.append(build(s))
        except Exception:
            UNCONSTRUCTIBLE.append(s['cls'])
            return None
    rcs = [reader_class(s, x) for s, x in zip(specs, objs)]
    ds = [json.dumps(x.to_dict()) for x in objs]
    order = list(inp.get('order') or range(len(specs)))
    backs = {}
    for rnd, idxs in enumerate((order, list(reversed(order)))):
        for i in idxs:
            try:
                backs[i] = rcs[i].from_dict(json.loads(ds[i]))
            except Exception as e:
                return {'required': _describe(objs[i]), 'observed': 'raises %s: %s' % (type(e).__name__, str(e)[:160]),
                        'sig': _sig(specs[i], 'seq', root='none', outcome='raises', index=i)}
        # compare only after ALL reads of the round: a later read must not reach back into an earlier object
        for i in idxs:
            if not same(specs[i], objs[i], backs[i]) or \
                    json.loads(json.dumps(backs[i].to_dict())) != json.loads(ds[i]):
                return {'required': _describe(objs[i]), 'observed': 'read no. %d of round %d gives %s' % (
                    idxs.index(i), rnd, _describe(backs[i])),
                    'sig': _sig(specs[i], 'seq', root='none', outcome='unequal', index=i)}
        for i, x in enumerate(objs):          # ... nor change the originals
            if json.dumps(x.to_dict()) != ds[i]:
                return {'required': ds[i][:300], 'observed': jdump(x.to_dict())[:300],
                        'sig': _sig(specs[i], 'seq', root='none', outcome='original_changed', index=i)}
    return None


# ---------------------------------------------------------------------------------------------
# round 4: the same data in every container shape / number text (op `shape`), aliasing between an
# object and its copies, its dictionaries and a second object of its class (op `alias`), sibling
# classes (op `twin`), hand-written text shapes (op `text_shape`)

SHAPE_REFUSED = []
_R4_OPS = ('shape', 'alias', 'twin', 'text_shape')


def _strip_shape(spec):
    return {k: v for k, v in spec.items() if k not in ('shape', 'strnum')}


def _snap(o):
    return jdump(json.loads(json.dumps(o.to_dict())))


def _jeq(a, b):
    """Two dictionary texts describe the same Python values (0 == 0.0)."""
    return a == b or json.loads(a) == json.loads(b)


def _unsorted_domain(x):
    try:
        return list(x.domain) != sorted(x.domain)
    except Exception:
        return False


def _check_shape(op, inp):
    """The instance built from a tuple / generator / iterator / map / deque of the same data, or from numbers
    given as text, is a constructible instance like any other: it reads back equal, writes the same
    dictionary every time it is asked, and is the instance that the list / number form describes.  (A shape
    the constructor refuses describes no instance.)"""
    spec = inp['spec']
    plain_spec = _strip_shape(spec)
    try:
        plain = build(plain_spec)
    except Exception:
        UNCONSTRUCTIBLE.append(spec['cls'])
        return None
    try:
        x = build(spec)
    except Exception:
        SHAPE_REFUSED.append((spec['cls'], spec.get('shape'), spec.get('strnum')))
        return None
    rc = reader_class(plain_spec, x)

    def fail(outcome, required, observed):
        lost = []
        try:
            dp, dx = plain.to_dict(), x.to_dict()
            lost = sorted(k_ for k_ in dp if isinstance(dp[k_], (list, tuple)) and len(dp[k_]) > 0 and
                          isinstance(dx.get(k_), (list, tuple)) and len(dx[k_]) == 0)
        except Exception:
            pass
        return {'required': required, 'observed': observed,
                'sig': _sig(plain_spec, 'shape', root=root_of('dict_json', {'spec': plain_spec}), outcome=outcome,
                            shape=spec.get('shape') or 'list', strnum=spec.get('strnum') or 'no',
                            one_shot=spec.get('shape') in ('gen', 'iter', 'map', 'filter'), lost='+'.join(lost) or 'none',
                            text_numbers=bool(spec.get('strnum')), unsorted_domain=_unsorted_domain(x))}
    try:
        j1 = _snap(x)
        j2 = _snap(x)
    except Exception as e:
        return fail('to_dict_raises', _describe(plain), 'raises %s: %s' % (type(e).__name__, str(e)[:160]))
    if not _jeq(j1, j2):
        return fail('second_to_dict_differs', j1[:300], j2[:300])
    bad, _d = _obs(plain_spec, x, rc)
    if bad:
        return fail(bad[0], j1[:300], bad[1])
    jp = _snap(plain)
    if not _jeq(jp, j1) or not same(plain_spec, plain, x) or not same(plain_spec, x, plain):
        return fail('differs_from_list_built', jp[:300], j1[:300])
    if not _jeq(_snap(x), j1):
        return fail('changed_by_reading', j1[:300], _snap(x)[:300])
    return None


# containers that the pinned code shares on purpose (shallow ownership; recorded, not asserted): legend
# parameters write their own ordinal / user-data dictionaries; a header keeps the metadata dictionary it is handed.
# (Since /repo 0c2fb64 a collection exports list(self._values), a copy: editing d['values'] is asserted not to
#  reach the collection.)
_LIVE_IN_TO_DICT = ('ordinal_dictionary', 'user_data')
_LIVE_IN_FROM_DICT = ('metadata', 'user_data', 'ordinal_dictionary')


def _scribble(v, skip=()):
    """Edit a container in place everywhere it can be edited (dictionaries and lists, at every depth),
    except below the keys in `skip`."""
    def other(x):
        if isinstance(x, bool):
            return not x
        if isinstance(x, (int, float)):
            return x + 1
        if isinstance(x, str):
            return x + '~'
        return x
    if isinstance(v, dict):
        for k in list(v.keys()):
            if k in skip:
                continue
            x = v[k]
            if isinstance(x, (dict, list, tuple)):
                _scribble(x, skip)
            else:
                v[k] = other(x)
        v['zz_scribble'] = 1
    elif isinstance(v, list):
        for i, x in enumerate(list(v)):
            if isinstance(x, (dict, list, tuple)):
                _scribble(x, skip)
            else:
                v[i] = other(x)
        v.append(0)
    elif isinstance(v, tuple):
        for x in v:
            if isinstance(x, (dict, list, tuple)):
                _scribble(x, skip)


def _derive(x, via, spec, rc):
    if via == 'duplicate':
        return x.duplicate()
    if via == 'copy':
        return copy.copy(x)
    if via == 'deepcopy':
        return copy.deepcopy(x)
    if via == 'pickle':
        return pickle.loads(pickle.dumps(x))
    if via == 'dict':
        return rc.from_dict(x.to_dict())          # no JSON in between: the reader gets the writer's own containers
    if via == 'fresh':
        return build(spec)                        # a second object of the class, same arguments, same process
    if via == 'to_mutable':
        return x.to_mutable()
    if via == 'to_immutable':
        return x.to_immutable()
    raise ValueError('unknown derivation %r' % (via,))


def _check_alias(op, inp):
    """Two objects - an object and its copy / read-back / twin, or two objects built from the same arguments -
    are separate values: editing one through the public API (setters, item assignment, in-place conversion,
    editing a metadata / user-data dictionary it hands out) leaves the dictionary the other writes unchanged.
    Likewise editing a dictionary AFTER it was written (via 'to_dict') or AFTER it was read (via
    'from_dict_arg') changes neither the object written nor the object read."""
    spec = inp['spec']
    via = inp['via']
    try:
        x = build(spec)
        rc = reader_class(spec, x)
        j0 = _snap(x)
    except Exception:
        UNCONSTRUCTIBLE.append(spec['cls'])
        return None

    def fail(outcome, required, observed, **kw):
        return {'required': required, 'observed': observed,
                'sig': _sig(spec, 'alias', root='none', outcome=outcome, via=via,
                            via_kind={'duplicate': 'copy', 'copy': 'copy', 'deepcopy': 'deep', 'pickle': 'deep'}.get(via, via),
                            **kw)}
    if via == 'to_dict':
        d = x.to_dict()
        _scribble(d, _LIVE_IN_TO_DICT)
        try:
            j1 = _snap(x)
        except Exception as e:
            j1 = 'raises %s: %s' % (type(e).__name__, str(e)[:160])
        if j1 != j0:
            return fail('object_changed_by_editing_its_dictionary', j0[:300], j1[:300])
        return None
    if via == 'from_dict_arg':
        d = json.loads(json.dumps(x.to_dict()))
        try:
            y = rc.from_dict(d)
            jy = _snap(y)
        except Exception:
            return None            # the plain ops report a dictionary that does not read back
        _scribble(d, _LIVE_IN_FROM_DICT)
        try:
            j1 = _snap(y)
        except Exception as e:
            j1 = 'raises %s: %s' % (type(e).__name__, str(e)[:160])
        if j1 != jy:
            return fail('object_changed_by_editing_the_dictionary_it_was_read_from', jy[:300], j1[:300])
        return None
    try:
        y = _derive(x, via, spec, rc)
        jy = _snap(y)
    except Exception:
        return None                # the plain ops (duplicate / pickle / dict_plain) report that
    dr = int(inp.get('dir', 0))
    a, b, jb = (y, x, j0) if dr == 0 else (x, y, jy)
    for i, o in enumerate(inp['ops']):
        try:
            real_apply(a, o)
        except Exception:
            pass
        try:
            jb2 = _snap(b)
        except Exception as e:
            jb2 = 'raises %s: %s' % (type(e).__name__, str(e)[:160])
        if jb2 != jb:
            attr = o.get('attr') or o.get('name') or o.get('path') or o['k']
            if len(inp['ops']) > 1:
                alone = dict(inp, ops=[o])
                if _check_alias(op, alone):
                    inp['shrunk_from'] = len(inp['ops'])
                    inp['ops'] = [o]
                else:
                    inp['ops'] = inp['ops'][:i + 1]
            tg = _hist_target(spec, attr) if o['k'] in ('set', 'poke') else '%s.%s' % (spec['cls'], attr)
            who = ('copy', 'original') if dr == 0 else ('original', 'copy')
            return fail('shared_state', 'editing the %s leaves the %s as it was: %s' % (who[0], who[1], jb[:220]),
                'after %s (%s) the other object writes %s' % (o['k'], attr, jb2[:220]),
                dir=dr, attr=attr, target=tg, tclass=tg.split('.')[0])
    return None


def _check_twin(op, inp):
    """Mutable and immutable twin of one collection: each converts into the other, the conversions are equal
    to the directly built twins, keep the validated flag, and the two write the same dictionary up to the
    class name; each conversion result reads back from its dictionary like a built one."""
    spec = inp['spec']
    ms, is_ = dict(spec, immutable=False), dict(spec, immutable=True)
    try:
        m, im = build(ms), build(is_)
    except Exception:
        UNCONSTRUCTIBLE.append(spec['cls'])
        return None

    def fail(outcome, required, observed):
        return {'required': required, 'observed': observed,
                'sig': _sig(spec, 'twin', root=root_of('dict_json', {'spec': ms}), outcome=outcome)}
    steps = (('to_immutable', m, is_, im), ('to_mutable', im, ms, m), ('to_mutable_of_mutable', m, ms, m),
             ('to_immutable_of_immutable', im, is_, im))
    for name, src, tspec, want in steps:
        try:
            got = getattr(src, name.split('_of_')[0])()
        except Exception as e:
            return fail(name + '_raises', _describe(want), 'raises %s: %s' % (type(e).__name__, str(e)[:160]))
        if not same(tspec, want, got) or not same(tspec, got, want):
            return fail(name + '_unequal', '%s %s' % (type(want).__name__, _describe(want)),
                        '%s %s' % (type(got).__name__, _describe(got)))
        if bool(got.validated_a_period) != bool(want.validated_a_period):
            return fail(name + '_validated_flag', want.validated_a_period, got.validated_a_period)
        if root_of('dict_json', {'spec': ms}) == 'none':
            bad, _d = _obs(tspec, got, type(got))
            if bad:
                return fail(name + '_' + bad[0], _describe(want), bad[1])
    dm, di = json.loads(json.dumps(m.to_dict())), json.loads(json.dumps(im.to_dict()))
    tm, ti = dm.pop('type', None), di.pop('type', None)
    if dm != di:
        return fail('dictionaries_differ', jdump(dm)[:300], jdump(di)[:300])
    if ti != tm and ti != '%sImmutable' % tm:
        return fail('type_names', tm, ti)
    return None


def _ap_text(a, style):
    sm, sd, sh, em, ed, eh, ts, leap = a
    if style == 'pad2':
        t = '%02d/%02d to %02d/%02d between %02d and %02d @%d' % (sm, sd, em, ed, sh, eh, ts)
    elif style == 'upper':
        t = '%d/%d TO %d/%d BETWEEN %d AND %d @%d' % (sm, sd, em, ed, sh, eh, ts)
    elif style == 'blanks':
        t = '  %d / %d  to  %d / %d   between  %d  and  %d  @ %d ' % (sm, sd, em, ed, sh, eh, ts)
    elif style == 'tight':
        t = '%d/%dto%d/%dbetween%dand%d@%d' % (sm, sd, em, ed, sh, eh, ts)
    elif style == 'mixed':
        t = '%02d/%d to %d/%02d between %d and %02d @%d' % (sm, sd, em, ed, sh, eh, ts)
    else:
        t = '%d/%d to %d/%d between %d and %d @%d' % (sm, sd, em, ed, sh, eh, ts)
    return t + ('*' if leap else '') + (' ' if style == 'blanks' else '')


_MON = ('Jan', 'Feb', 'Mar', 'Apr', 'May', 'Jun', 'Jul', 'Aug', 'Sep', 'Oct', 'Nov', 'Dec')


def _check_text_shape(op, inp):
    """Hand-written text of the documented format (one- and two-digit fields mixed, blanks, capitals) reads
    to the object that the numbers describe."""
    spec = inp['spec']
    style = inp['style']
    c = spec['cls']
    a = spec['args']
    try:
        x = build(spec)
    except Exception:
        UNCONSTRUCTIBLE.append(c)
        return None
    if c == 'AnalysisPeriod':
        text = _ap_text(a, style)
        rd = lambda: type(x).from_string(text)
    elif c == 'DateTime':
        text = ('%d %s %d:%02d' if style == 'short' else '%02d %s %02d:%02d') % (a[1], _MON[a[0] - 1], a[2], a[3])
        if style == 'upper':
            text = text.upper()
        rd = lambda: type(x).from_date_time_string(text, bool(a[4]))
    elif c == 'Date':
        text = ('%d %s' if style == 'short' else '%02d %s') % (a[1], _MON[a[0] - 1])
        if style == 'upper':
            text = text.lower()
        rd = lambda: type(x).from_date_string(text, bool(a[2]))
    elif c == 'Time':
        text = ('%d:%02d' if style == 'short' else '%02d:%02d') % (a[0], a[1])
        rd = lambda: type(x).from_time_string(text)
    else:
        raise ValueError('no text shapes for ' + c)
    sig = _sig(spec, 'text_shape', root='none', style=style)
    try:
        y = rd()
    except Exception as e:
        return {'required': _describe(x), 'observed': 'reading %r raises %s: %s' % (text, type(e).__name__, str(e)[:160]),
                'sig': dict(sig, outcome='raises')}
    if not same(spec, x, y) or _snap(x) != _snap(y):
        return {'required': _describe(x), 'observed': 'reading %r gives %s' % (text, _describe(y)),
                'sig': dict(sig, outcome='unequal')}
    return None


# --- process-order independence ----------------------------------------------------------------

def _child_main():
    """Runs in a fresh interpreter: evaluate the cases of stdin in the given order."""
    import sys
    sys.path.insert(0, core.REPO)
    data = json.loads(sys.stdin.read())
    out = []
    with contextlib.redirect_stdout(io.StringIO()):
        for op, inp in data['order']:
            try:
                r = check_case(op, inp)
            except Exception as e:
                r = {'required': 'oracle evaluates', 'observed': 'exception %s: %s' % (type(e).__name__, e),
                     'sig': {'exception': type(e).__name__}}
            out.append(r)
    sys.stdout.write(json.dumps({'results': out, 'order': data['order']}, default=str))


def _spawn_order(order):
    import subprocess
    import sys
    code = ('import sys; sys.path.insert(0, %r); from harness.props import c07; c07._child_main()' % core.ROOT)
    return subprocess.Popen([sys.executable, '-c', code], stdin=subprocess.PIPE, stdout=subprocess.PIPE,
                            stderr=subprocess.PIPE, cwd=core.ROOT, env=dict(os.environ, LADYBUG_REPO=core.REPO))


def _run_orders(orders, timeout=600):
    """Run each order in its own fresh interpreter (in parallel, at most 4)."""
    procs = []
    for o in orders:
        p = _spawn_order(o)
        procs.append(p)
    outs = []
    for p, o in zip(procs, orders):
        try:
            so, se = p.communicate(json.dumps({'order': o}).encode('utf-8'), timeout=timeout)
            outs.append(json.loads(so.decode('utf-8'))['results'])
        except Exception as e:
            try:
                p.kill()
            except Exception:
                pass
            outs.append([{'required': 'child process evaluates the order', 'observed': 'child failed: %s' % e,
                          'sig': {'exception': 'child'}}] + [None] * (len(o) - 1))
    return outs


def _first_failure(results):
    for j, r in enumerate(results):
        if r:
            return j, r
    return None, None


def _check_order(op, inp):
    """inp = {'order': [[op, inp], ...]}: evaluated in a FRESH interpreter, in this order; the failure
    of the first failing case is returned (required/observed of that case, sig extended by `order`)."""
    order = [list(c) for c in inp['order']]
    res = _run_orders([order])[0]
    j, r = _first_failure(res)
    if r is None:
        return None
    sig = dict(r.get('sig') or {})
    sig['in_order'] = True
    return {'required': r.get('required'), 'observed': 'case %d (%s) of the order: %s' % (j, order[j][0], r.get('observed')),
            'sig': sig}


def check_case(op, inp):
    if op == 'history':
        return _check_history(op, inp)
    if op == 'seq':
        return _check_seq(op, inp)
    if op == 'order':
        return _check_order(op, inp)
    if op == 'shape':
        return _check_shape(op, inp)
    if op == 'alias':
        return _check_alias(op, inp)
    if op == 'twin':
        return _check_twin(op, inp)
    if op == 'text_shape':
        return _check_text_shape(op, inp)
    return _check_plain(op, inp)


replay = check_case


# ---------------------------------------------------------------------------------------------
# generators (plain data only; objects are built inside build())

MONTH_DAYS = (31, 28, 31, 30, 31, 30, 31, 31, 30, 31, 30, 31)
TIMESTEPS = (1, 2, 3, 4, 5, 6, 10, 12, 15, 20, 30, 60)


def _mdays(m, leap):
    return 29 if (m == 2 and leap) else MONTH_DAYS[m - 1]


def gen_float(rng):
    r = rng.random()
    if r < 0.15:
        return float(rng.randrange(-50, 50))
    if r < 0.25:
        return rng.choice([0.1, 0.2, 0.3, 1e-9, 1e22, 123456789.123456789, 1 / 3.0, -2.5, 5e-324, 1.7976931348623157e308])
    return rng.uniform(-1000, 1000)


def gen_dt(rng, leap=None):
    leap = (rng.random() < 0.5) if leap is None else leap
    if leap and rng.random() < 0.2:
        return [2, 29, rng.randrange(24), rng.choice([0, 30, 59, rng.randrange(60)]), True]
    m = rng.choice([1, 2, 3, 12, rng.randrange(1, 13)])
    d = rng.choice([1, _mdays(m, leap), rng.randrange(1, _mdays(m, leap) + 1)])
    return [m, d, rng.choice([0, 23, rng.randrange(24)]), rng.choice([0, 59, rng.randrange(60)]), leap]


def gen_ap(rng, leap=None, full_days=False, timestep=None):
    leap = (rng.random() < 0.5) if leap is None else leap
    sm = rng.choice([1, 2, 12, rng.randrange(1, 13)])
    em = rng.choice([1, 2, 12, rng.randrange(1, 13)])
    sd = rng.choice([1, _mdays(sm, leap), rng.randrange(1, _mdays(sm, leap) + 1)])
    ed = rng.choice([1, _mdays(em, leap), rng.randrange(1, _mdays(em, leap) + 1)])
    if full_days:
        sh, eh = 0, 23
    else:
        sh = rng.choice([0, 0, 23, rng.randrange(24)])
        eh = rng.choice([23, 23, 0, rng.randrange(24)])
    ts = timestep or rng.choice(TIMESTEPS)
    return {'cls': 'AnalysisPeriod', 'args': [sm, sd, sh, em, ed, eh, ts, leap]}


def gen_str(rng, allow_empty=False):
    pool = ['x', 'Zone 1', 'Tehran', 'a b c', u'Köln', 'PHL', 'TMY3', 'src', '726980', '-', '0']
    if allow_empty:
        pool = pool + ['']
    return rng.choice(pool)


def gen_location(rng):
    r = rng.random()
    if r < 0.1:
        return {'cls': 'Location', 'args': [None, None, None, 0, 0, None, 0, None, None]}
    lat = rng.choice([0, 0.0, 90.0, -90.0, rng.uniform(-90, 90), float(rng.randrange(-90, 91)), rng.randrange(-90, 91)])
    lon = rng.choice([0, 180.0, -180.0, 7.5, -7.5, 22.5, rng.uniform(-180, 180), rng.randrange(-180, 181)])
    tz = rng.choice([None, None, 0, 3.5, -12, 14, 5.75, float(rng.randrange(-12, 15))])
    elev = rng.choice([0, 0.0, -5.5, 54, gen_float(rng)])
    return {'cls': 'Location', 'args': [
        rng.choice([None, '', gen_str(rng)]), rng.choice([None, gen_str(rng)]),
        rng.choice([None, gen_str(rng)]), lat, lon, tz, elev,
        rng.choice([None, '', '726980', 12345]), rng.choice([None, 'TMY3', gen_str(rng)])]}


def gen_datatype(rng, generic=None):
    generic = (rng.random() < 0.35) if generic is None else generic
    if generic:
        name = rng.choice(['Foo', 'My Type', 'thermal thing', 'Temperature', 'x'])
        unit = rng.choice(['bar', 'C', 'widgets/h', '%'])
        mn = rng.choice([float('-inf'), 0, -1.5, 0.0])
        mx = rng.choice([float('inf'), 100, 1.5])
        abbr = rng.choice([None, '', 'F', name])
        ud = rng.choice([None, None, [['-1', 'Cold'], ['0', 'Neutral'], ['1', 'Hot']], [['0', 'False'], ['1', 'True']],
                         [['1', 'Hot'], ['-1', 'Cold'], ['0', 'Neutral']]])      # (insertion order not sorted)
        pit = rng.random() < 0.6
        cum = (not pit) and rng.random() < 0.5
        int_keys = ud is not None and rng.random() < 0.7
        return {'cls': 'DataType', 'generic': [name, unit, mn if mn != float('-inf') else '-inf',
                                                mx if mx != float('inf') else 'inf', abbr, ud, pit, cum],
                'int_keys': int_keys}
    names = sorted(_types().keys())
    t = rng.choice(names)
    r = rng.random()
    name = None
    if r < 0.25:
        name = rng.choice(['my custom name', 'Zone Air Temperature', 'x', 'thing 2'])
    elif r < 0.3:
        name = _default_name(t)                 # explicit name equal to the default one
    elif r < 0.33:
        name = _default_name(t).lower()
    return {'cls': 'DataType', 'type': t, 'name': name}


def _default_name(cls):
    import re
    return re.sub(r"(?<=\w)([A-Z])", r" \1", cls)


def _units_of(dtspec):
    if 'generic' in dtspec:
        return [dtspec['generic'][1]]
    return list(_types()[dtspec['type']]._units)


def gen_meta(rng, kind=None):
    kind = kind or rng.choice(['none', 'empty', 'strings', 'strings', 'nonstring', 'separator'])
    if kind == 'none':
        return None
    if kind == 'empty':
        return {}
    if kind == 'strings':
        return dict(rng.sample([('source', 'TMY3'), ('city', 'Boston'), ('Zone', 'LIVING ROOM'),
                                ('type', 'Zone Air Temperature'), ('System', 'VAV_1')], rng.randrange(1, 4)))
    if kind == 'nonstring':
        return dict(rng.sample([('n', 1), ('f', 2.5), ('flag', True), ('none', None), ('lst', [1, 2]),
                                ('city', 'x')], rng.randrange(1, 4)))
    return dict(rng.sample([('a', 'x, y'), ('b', 'p | q'), ('c', 'k: v'), ('d: e', 'z')], rng.randrange(1, 3)))


def gen_ap_cheap(rng, leap=None):
    """Analysis periods whose `len()` is cheap: Header.to_dict evaluates `if self.analysis_period`, i.e.
    `AnalysisPeriod.__len__`, which enumerates every time step unless the hours are 0..23."""
    a = gen_ap(rng, leap)
    if rng.random() < 0.6:
        a['args'][2], a['args'][5] = 0, 23
    else:
        from datetime import date, timedelta
        g = a['args']
        y = 2016 if g[7] else 2017
        e = date(y, g[0], g[1]) + timedelta(days=rng.choice([0, 1, 3, 9]))
        if e.year != y:
            e = date(y, 1, e.day)
        g[3], g[4] = e.month, e.day
        g[6] = rng.choice([1, 1, 2, 4])
    return a


def gen_header(rng, ap=None, meta_kind=None, generic=None):
    dt = gen_datatype(rng, generic)
    return {'cls': 'Header', 'dt': dt, 'unit': rng.choice(_units_of(dt)),
            'ap': ap or gen_ap_cheap(rng), 'meta': gen_meta(rng, meta_kind)}


def _ap_len_full_days(a):
    from datetime import date
    sm, sd, _, em, ed, _, ts, leap = a
    y = 2016 if leap else 2017
    s = (date(y, sm, sd) - date(y, 1, 1)).days
    e = (date(y, em, ed) - date(y, 1, 1)).days
    n = 366 if leap else 365
    days = e - s + 1 if e >= s else (n - s) + e + 1
    return days * 24 * ts


def gen_values(rng, n):
    style = rng.random()
    if style < 0.3:
        return [float(i) for i in range(n)]
    if style < 0.5:
        return [rng.randrange(-5, 50) for _ in range(n)]           # ints
    return [gen_float(rng) for _ in range(n)]


def gen_collection(rng, kind=None, immutable=None, meta_kind=None, generic=None, small=True):
    kind = kind or rng.choice(sorted(COLL_CLASSES))
    immutable = (rng.random() < 0.35) if immutable is None else immutable
    leap = rng.random() < 0.5
    if kind == 'HourlyContinuous':
        # short periods keep the value lists small
        ts = rng.choice([1, 1, 2, 4, 60]) if small else rng.choice(TIMESTEPS)
        sm = rng.choice([1, 2, 12, rng.randrange(1, 13)])
        sd = rng.choice([1, _mdays(sm, leap), rng.randrange(1, _mdays(sm, leap) + 1)])
        # end = start + 0..2 days, possibly wrapping the year
        from datetime import date, timedelta
        y = 2016 if leap else 2017
        e = date(y, sm, sd) + timedelta(days=rng.choice([0, 1, 2]))
        if e.year != y:
            e = date(y, 1, e.day)
        a = [sm, sd, 0, e.month, e.day, 23, ts, leap]
        if rng.random() < 0.08:
            a = [1, 1, 0, 12, 31, 23, 1, leap]
        ap = {'cls': 'AnalysisPeriod', 'args': a}
        h = gen_header(rng, ap, meta_kind, generic)
        return {'cls': 'Collection', 'kind': kind, 'immutable': immutable, 'header': h,
                'values': gen_values(rng, _ap_len_full_days(a))}
    ap = gen_ap_cheap(rng, leap)
    h = gen_header(rng, ap, meta_kind, generic)
    n = rng.choice([1, 2, 3, 5, 12])
    if kind == 'HourlyDiscontinuous':
        seen, dts = set(), []
        while len(dts) < n:
            d = gen_dt(rng, leap)
            if tuple(d) not in seen:
                seen.add(tuple(d))
                dts.append(d)
        dts.sort()
    elif kind == 'Daily':
        days = 366 if leap else 365
        dts = sorted(rng.sample(sorted(set([1, 59, 60, 61, days] + [rng.randrange(1, days + 1) for _ in range(12)])), min(n, 5)))
    elif kind == 'Monthly':
        dts = sorted(rng.sample(range(1, 13), n))
    else:
        pool = [(m, hh, mi) for m in (1, 2, 6, 12) for hh in (0, 7, 23) for mi in (0, 30)]
        dts = [list(t) for t in sorted(rng.sample(pool, n))]
    return {'cls': 'Collection', 'kind': kind, 'immutable': immutable, 'header': h,
            'values': gen_values(rng, len(dts)), 'datetimes': dts,
            'validated': rng.random() < 0.5}


def gen_color(rng):
    return [rng.choice([0, 255, rng.randrange(256)]) for _ in range(4)]


def gen_colorrange(rng):
    n = rng.choice([2, 2, 3, 5, 10])
    cols = None if rng.random() < 0.3 else [gen_color(rng) for _ in range(n)]
    ncol = 10 if cols is None else n
    cont = rng.random() < 0.6
    r = rng.random()
    if r < 0.2 and (cont or ncol > 2):
        dom = None
    elif r < 0.7 or ncol < 3:
        a, b = sorted([gen_float(rng) for _ in range(2)])
        dom = [a, b] if ncol >= 3 or cont else [a]
        if a == b and len(dom) == 2:
            dom = [a, a + 1]
    else:
        k = rng.randrange(1, ncol) if not cont else rng.randrange(3, ncol + 1) if ncol >= 3 else 2
        dom = sorted(rng.uniform(-100, 100) for _ in range(k))
    return {'cls': 'ColorRange', 'colors': cols, 'domain': dom, 'continuous': cont}


def gen_legendpar(rng, rich=True):
    s = {'cls': 'LegendParameters'}
    if rng.random() < 0.6:
        a, b = sorted([rng.choice([0, -3, 3.5, gen_float(rng)]) for _ in range(2)])
        if rng.random() < 0.8:
            s['min'] = a
        if rng.random() < 0.8:
            s['max'] = b
    if rng.random() < 0.5:
        s['segment_count'] = rng.choice([1, 2, 7, 11])
    if rng.random() < 0.4:
        s['colors'] = [gen_color(rng) for _ in range(rng.choice([2, 3, 6]))]
    if rng.random() < 0.5:
        s['title'] = rng.choice(['', 'C', 'Temperature (C)'])
    if rich:
        if rng.random() < 0.4:
            s['continuous_legend'] = rng.random() < 0.5
        if rng.random() < 0.4:
            s['decimal_count'] = rng.choice([0, 1, 2, 4])
        if rng.random() < 0.4:
            s['include_larger_smaller'] = rng.random() < 0.5
        if rng.random() < 0.4:
            s['vertical'] = rng.random() < 0.5
        if rng.random() < 0.3:
            s['font'] = rng.choice(['Arial', 'Courier'])
        if rng.random() < 0.3:
            s['ordinal'] = rng.choice([[['-1', 'Cold'], ['0', 'Neutral'], ['1', 'Hot']], [['0', 'no'], ['1', 'yes']]])
        if rng.random() < 0.3:
            s['user_data'] = {'k': 'v', 'n': 1}
        if rng.random() < 0.35:
            s['p3d'] = {'cls': 'Legend3DParameters',
                        'origin': rng.choice([None, [1.0, 2.0, 0.0], [0, 0, 0]]),
                        'sh': rng.choice([None, 0.5, 2]), 'sw': rng.choice([None, 0.25]),
                        'th': rng.choice([None, 0.3])}
        if rng.random() < 0.35:
            s['p2d'] = {'cls': 'Legend2DParameters',
                        'args': [rng.choice([None, '20px', '5%']), rng.choice([None, '10px']),
                                 rng.choice([None, '5%', '36px']), rng.choice([None, '2%']),
                                 rng.choice([None, '1.5%', '12px'])]}
    return s


def gen_legendpar_cat(rng):
    k = rng.choice([1, 2, 3])
    dom = sorted(rng.choice([0, 100, 2000, gen_float(rng)]) for _ in range(k))
    s = {'cls': 'LegendParametersCategorized', 'domain': dom,
         'colors': [gen_color(rng) for _ in range(k + 1)]}
    if rng.random() < 0.5:
        s['names'] = ['cat %d' % i for i in range(k + 1)]
    if rng.random() < 0.5:
        s['title'] = 'T'
    if rng.random() < 0.4:
        s['continuous_colors'] = rng.random() < 0.5
    if rng.random() < 0.4:
        s['vertical'] = rng.random() < 0.5
    # round 4 (override gap): every field of the plain parameters also on the categorized sibling
    if rng.random() < 0.3:
        s['continuous_legend'] = rng.random() < 0.5
    if rng.random() < 0.3:
        s['decimal_count'] = rng.choice([0, 1, 3])
    if rng.random() < 0.3:
        s['include_larger_smaller'] = rng.random() < 0.5
    if rng.random() < 0.3:
        s['font'] = rng.choice(['Courier', 'Times'])
    return s


def gen_legend(rng):
    vals = [gen_float(rng) for _ in range(rng.choice([1, 2, 5]))]
    if rng.random() < 0.2:
        vals = [vals[0]] * len(vals)
    r = rng.random()
    lp = None if r < 0.2 else gen_legendpar_cat(rng) if r < 0.4 else gen_legendpar(rng)
    if lp is not None and lp['cls'] == 'LegendParameters':
        if rng.random() < 0.5:
            lp.pop('min', None)
        if 'min' not in lp and 'max' in lp:
            lp['max'] = max(vals) + 1          # the legend takes min from the values: keep min <= max
        if 'max' not in lp and 'min' in lp:
            lp['min'] = min(vals) - 1
    return {'cls': 'Legend', 'values': vals, 'lp': lp}


def gen_designday_parts(rng):
    leap = rng.random() < 0.3
    m = rng.randrange(1, 13)
    date = [m, rng.randrange(1, _mdays(m, leap) + 1), leap]
    db = {'cls': 'DryBulbCondition', 'args': rng.choice([
        [gen_float(rng), abs(gen_float(rng))], [35, 10, 'DefaultMultipliers', ''],
        [30.5, 8.5, 'MultiplierSchedule', 'Sched 1']])}
    hum = {'cls': 'HumidityCondition', 'args': rng.choice([
        ['Wetbulb', 20.5], ['Dewpoint', 15, 101325, True, False], ['HumidityRatio', 0.01, 95000.0, False, True],
        ['Enthalpy', 60000.0, 101325, False, False, 'Hum Sched', ''], ['Wetbulb', 21, 101325, False, False, '', 'WB Range']])}
    wind = {'cls': 'WindCondition', 'args': rng.choice([[gen_float(rng) % 30], [3.5, 270], [0, 0], [2, 360.0]])}
    k = rng.choice(['ASHRAEClearSky', 'ASHRAETau', 'SkyCondition'])
    if k == 'ASHRAEClearSky':
        sky = {'cls': 'SkyCondition', 'kind': k, 'date': date, 'args': rng.choice([[], [0.5], [1.2, True], [0, False]])}
    elif k == 'ASHRAETau':
        sky = {'cls': 'SkyCondition', 'kind': k, 'date': date,
               'args': rng.choice([[0.4, 2.1], [0.556, 1.779, True], [0.3, 2.5, False, True]])}
    else:
        sky = {'cls': 'SkyCondition', 'kind': k, 'date': date,
               'args': rng.choice([[], [True], [False, 'Beam Sched', 'Diff Sched']])}
    return db, hum, wind, sky


def gen_designday(rng, loc=None):
    db, hum, wind, sky = gen_designday_parts(rng)
    return {'cls': 'DesignDay', 'name': rng.choice(['Test Day', 'Boston Ann Clg .4% Condns DB=>MWB', 7]),
            'day_type': rng.choice(['SummerDesignDay', 'WinterDesignDay']),
            'location': loc or gen_location(rng), 'db': db, 'hum': hum, 'wind': wind, 'sky': sky}


def gen_psych(rng):
    if rng.random() < 0.5:
        return {'cls': 'PsychrometricChart', 'temperature': rng.choice([20, 25.5, 0]), 'rh': rng.choice([50, 30.5]),
                'lp': None if rng.random() < 0.5 else gen_legendpar(rng, rich=False)}
    ap = {'cls': 'AnalysisPeriod', 'args': [6, 1, 0, 6, 1, 23, 1, False]}
    from_t = {'cls': 'Collection', 'kind': 'HourlyContinuous', 'immutable': False,
              'header': {'cls': 'Header', 'dt': {'cls': 'DataType', 'type': 'Temperature', 'name': None},
                         'unit': 'C', 'ap': ap, 'meta': None},
              'values': [10 + rng.uniform(0, 20) for _ in range(24)]}
    from_rh = {'cls': 'Collection', 'kind': 'HourlyContinuous', 'immutable': False,
               'header': {'cls': 'Header', 'dt': {'cls': 'DataType', 'type': 'RelativeHumidity', 'name': None},
                          'unit': '%', 'ap': ap, 'meta': None},
               'values': [20 + rng.uniform(0, 60) for _ in range(24)]}
    return {'cls': 'PsychrometricChart', 'temperature': from_t, 'rh': from_rh,
            'pressure': rng.choice([101325, 95000.5]), 'x_dim': rng.choice([1, 2.5]),
            'base': rng.choice([(0, 0), (10.5, -3)]), 'tmin': rng.choice([-20, -5]),
            'tmax': rng.choice([50, 45]), 'lp': None if rng.random() < 0.5 else gen_legendpar(rng, rich=False)}


# --- generators of histories -----------------------------------------------------------------------

def _plain(v):
    return {'plain': v}


def _hist_pool(rng, spec):
    """(attr, [accepted-looking values], [values the validation code refuses]) for the class of `spec`;
    built from the assertions of the setters in /repo (zero / falsy values and exact bounds included)."""
    c = spec['cls']
    cols = lambda n: {'colors': [gen_color(rng) for _ in range(n)]}
    if c == 'Location':
        return [('latitude', [0, 0.0, 90, -90.0, 45.5, rng.uniform(-90, 90)], [90.5, -91, 'abc', 1e9]),
                ('longitude', [0, 180, -180.0, 7.5, -22.5, rng.uniform(-180, 180)], [180.5, -181, 'x']),
                ('time_zone', [0, 0.0, -12, 14, 5.75, None, float(rng.randrange(-12, 15))], [14.5, -13, 'tz', 99]),
                ('elevation', [0, 0.0, -5.5, 8848, gen_float(rng)], ['high', None]),
                ('city', ['Lisbon', 'x'], []), ('station_id', ['085360', None], []), ('source', ['IWEC', None], [])]
    if c == 'Color':
        return [(a, [0, 255, rng.randrange(256)], [256, -1, 'red', None]) for a in 'rgba']
    if c == 'Header':
        return [('metadata', [None, _plain({}), _plain({'city': 'Boston'}), _plain({'Zone': 'A', 'System': 'VAV_1'})],
                 [_plain([1, 2]), 'text', 5])]
    if c == 'Collection':
        n = len(spec['values'])
        return [('values', [_plain(gen_values(rng, n)), _plain([0] * n), _plain([0.0] * n)],
                 [_plain(gen_values(rng, n + 1)), _plain(gen_values(rng, n - 1)), _plain([]), 'abc', 5, None]),
                ('header.metadata', [None, _plain({}), _plain({'city': 'Boston'})], [_plain([1]), 'text'])]
    if c == 'ColorRange':
        k = len(spec['colors']) if spec.get('colors') else 10
        return [('colors', [cols(k), cols(k + 2), {'colors': None}], ['abc', 5, _plain([1, 2])]),
                ('domain', [None, _plain([0, 1]), _plain([gen_float(rng) for _ in range(2)]), _plain([0, 0])],
                 ['abc', _plain(['a', 'b']), _plain([float(i) for i in range(k + 3)])])]
    if c == 'LegendParameters':
        return [('min', [None, 0, 0.0, -3, gen_float(rng)], ['lo', 1e308 if spec.get('max') is not None else 'x']),
                ('max', [None, 0, 0.0, 3.5, gen_float(rng)], ['hi', -1e308 if spec.get('min') is not None else 'x']),
                ('segment_count', [None, 1, 2, 11], [0, -1, 2.5, 'n']),
                ('colors', [{'colors': None}, cols(2), cols(5)], [cols(1), 'abc', 7]),
                ('title', [None, '', 'C'], [5, _plain(['t'])]),
                ('continuous_legend', [None, True, False], [0, 'yes']),
                ('decimal_count', [None, 0, 3], [1.5, 'n']),
                ('include_larger_smaller', [True, False, 0, None], []),
                ('vertical', [None, True, False], [0, 'v']),
                ('font', [None, 'Courier'], [5]),
                ('ordinal_dictionary', [None, {'pairs': [['0', 'no'], ['1', 'yes']], 'int_keys': True}],
                 [{'pairs': [['a', 'no']], 'int_keys': False}, 'abc']),
                ('user_data', [None, _plain({'k': 'v'})], ['abc', _plain([1])])]
    if c == 'LegendParametersCategorized':
        k = len(spec['domain'])
        return [('domain', [_plain(sorted(gen_float(rng) for _ in range(k))), _plain([0.0] * k)],
                 [_plain([0.0] * (k + 1)), _plain([]), 'abc', 5]),
                ('colors', [cols(k + 1)], [cols(k), cols(k + 2), 'abc', 5]),
                ('category_names', [_plain(['n%d' % i for i in range(k + 1)])],
                 [_plain(['n%d' % i for i in range(k)]), _plain(['n%d' % i for i in range(k + 2)]), 5]),
                ('title', [None, 'T'], [5]), ('vertical', [None, True, False], ['v']),
                ('continuous_colors', [None, True, False], [0, 'c']),
                ('decimal_count', [None, 0, 3], [1.5])]
    if c == 'DryBulbCondition':
        return [('dry_bulb_max', [0, 0.0, -20.5, 35], ['hot', None]),
                ('dry_bulb_range', [0, 0.0, 8.5], [-0.5, -1, 'wide', None])]
    if c == 'HumidityCondition':
        return [('humidity_type', ['Wetbulb', 'Dewpoint', 'HumidityRatio', 'Enthalpy'], ['Foo', '', None, 3]),
                ('humidity_value', [0, 0.0, 20.5], ['wet', None]),
                ('barometric_pressure', [0, 101325, 95000.5], ['p', None]),
                ('rain', [True, False, 0, 1, None], []), ('snow_on_ground', [True, False, 0, ''], [])]
    if c == 'WindCondition':
        return [('wind_speed', [0, 0.0, 3.5], ['fast', None]),
                ('wind_direction', [0, 360, 360.0, 0.0, 270], [360.5, -1, 'N', None])]
    if c == 'SkyCondition':
        leap = bool(spec['date'][2])
        dts = [{'cls': 'Date', 'args': [2, 28, leap]}, {'cls': 'Date', 'args': [12, 31, leap]},
               {'cls': 'Date', 'args': [2, 29, True]}, {'cls': 'Date', 'args': [3, 1, not leap]}]
        out = [('date', dts, [_plain([1, 1]), 'Jan 1', None, {'cls': 'DateTime', 'args': [1, 1, 0, 0, False]}][:3]),
               ('daylight_savings', [True, False, 0, 1], [])]
        if spec['kind'] == 'ASHRAEClearSky':
            out.append(('clearness', [0, 0.0, 1.2, 1, 0.5], [1.25, -0.1, 'clear', None]))
        if spec['kind'] == 'ASHRAETau':
            out += [('tau_b', [0, 0.0, 0.4], ['b', None]), ('tau_d', [0, 2.1], ['d', None]),
                    ('use_2017', [True, False, 0, 1], [])]
        return out
    if c == 'DesignDay':
        db, hum, wind, sky = gen_designday_parts(rng)
        loc = gen_location(rng)
        return [('name', ['Day 2', ''], [7, None]),
                ('day_type', ['SummerDesignDay', 'WinterDesignDay', 'Sunday', 'CustomDay2'], ['Foo', '', None, 'summerdesignday']),
                ('location', [loc], [db, 'Boston', None]),
                ('dry_bulb_condition', [db], [hum, None, 5]), ('humidity_condition', [hum], [db, None]),
                ('wind_condition', [wind], [sky, None]), ('sky_condition', [sky], [wind, None, 'clear']),
                ('location.latitude', [0, 45.5, -90], [91, 'abc']),
                ('location.time_zone', [0, 14, None], [15, 'tz']),
                ('dry_bulb_condition.dry_bulb_range', [0, 8.5], [-1, None]),
                ('wind_condition.wind_direction', [0, 360], [361, None]),
                ('humidity_condition.humidity_type', ['Dewpoint', 'Enthalpy'], ['Foo'])]
    if c == 'DDY':
        loc = gen_location(rng)
        return [('location', [loc], ['Boston', None, 5]),
                ('design_days', [{'specs': [gen_designday(rng, spec['location']) for _ in range(rng.choice([1, 2]))]},
                                 {'specs': [gen_designday(rng) for _ in range(rng.choice([1, 2]))]},
                                 {'specs': []}], [5, None, _plain([1, 2])]),
                ]       # (no in-place edits of ddy.location: the days of a hand-built DDY hold their own, equal
                #  Location objects, so such an edit makes days and DDY disagree - not a state the writer can express)
    if c == 'Wea':
        return [('location', [gen_location(rng)], ['Boston', None, 5]),
                ('location.time_zone', [0, -12], [15]), ('location.latitude', [0, -45.0], [-91])]
    return []


def gen_history(rng, spec, n_ops=None, refused_first=False):
    """A history for the instance `spec`: assignments (accepted and refused), in-place operations and reads."""
    c = spec['cls']
    pool = _hist_pool(rng, spec)
    reads = READS.get(c, [])
    n_ops = n_ops or rng.choice([3, 5, 8, 12])
    ops = []
    imm = c == 'Collection' and spec.get('immutable')
    for i in range(n_ops):
        r = rng.random()
        if pool and (r < 0.55 or (refused_first and i == 0)):
            attr, good, bad = rng.choice(pool)
            if bad and (rng.random() < 0.4 or (refused_first and i == 0)):
                v = rng.choice(bad)
            else:
                v = rng.choice(good)
            ops.append({'k': 'set', 'attr': attr, 'v': v})
        elif c == 'Collection' and r < 0.7:
            n = len(spec['values'])
            rr = rng.random()
            if rr < 0.45:
                ops.append({'k': 'setitem', 'i': rng.choice([0, -1, n - 1, n, -n - 1, rng.randrange(n)]),
                            'v': rng.choice([0, 0.0, gen_float(rng)])})
            else:
                units = _units_of(spec['header']['dt'])
                name = rng.choice(['convert_to_unit', 'convert_to_unit', 'convert_to_ip', 'convert_to_si'])
                o = {'k': 'convert', 'name': name}
                if name == 'convert_to_unit':
                    o['unit'] = rng.choice(units + ['furlongs'])
                ops.append(o)
        elif reads:
            ops.append({'k': 'read', 'what': rng.choice(reads)})
            if rng.random() < 0.3:
                ops.append(dict(ops[-1]))          # the same question twice
    return ops


def _facts(v, out=None):
    """Rare classes present in a spec / case: leap years, wrapping periods, sub-hourly steps, ..."""
    out = out if out is not None else set()
    if isinstance(v, dict):
        c = v.get('cls')
        a = v.get('args')
        if c == 'AnalysisPeriod' and a:
            if a[7]:
                out.add('leap')
            if (a[0], a[1]) > (a[3], a[4]):
                out.add('wrapping')
            if a[6] > 1:
                out.add('subhourly')
            if a[2] > a[5]:
                out.add('overnight')
        if c == 'DateTime' and a and a[4]:
            out.add('leap')
        if c == 'Date' and a and a[2]:
            out.add('leap')
        if c == 'Collection':
            if v.get('immutable'):
                out.add('immutable')
            if len(v.get('values', [])) == 1:
                out.add('single')
            if v['kind'] == 'HourlyDiscontinuous' and any(d[4] for d in v.get('datetimes', [])):
                out.add('leap')
        if c == 'Wea' and v.get('leap'):
            out.add('leap')
        if c == 'SkyCondition' and v.get('date') and v['date'][2]:
            out.add('leap')
        if c == 'Location' and a and len(a) > 5 and a[5] in (0, 0.0) and a[5] is not None and abs(a[4] or 0) >= 7.5:
            out.add('tz0_off_meridian')
        if v.get('k') == 'set':
            out.add('has_set')
        for x in v.values():
            _facts(x, out)
    elif isinstance(v, (list, tuple)):
        for x in v:
            _facts(x, out)
    return out


def _rarity_key(case):
    f = _facts(case[1])
    hist_refused_first = case[0] == 'history'
    return (0 if 'leap' in f else 1, 0 if 'wrapping' in f else 1, 0 if 'subhourly' in f else 1,
            0 if hist_refused_first else 1)

# fixed corpus: the instances behind every recorded finding / repaired defect, always evaluated
def _hdr(dt=None, ap=None, meta=None, unit='C'):
    return {'cls': 'Header', 'dt': dt or {'cls': 'DataType', 'type': 'Temperature', 'name': None},
            'unit': unit, 'ap': ap or {'cls': 'AnalysisPeriod', 'args': [1, 1, 0, 12, 31, 23, 1, False]},
            'meta': meta}


_LEAP_AP = {'cls': 'AnalysisPeriod', 'args': [2, 28, 0, 3, 1, 23, 1, True]}
_GEN_DT = {'cls': 'DataType', 'generic': ['Foo', 'bar', '-inf', 'inf', None, None, True, False], 'int_keys': False}
_GEN_DT_DESCR = {'cls': 'DataType', 'generic': ['Foo', 'bar', 0, 10, 'F', [['-1', 'Cold'], ['0', 'Neutral'], ['1', 'Hot']], False, True],
                 'int_keys': True}
_LOC = {'cls': 'Location', 'args': ['Boston', 'MA', 'USA', 42.37, -71.02, -5.0, 6.0, '725090', 'TMY3']}

CORPUS = [
    ('dict_json', {'spec': {'cls': 'Collection', 'kind': 'MonthlyPerHour', 'immutable': False, 'header': _hdr(),
                            'values': [1.5, 2.5], 'datetimes': [[2, 0, 0], [3, 23, 30]], 'validated': False}}),
    ('json_file', {'spec': {'cls': 'Collection', 'kind': 'MonthlyPerHour', 'immutable': False, 'header': _hdr(),
                            'values': [1.5, 2.5], 'datetimes': [[2, 0, 0], [3, 23, 30]], 'validated': True}}),
    ('csv', {'spec': {'cls': 'Collection', 'kind': 'Daily', 'immutable': False, 'header': _hdr(meta={'city': 'x'}),
                      'values': [1.5, 2.5, 3.5], 'datetimes': [59, 60, 61], 'validated': True}}),
    ('csv', {'spec': {'cls': 'Collection', 'kind': 'HourlyDiscontinuous', 'immutable': False,
                      'header': _hdr(ap=_LEAP_AP), 'values': [1.0, 2.5, 3.0],
                      'datetimes': [[2, 28, 1, 0, True], [2, 29, 5, 0, True], [3, 1, 7, 0, True]], 'validated': True}}),
    ('csv', {'spec': {'cls': 'Collection', 'kind': 'Monthly', 'immutable': False, 'header': _hdr(),
                      'values': [1.5, 2.5], 'datetimes': [2, 3], 'validated': False}}),
    ('csv', {'spec': {'cls': 'Collection', 'kind': 'Monthly', 'immutable': False, 'header': _hdr(meta={'n': 1}),
                      'values': [1.5, 2.5], 'datetimes': [2, 3], 'validated': True}}),
    ('csv', {'spec': {'cls': 'Collection', 'kind': 'Monthly', 'immutable': False,
                      'header': _hdr(dt=_GEN_DT, unit='bar'), 'values': [1.5, 2.5], 'datetimes': [2, 3], 'validated': True}}),
    ('text', {'spec': _GEN_DT}),
    ('dict_json', {'spec': _GEN_DT_DESCR}),
    ('dict_json', {'spec': {'cls': 'DataType', 'type': 'Temperature', 'name': 'temperature'}}),
    ('duplicate', {'spec': {'cls': 'DataType', 'type': 'Temperature', 'name': None}}),
    ('duplicate', {'spec': _GEN_DT}),
    ('dict_json', {'spec': {'cls': 'DryBulbCondition', 'args': [30.5, 8.5, 'MultiplierSchedule', 'Sched 1']}}),
    ('dict_json', {'spec': {'cls': 'HumidityCondition', 'args': ['Enthalpy', 60000.0, 101325, False, False, 'Hum Sched', '']}}),
    ('dict_json', {'spec': {'cls': 'Wea', 'location': _LOC, 'annual': True, 'timestep': 1, 'leap': False}}),
]


def _finding_examples():
    path = os.path.join(core.ROOT, 'known_findings.d', 'C07.json')
    try:
        with open(path) as f:
            return [(k['example_input']['op'], k['example_input']['input']) for k in json.load(f)['findings']]
    except (OSError, KeyError, ValueError):
        return []


_HIGH_LAT = {'cls': 'Location', 'args': ['Helsinki', '-', 'FIN', 60.2, 24.9, 2.0, 10.0, '029740', 'IWEC']}


def gen_wea_ctor(rng, how, ts=1, leap=False):
    """Round 5: steps of a Wea in an order that is NOT the calendar's (plain data for build(): spec key `ctor`).
    The steps never fill the period spanned by the first and the last of them (that is the reader's test for
    a Wea over a whole period), so the reader must keep the annual header and the steps as listed:
      wrap      December steps before January steps, fewer steps than days between the first and the last;
      shuffled  steps from all over the year in random order, first and last one hour apart on one day;
      reversed  the same in descending order."""
    mins = [0] if ts == 1 else [i * (60 // ts) for i in range(ts)]
    if how == 'wrap':
        d1, d2 = rng.randrange(18, 27), rng.randrange(6, 15)
        days = [(12, d) for d in range(d1, 32)] + [(1, d) for d in range(1, d2 + 1)]
        n = rng.randrange(3, min(len(days) - 2, 9))
        mid = sorted(rng.sample(range(1, len(days) - 1), n - 2))
        h = rng.randrange(8, 14)
        dts = [list(days[i]) + [rng.choice([h, h + 1, h + 2]), rng.choice(mins)] for i in [0] + mid + [len(days) - 1]]
        dts[0][2:] = [h, 0]                       # first and last: the hours h .. h+2 of the day
        dts[-1][2:] = [h + 2, 0]
        return {'ts': ts, 'leap': leap, 'dts': dts, 'validated': False}
    n = rng.choice([2 * ts + 2, 2 * ts + 3, 2 * ts + 6])
    seen, dts = set(), []
    if how == 'reversed':
        # first = a late-evening step at the end of December, last = an early-morning step at the start of January,
        # everything between them in descending order: the spanned period is an overnight one of >= 2 days
        # (>= 11 * ts + 1 steps > n)
        ends = [[12, rng.randrange(28, 32), 22, 0], [1, rng.randrange(1, 4), 3, 0]]
    else:
        m0, h0 = rng.randrange(1, 13), rng.randrange(0, 22)
        d0 = rng.randrange(1, _mdays(m0, leap) + 1)
        ends = [[m0, d0, h0, 0], [m0, d0, h0 + 1, 0]]       # spanned period: two hours of one day (< n steps)
    seen.update(tuple(e) for e in ends)
    while len(dts) < n - 2:
        m = rng.randrange(2, 12)
        d = [m, rng.randrange(1, _mdays(m, leap) + 1), rng.randrange(24), rng.choice(mins)]
        if leap and rng.random() < 0.3:
            d[0], d[1] = 2, 29
        if tuple(d) not in seen:
            seen.add(tuple(d))
            dts.append(d)
    if how == 'reversed':
        return {'ts': ts, 'leap': leap, 'dts': [ends[0]] + sorted(dts, reverse=True) + [ends[1]], 'validated': False}
    return {'ts': ts, 'leap': leap, 'dts': [ends[0]] + dts + [ends[1]], 'validated': False}


def _round5_cases(ctx, rng, k):
    """Round 5 (seeded C07-15): a READER THAT NORMALISES what the writer wrote (sorts, validates, removes
    duplicates, re-derives) - on the classes that hold collections inside another dictionary form (Wea).  The
    collection classes themselves have the unsorted / reversed / duplicated strata of round 4."""
    ops = ('dict_json', 'unknown_key', 'duplicate', 'pickle')
    # (1) Weas built through the public constructor from unflagged discontinuous collections over the whole year:
    #     OUTSIDE every recorded limitation - must read back equal, steps in the order written
    for how in ('wrap', 'shuffled', 'reversed'):
        for ts, leap in [(1, False), (rng.choice([2, 4, 3, 60]), True)] + ([(rng.choice(TIMESTEPS), rng.random() < 0.5)
                                                                          for _ in range(3)] if k > 1 else []):
            ctx.count('stratum:wea_steps_' + how)
            ctx.count('branch:Wea.from_dict:steps-do-not-fill-spanned-period')
            spec = {'cls': 'Wea', 'location': gen_location(rng), 'annual': False, 'ctor': gen_wea_ctor(rng, how, ts, leap)}
            for op in ops:
                yield op, {'spec': spec, 'seed': rng.randrange(10 ** 6)}
    # (2) the public selections that leave steps out of calendar order / not filling a period (inside the
    #     recorded limitation of the Wea dictionary - header period, collection class and validated flag are
    #     re-derived - which excuses THOSE parts only: location, values, datetimes and their order, timestep,
    #     year kind and the dictionary written again are still owed)
    wrap = [12, rng.randrange(18, 30), 0, 1, rng.randrange(2, 12), 23, 1, False]
    sels = [
        ('wrap_sun_up', _HIGH_LAT, 1, False, [{'k': 'ap', 'args': wrap}, {'k': 'sun_up', 'alt': rng.choice([0, 0, -6, 2])}]),
        ('hoys_unsorted', gen_location(rng), 1, False,
         [{'k': 'hoys', 'hoys': rng.sample(range(8760), rng.randrange(3, 9))}]),
        ('wrap_pattern', gen_location(rng), 1, False,
         [{'k': 'ap', 'args': [12, 30, 0, 1, 2, 23, 1, False]}, {'k': 'pattern', 'pattern': [True, False, True, True, False]}]),
    ]
    ts_pd = rng.choice([2, 4, 3])             # sub-hourly: the minutes of the datetime arrays matter
    sels.append(('wrap_part_day', gen_location(rng), ts_pd, False,
                 [{'k': 'ap', 'args': [12, 30, 8, 1, 2, 16, ts_pd, False]}]))
    if k > 1:
        sels += [
            ('moys_unsorted', gen_location(rng), 2, True,
             [{'k': 'moys', 'moys': [m * 30 for m in rng.sample(range(8784 * 2), 6)]}]),
            ('wrap_sun_up', _HIGH_LAT, 2, True, [{'k': 'ap', 'args': [12, 24, 0, 1, 6, 23, 2, True]}, {'k': 'sun_up', 'alt': 0}]),
            ('hoys_run_of_days', gen_location(rng), 1, False, [{'k': 'hoys', 'hoys': list(range(24, 72))}]),
            ('annual_sun_up', _HIGH_LAT, 1, False, [{'k': 'sun_up', 'alt': 0}]),
        ]
    for name, loc, ts, leap, sel in sels:
        ctx.count('stratum:wea_selection_' + name)
        spec = {'cls': 'Wea', 'location': loc, 'annual': True, 'timestep': ts, 'leap': leap, 'sel': sel}
        for op in ('dict_json', 'unknown_key') + (('duplicate',) if name != 'annual_sun_up' else ()):
            yield op, {'spec': spec, 'seed': rng.randrange(10 ** 6)}


_SERIES_META_POOL = [('source', 'TMY3'), ('city', 'Boston'), ('Zone', 'LIVING ROOM'), ('type', 'Zone Air Temperature'),
                     ('System', 'VAV_1'), ('Surface', 'ROOF 2'), ('run', 'annual'), ('case', 'B-7'), ('floor', '3')]
SERIES_STRATA = ('same_size_other_keys', 'same_keys_other_order', 'same_keys_other_values', 'sizes_differ',
                 'empty_next_to_filled', 'other_type_and_unit', 'overlapping_keys', 'other_period')


def gen_series(rng, how, kind=None, n=None):
    """Round 6: a series of 2-4 ALIGNED collections for one file whose members differ in one respect that a
    writer of the whole file could share between them (`how`, see SERIES_STRATA).  Plain data; every member
    is validated, has a default-named standard data type and text metadata without separators - outside
    every recorded limitation.  The odd member's place (first / middle / last) is random."""
    n = n or rng.choice([2, 2, 3, 4])
    base = gen_collection(rng, kind, rng.random() < 0.3, meta_kind='strings', generic=False)
    base['header']['dt']['name'] = None
    if 'validated' in base:
        base['validated'] = True
    m = rng.choice([2, 2, 3, 4])
    pool = list(_SERIES_META_POOL)
    rng.shuffle(pool)
    first = pool[:m]
    metas = []
    for i in range(n):
        if how == 'same_size_other_keys':
            metas.append(dict(first) if i == 0 else dict(rng.sample(pool[m:] + first[:1], m)
                                                         if rng.random() < 0.5 else pool[i:i + m]))
        elif how == 'overlapping_keys':           # one key in common, under another value
            metas.append(dict(first) if i == 0 else dict([(first[0][0], 'v%d' % i)] + pool[m + i:m + i + m - 1]))
        elif how == 'same_keys_other_order':
            ks = list(first)
            if i:
                ks = ks[1:] + ks[:1] if m == 2 or rng.random() < 0.5 else rng.sample(ks, m)
            metas.append(dict((k_, '%s %d' % (v_, i)) for k_, v_ in ks))
        elif how == 'same_keys_other_values':
            metas.append(dict((k_, v_ if i == 0 else '%s-%d' % (v_, i)) for k_, v_ in first))
        elif how == 'sizes_differ':
            metas.append(dict(pool[:(m + i) % 5 + 1]) if i else dict(first))
        elif how == 'empty_next_to_filled':
            metas.append(rng.choice([None, {}]) if i == 0 else dict(pool[:rng.choice([1, 2, 3])]))
        else:
            metas.append(dict(first))
    order = list(range(n))
    if rng.random() < 0.6:                        # the member that set the pattern is not always the first
        rng.shuffle(order)
    members = []
    for j, i in enumerate(order):
        c = copy.deepcopy(base)
        c['values'] = gen_values(rng, len(base['values']))
        c['immutable'] = rng.random() < 0.3
        c['header']['meta'] = metas[i]
        if how == 'other_period' and j and base['kind'] != 'HourlyContinuous':
            # aligned = same class, same datetimes: the header period of a discontinuous / daily / monthly
            # collection is free (same step and year kind here; the whole year holds every datetime)
            a0 = base['header']['ap']['args']
            whole = [1, 1, 0, 12, 31, 23, a0[6], a0[7]]
            c['header']['ap'] = {'cls': 'AnalysisPeriod',
                                 'args': whole if a0 != whole else [1, 1, 0, rng.randrange(1, 12), 28, 23, a0[6], a0[7]]}
        if how == 'other_type_and_unit' and j:
            # one respect at a time: another data type under the SAME unit, the same data type under another
            # unit, or both other
            u0, t0 = base['header']['unit'], base['header']['dt']['type']
            same_unit = [t for t in sorted(_types()) if t != t0 and u0 in _types()[t]._units]
            other_units = [u for u in _types()[t0]._units if u != u0]
            mode = rng.choice(['type', 'type', 'unit', 'both'])
            if mode == 'type' and same_unit:
                c['header']['dt'] = {'cls': 'DataType', 'type': rng.choice(same_unit), 'name': None}
            elif mode == 'unit' and other_units:
                c['header']['unit'] = rng.choice(other_units)
            else:
                dt = {'cls': 'DataType', 'type': rng.choice(sorted(_types())), 'name': None}
                c['header']['dt'] = dt
                c['header']['unit'] = rng.choice(_units_of(dt))
        members.append(c)
    return members


def _round6_cases(ctx, rng, k):
    """Round 6 (seeded C07-17): cross-talk between the members of one series in ONE file."""
    kinds = sorted(COLL_CLASSES)
    for r in range(k):
        for j, how in enumerate(SERIES_STRATA):
            for op in ('csv', 'json_file', 'pkl'):
                if op != 'csv' and r == 0 and how not in ('same_size_other_keys', 'other_type_and_unit',
                                                           'empty_next_to_filled') and ctx.quick and not ctx.searching:
                    continue                      # (the json / pkl writers have no shared layout: fewer in the quick tier)
                for _ in range(2 if op == 'csv' else 1):
                    kind = kinds[(j + r + rng.randrange(len(kinds))) % len(kinds)]
                    if how == 'other_period' and kind == 'HourlyContinuous':
                        kind = rng.choice(['Daily', 'Monthly', 'MonthlyPerHour', 'HourlyDiscontinuous'])
                    ms = gen_series(rng, how, kind)
                    inp = {'spec': ms[0], 'more': ms[1:], 'series': how, 'seed': 0}
                    if root_of(op, inp) not in ('none', 'csv_shared_period'):
                        ctx.count('series_in_known_limitation_skipped')
                        continue
                    ctx.count('stratum:series_%s:%s' % (how, op))
                    ctx.count('series_members:%d' % len(ms))
                    if op == 'csv':
                        sizes = set(len(m_['header']['meta'] or {}) for m_ in ms)
                        ctx.count('branch:collections_to_csv:' + ('one-row' if len(sizes) > 1 or sizes == {1}
                                                                  else 'per-row' if sizes != {0} else 'no-metadata'))
                    yield op, inp


def _oracle_cases(ctx):
    rng = ctx.rng
    for op, inp in CORPUS + _finding_examples():
        yield op, inp
    for x in _round5_cases(ctx, rng, 5 if (ctx.searching or not ctx.quick) else 1):
        yield x
    for x in _round6_cases(ctx, rng, 6 if (ctx.searching or not ctx.quick) else 2):
        yield x
    big = ctx.searching or not ctx.quick
    k = 5 if big else 1

    def emit(spec, ops):
        for op in ops:
            yield op, {'spec': spec, 'seed': rng.randrange(10 ** 6)}

    basic = ('dict_json', 'unknown_key', 'duplicate', 'pickle')
    for _ in range(60 * k):
        d = gen_dt(rng)
        for c, a in (('DateTime', d), ('Date', [d[0], d[1], d[4]]), ('Time', [d[2], d[3]])):
            for x in emit({'cls': c, 'args': a}, ('dict_json', 'unknown_key', 'pickle', 'array', 'text')):
                yield x
    for _ in range(150 * k):
        for x in emit(gen_ap(rng), basic + ('text',)):
            yield x
    for _ in range(120 * k):
        for x in emit(gen_location(rng), basic + ('text',)):
            yield x
    for t in sorted(_types()):
        for x in emit({'cls': 'DataType', 'type': t, 'name': None}, ('dict_json', 'duplicate', 'text')):
            yield x
    for _ in range(120 * k):
        for x in emit(gen_datatype(rng), ('dict_json', 'unknown_key', 'duplicate', 'text', 'pickle')):
            yield x
    for _ in range(100 * k):
        h = gen_header(rng)
        for x in emit(h, basic):
            yield x
        yield 'text', {'spec': h, 'per_row': rng.random() < 0.5, 'seed': 0}
    for kind in sorted(COLL_CLASSES):
        for imm in (False, True):
            for _ in range(14 * k):
                c = gen_collection(rng, kind, imm)
                for x in emit(c, basic + ('csv', 'json_file', 'pkl')):
                    yield x
    # aligned pairs of collections in one file
    for _ in range(12 * k):
        c = gen_collection(rng, meta_kind=rng.choice(['strings', 'empty', 'none']), generic=False)
        c2 = copy.deepcopy(c)
        c2['values'] = gen_values(rng, len(c['values']))
        c2['header']['meta'] = gen_meta(rng, rng.choice(['strings', 'empty', 'none']))
        for op in ('csv', 'json_file', 'pkl'):
            yield op, {'spec': c, 'more': [c2], 'seed': 0}
    for _ in range(60 * k):
        for x in emit({'cls': 'Color', 'args': gen_color(rng)}, basic + ('text',)):
            yield x
    for _ in range(80 * k):
        for x in emit(gen_colorrange(rng), ('dict_json', 'unknown_key', 'duplicate')):
            yield x
    for _ in range(80 * k):
        for x in emit(gen_legendpar(rng), ('dict_json', 'unknown_key', 'duplicate')):
            yield x
    for _ in range(30 * k):
        for x in emit(gen_legendpar_cat(rng), ('dict_json', 'duplicate')):
            yield x
    for _ in range(40 * k):
        for x in emit(gen_legend(rng), ('dict_json', 'duplicate')):
            yield x
    for _ in range(40 * k):
        for part in gen_designday_parts(rng):
            for x in emit(part, ('dict_json', 'duplicate', 'unknown_key')):
                yield x
    for _ in range(30 * k):
        for x in emit(gen_designday(rng), ('dict_json', 'duplicate')):
            yield x
    for _ in range(8 * k):
        loc = gen_location(rng)
        ddy = {'cls': 'DDY', 'location': loc, 'days': [gen_designday(rng, loc) for _ in range(rng.choice([1, 2, 3]))]}
        for x in emit(ddy, ('dict_json', 'duplicate')):
            yield x
    for _ in range(6 * k):
        for x in emit(gen_psych(rng), ('dict_json',)):
            yield x
    weas = [{'cls': 'Wea', 'location': gen_location(rng), 'annual': True, 'timestep': 1, 'leap': False},
            {'cls': 'Wea', 'location': gen_location(rng), 'annual': False,
             'ap': {'cls': 'AnalysisPeriod', 'args': [3, 1, 0, 3, 2, 23, 2, False]}},
            {'cls': 'Wea', 'location': gen_location(rng), 'annual': False,
             'ap': {'cls': 'AnalysisPeriod', 'args': [9, 30, 0, 10, 1, 23, 4, False]}}]
    if big:
        weas += [{'cls': 'Wea', 'location': gen_location(rng), 'annual': True, 'timestep': 2, 'leap': True},
                 {'cls': 'Wea', 'location': gen_location(rng), 'annual': False,
                  'ap': {'cls': 'AnalysisPeriod', 'args': [3, 1, 0, 3, 5, 23, 1, False]}},
                 {'cls': 'Wea', 'location': gen_location(rng), 'annual': False,
                  'ap': {'cls': 'AnalysisPeriod', 'args': [6, 21, 8, 6, 23, 17, 1, False]}}]
    for w in weas:
        for x in emit(w, ('dict_json', 'duplicate')):
            yield x
    epws = ['chicago.epw'] if not big else ['chicago.epw', 'tokyo.epw', 'boston.epw']
    for f in epws:
        if os.path.exists(os.path.join(core.REPO, 'tests', 'assets', 'epw', f)):
            yield 'dict_json', {'spec': {'cls': 'EPW', 'file': f}, 'seed': 0}
    for x in _round3_cases(ctx, rng, k):
        yield x
    for x in _round4_cases(ctx, rng, k):
        yield x


def _hist_specs(rng, k):
    """(spec, number of histories) for every class with setters / in-place operations / lazy attributes."""
    def lpc_named():
        s = gen_legendpar_cat(rng)
        s['names'] = ['cat %d' % i for i in range(len(s['domain']) + 1)]
        return s

    def lp_plain():
        s = gen_legendpar(rng)
        s.pop('p3d', None)
        s.pop('p2d', None)
        return s
    out = []
    for _ in range(20 * k):
        out.append(gen_location(rng))
    for _ in range(6 * k):
        out.append(gen_header(rng))
        out.append(gen_ap(rng, timestep=rng.choice([1, 1, 2, 3, 4, 60])) if rng.random() < 0.5 else gen_ap_cheap(rng))
    for _ in range(10 * k):
        out.append({'cls': 'Color', 'args': gen_color(rng)})
        d = gen_dt(rng)
        out.append({'cls': 'DateTime', 'args': d})
        out.append(gen_datatype(rng))
    for kind in sorted(COLL_CLASSES):
        for imm in (False, False, True):
            for _ in range(2 * k):
                out.append(gen_collection(rng, kind, imm))
    for _ in range(16 * k):
        out.append(gen_colorrange(rng))
        out.append(lp_plain())
    for _ in range(10 * k):
        out.append(lpc_named())
        out += list(gen_designday_parts(rng))
        out.append(gen_designday(rng))
    for _ in range(4 * k):
        loc = gen_location(rng)
        out.append({'cls': 'DDY', 'location': loc,
                    'days': [gen_designday(rng, loc) for _ in range(rng.choice([1, 2]))]})
    out.append({'cls': 'Wea', 'location': gen_location(rng), 'annual': False,
                'ap': {'cls': 'AnalysisPeriod', 'args': rng.choice([[2, 28, 0, 3, 1, 23, 1, True], [12, 31, 0, 1, 1, 23, 2, False],
                                                                     [6, 21, 0, 6, 21, 23, 1, False]])}})
    return out


def _round3_cases(ctx, rng, k):
    # (d) rare classes as strata of their own
    for lon in (7.5, -7.5, 22.5, -9.15, 180.0, -180.0, rng.uniform(7.5, 180), -rng.uniform(7.5, 180)):
        for tz in (0, 0.0):
            ctx.count('stratum:location_tz0_off_meridian')
            yield 'dict_json', {'spec': {'cls': 'Location', 'args': ['Lisbon', '-', 'PRT', rng.choice([0, 38.73]), lon, tz,
                                                                      rng.choice([0, 71]), '085360', 'IWEC']}, 'seed': 0}
    for args in (['', '', '', 0, 0, 0, 0, '', ''], [None, None, None, 0.0, -0.0, 0.0, -0.0, None, None],
                 ['a', 'b', 'c', 90, 180, 14, 0, 0, 0], ['a', 'b', 'c', -90, -180, -12, 0, '0', '0']):
        ctx.count('stratum:location_zero_and_bounds')
        for op in ('dict_json', 'duplicate', 'text'):
            yield op, {'spec': {'cls': 'Location', 'args': args}, 'seed': 0}
    # leap-year data in every consumer of the datetime arrays (non-annual Wea carries `datetimes` arrays)
    for a in ([2, 27, 0, 3, 2, 23, 1, True], [2, 29, 0, 2, 29, 23, rng.choice([1, 2, 4]), True],
              [12, 30, 0, 1, 2, 23, 1, True])[:(3 if k > 1 else 1)]:
        ctx.count('stratum:wea_partial_leap')
        yield 'dict_json', {'spec': {'cls': 'Wea', 'location': gen_location(rng), 'annual': False,
                                     'ap': {'cls': 'AnalysisPeriod', 'args': a}}, 'seed': 0}
    for d in ([2, 29, 12, 30, True], [3, 1, 0, 0, True], [12, 31, 23, 59, True], [1, 1, 0, 0, True], [2, 28, 23, 0, False]):
        ctx.count('stratum:leap_arrays')
        for c, a in (('DateTime', d), ('Date', [d[0], d[1], d[4]])):
            for op in ('array', 'text', 'dict_json', 'pickle'):
                yield op, {'spec': {'cls': c, 'args': a}, 'seed': 0}
    for kind in sorted(COLL_CLASSES):          # single-element collections, mutable and immutable
        for imm in (False, True):
            c = gen_collection(rng, kind, imm, meta_kind='empty', generic=False)
            if kind != 'HourlyContinuous':
                c['values'], c['datetimes'] = c['values'][:1], c['datetimes'][:1]
                ctx.count('stratum:single_element_collection')
                for op in ('dict_json', 'duplicate', 'json_file', 'pkl'):
                    yield op, {'spec': c, 'seed': 0}
    # (b)(c) histories on one object
    for spec in _hist_specs(rng, k):
        ops = gen_history(rng, spec, refused_first=rng.random() < 0.25)
        if not ops:
            continue
        ctx.count('history:' + spec['cls'])
        ctx.count('history_ops', len(ops))
        ctx.count('history_sets', sum(1 for o in ops if o['k'] != 'read'))
        yield 'history', {'spec': spec, 'ops': ops}
    # (b) several objects of one class read in one process
    for _ in range(40 * k):
        r = rng.random()
        if r < 0.35:
            t = rng.choice(sorted(_types()))
            specs = [{'cls': 'DataType', 'type': t, 'name': n} for n in
                     rng.sample([None, 'my custom name', 'Zone Air Temperature', 'thing 2', 'x'], rng.choice([2, 3]))]
            if rng.random() < 0.5:
                u = _units_of(specs[0])[0]
                specs = [{'cls': 'Header', 'dt': s_, 'unit': u, 'ap': gen_ap_cheap(rng), 'meta': gen_meta(rng)} for s_ in specs]
        elif r < 0.5:
            specs = [gen_datatype(rng, generic=True) for _ in range(3)]
        elif r < 0.65:
            specs = [gen_location(rng) for _ in range(3)]
        elif r < 0.8:
            kind = rng.choice(sorted(COLL_CLASSES))
            specs = [gen_collection(rng, kind, rng.random() < 0.4) for _ in range(3)]
        elif r < 0.9:
            specs = [gen_legendpar(rng) for _ in range(3)]
        else:
            specs = [gen_designday(rng) for _ in range(2)] + [gen_colorrange(rng)]
        if rng.random() < 0.4:
            # near twins: the same instance with ONE field changed (year kind, timestep, an hour, a number),
            # read in one process - a memo keyed on a subset of the fields hands out the wrong twin
            base = gen_ap(rng, leap=False)
            if base['args'][:2] == [2, 29] or base['args'][3:5] == [2, 29]:
                continue
            tw = copy.deepcopy(base)
            which = rng.choice(['leap', 'timestep', 'st_hour', 'end_hour'])
            if which == 'leap':
                tw['args'][7] = True
            elif which == 'timestep':
                tw['args'][6] = rng.choice([t_ for t_ in TIMESTEPS if t_ != base['args'][6]])
            elif which == 'st_hour':
                tw['args'][2] = (base['args'][2] + 1) % 24
            else:
                tw['args'][5] = (base['args'][5] + 23) % 24
            wrap = rng.choice(['AnalysisPeriod', 'Header', 'Monthly', 'DateTime', 'Location'])
            ctx.count('seq_twins:' + wrap + ':' + which)
            if wrap == 'AnalysisPeriod':
                specs = [base, tw]
            elif wrap == 'Header':
                base['args'][2], base['args'][5], tw['args'][2], tw['args'][5] = 0, 23, 0, 23
                dt = gen_datatype(rng, generic=False)
                dt['name'] = None
                u = _units_of(dt)[0]
                specs = [{'cls': 'Header', 'dt': dt, 'unit': u, 'ap': a_, 'meta': None} for a_ in (base, tw)]
            elif wrap == 'Monthly':
                base['args'][2], base['args'][5], tw['args'][2], tw['args'][5] = 0, 23, 0, 23
                specs = [{'cls': 'Collection', 'kind': rng.choice(['Monthly', 'MonthlyPerHour']), 'immutable': rng.random() < 0.4,
                          'header': _hdr(ap=a_), 'values': [1.5, 2.5], 'datetimes': None, 'validated': False}
                         for a_ in (base, tw)]
                for s_ in specs:
                    s_['datetimes'] = [2, 3] if specs[0]['kind'] == 'Monthly' else [[2, 0, 0], [3, 23, 30]]
                    s_['kind'] = specs[0]['kind']
            elif wrap == 'DateTime':
                d = gen_dt(rng, leap=False)
                specs = [{'cls': 'DateTime', 'args': d}, {'cls': 'DateTime', 'args': d[:4] + [True]}]
            else:
                l1 = gen_location(rng)
                l2 = copy.deepcopy(l1)
                i_ = rng.choice([3, 4, 5, 6])
                l2['args'][i_] = rng.choice([0, 1.5, -7.25])
                specs = [l1, l2]
        if any(root_of('dict_json', {'spec': s_}) != 'none' for s_ in specs):
            continue
        order = list(range(len(specs)))
        rng.shuffle(order)
        ctx.count('seq:' + specs[0]['cls'])
        yield 'seq', {'specs': specs, 'order': order}


# --- round 4 generators ---------------------------------------------------------------------------

# numeric edges (kind h): texts with an exponent and no fraction part, magnitudes 1e-12 .. 1e+16 and beyond,
# values on a half, negative zero, integers beyond 2**53; infinities only where the class accepts them
EDGE_FLOATS = (1e-05, 5e-05, -1e-07, 2.5e-10, 1e-12, 1e16, 3e+16, 1.25e16, -4e+18, 1e22, 1e100, 0.5, 1.5, 2.5, -0.5,
               -0.0, 0.1 + 0.2, 1e15 + 0.5, 123456789012345678.0, float(2 ** 53), 5e-324, 1.7976931348623157e308,
               99999.99999999999, 1e-4, 0.0001234, 1e21, 1e-7)
EXOTIC_STR = (u'Köln', u'São Paulo', u'東京', u'a b', "O'Hare", '"q"', 'x;y', 'tab\tin', u'°C room',
              u'café – nord', 'a=b', '#1', '100%', u'\U0001F321 hot', '  padded  ', '1e5', 'None', 'true')


def _alias_ops(rng, spec):
    """Editing operations for one object: accepted-looking assignments of the class and of its parts,
    item assignment, in-place conversion, and edits of the dictionaries it hands out."""
    c = spec['cls']
    ops = [o for o in gen_history(rng, spec, n_ops=6) if o['k'] != 'read']
    for attr, key in sorted(_SUB.get(c, {}).items()):
        sub = spec.get(key)
        if isinstance(sub, dict) and 'cls' in sub:
            for a_, good, _bad in _hist_pool(rng, sub):
                if good and rng.random() < 0.6:
                    ops.append({'k': 'set', 'attr': attr + '.' + a_, 'v': rng.choice(good)})
    if c == 'Collection':
        for a_, good, _bad in _hist_pool(rng, spec['header']):
            ops.append({'k': 'set', 'attr': 'header.' + a_, 'v': rng.choice(good)})
        ops.append({'k': 'poke', 'path': 'header.metadata', 'key': 'zz', 'v': 'edited'})
        ops.append({'k': 'setitem', 'i': 0, 'v': 987.5})
    if c == 'Header':
        ops.append({'k': 'poke', 'path': 'metadata', 'key': 'zz', 'v': 'edited'})
    # (the ordinal / user-data dictionaries of legend parameters are shared by copies on purpose: shallow
    #  ownership, like the dictionary form; they are replaced, not edited, here)
    rng.shuffle(ops)
    return ops[:8]


_ALIAS_VIAS = {
    'Collection': ('duplicate', 'copy', 'deepcopy', 'pickle', 'dict', 'fresh', 'to_mutable', 'to_immutable'),
    'default': ('duplicate', 'copy', 'deepcopy', 'pickle', 'dict', 'fresh'),
}


def _shape_specs(rng, k):
    """Specs of every class with a sequence argument."""
    out = []
    for kind in sorted(COLL_CLASSES):
        for imm in (False, True):
            out.append(gen_collection(rng, kind, imm, generic=False))
    out += [gen_colorrange(rng) for _ in range(2)]
    lp = gen_legendpar(rng)
    lp['colors'] = [gen_color(rng) for _ in range(rng.choice([2, 3, 6]))]
    out.append(lp)
    lpc = gen_legendpar_cat(rng)
    lpc['names'] = ['cat %d' % i for i in range(len(lpc['domain']) + 1)]
    out.append(lpc)
    out.append(gen_legend(rng))
    loc = gen_location(rng)
    out.append({'cls': 'DDY', 'location': loc, 'days': [gen_designday(rng, loc) for _ in range(rng.choice([1, 2, 3]))]})
    return out


def _edge_collection(rng, kind, imm):
    c = gen_collection(rng, kind, imm, meta_kind=rng.choice(['none', 'empty', 'strings']), generic=False)
    c['header']['dt'] = {'cls': 'DataType', 'type': rng.choice(['Temperature', 'Energy', 'Illuminance']), 'name': None}
    c['header']['unit'] = _units_of(c['header']['dt'])[0]
    n = len(c['values'])
    pool = list(EDGE_FLOATS) + ['inf', '-inf']
    vals = [rng.choice(pool) for _ in range(n)]
    if n <= 48:
        vals = (rng.sample(pool, min(n, len(pool))) + vals)[:n]
    c['values'] = vals
    c['edge'] = True
    if 'validated' in c:
        c['validated'] = True
    return c


def _round4_cases(ctx, rng, k):
    basic = ('dict_json', 'duplicate', 'pickle')
    none_root = lambda s_: root_of('dict_json', {'spec': s_}) == 'none'
    # (f)(i) every sequence argument as list / tuple / generator / iterator / map / filter / deque
    for _ in range(k):
        for spec in _shape_specs(rng, k):
            if not none_root(spec):
                continue
            for shp in SHAPES:
                ctx.count('shape:' + shp)
                ctx.count('shape_cls:' + spec['cls'])
                yield 'shape', {'spec': dict(spec, shape=shp)}
    if k > 1:
        yield 'shape', {'spec': {'cls': 'Wea', 'location': gen_location(rng), 'annual': True, 'timestep': 1,
                                 'leap': rng.random() < 0.5, 'shape': rng.choice(['tuple', 'gen'])}}
    # (i) numbers given as text
    for _ in range(4 * k):
        for mode in ('plain', 'pad', 'exp'):
            for spec in (gen_location(rng), {'cls': 'Color', 'args': gen_color(rng)}, gen_ap(rng),
                         gen_legendpar_cat(rng)):
                if spec['cls'] == 'LegendParametersCategorized':
                    spec['names'] = ['cat %d' % i for i in range(len(spec['domain']) + 1)]
                ctx.count('strnum:' + spec['cls'] + ':' + mode)
                yield 'shape', {'spec': dict(spec, strnum=mode)}
    # (f) the series handed to the file writers in every shape (and a second call with the same series)
    for _ in range(k):
        for op in ('csv', 'json_file', 'pkl'):
            for shp in SHAPES:
                c = gen_collection(rng, meta_kind=rng.choice(['strings', 'empty', 'none']), generic=False)
                c['header']['dt']['name'] = None
                if 'validated' in c:
                    c['validated'] = True
                inp = {'spec': c, 'shape': shp, 'seed': 0}
                if rng.random() < 0.6:
                    c2 = copy.deepcopy(c)
                    c2['values'] = gen_values(rng, len(c['values']))
                    inp['more'] = [c2]
                ctx.count('file_shape:' + op + ':' + shp)
                yield op, inp
    # (j) rare branches of the file writers: new folder, file name with its extension (capitals too), blanks
    for op, ext in (('csv', 'csv'), ('json_file', 'json'), ('pkl', 'pkl')):
        for fname in ('data.' + ext, 'DATA.' + ext.upper(), 'my data', 'a.b'):
            for newdir in (False, True):
                c = gen_collection(rng, meta_kind='strings', generic=False)
                c['header']['dt']['name'] = None
                if 'validated' in c:
                    c['validated'] = True
                ctx.count('branch:file_%s_%s' % ('newdir' if newdir else 'dir', 'ext' if fname.lower().endswith(ext) else 'noext'))
                yield op, {'spec': c, 'fname': fname, 'newdir': newdir, 'seed': 0}
    # (e) every copy form on every class that is not a collection / basic value (those have them already)
    for _ in range(3 * k):
        loc = gen_location(rng)
        others = [gen_colorrange(rng), gen_legendpar(rng), gen_legend(rng), gen_designday(rng),
                  {'cls': 'DDY', 'location': loc, 'days': [gen_designday(rng, loc) for _ in range(rng.choice([1, 2]))]}]
        others += list(gen_designday_parts(rng))
        lpc = gen_legendpar_cat(rng)
        lpc['names'] = ['cat %d' % i for i in range(len(lpc['domain']) + 1)]
        others.append(lpc)
        for spec in others:
            ctx.count('stratum:pickle_all_classes')
            yield 'pickle', {'spec': spec, 'seed': 0}
    # (f) aliasing: copies, read-backs, twins and second objects are separate values
    specs = []
    for _ in range(2 * k):
        specs += [gen_location(rng), gen_header(rng, generic=False), {'cls': 'Color', 'args': gen_color(rng)},
                  gen_colorrange(rng), gen_legendpar(rng), gen_legend(rng), gen_designday(rng)]
        specs += list(gen_designday_parts(rng))
        lpc = gen_legendpar_cat(rng)
        lpc['names'] = ['cat %d' % i for i in range(len(lpc['domain']) + 1)]
        specs.append(lpc)
        loc = gen_location(rng)
        specs.append({'cls': 'DDY', 'location': loc, 'days': [gen_designday(rng, loc) for _ in range(2)]})
    for kind in sorted(COLL_CLASSES):
        for imm in (False, True):
            specs.append(gen_collection(rng, kind, imm, generic=False))
    specs += [{'cls': 'LegendParameters'}, {'cls': 'ColorRange', 'colors': None, 'domain': None, 'continuous': True},
              {'cls': 'Header', 'dt': {'cls': 'DataType', 'type': 'Temperature', 'name': None}, 'unit': 'C',
               'ap': {'cls': 'AnalysisPeriod', 'args': [1, 1, 0, 12, 31, 23, 1, False]}, 'meta': None},
              {'cls': 'Legend', 'values': [0, 10], 'lp': None},
              {'cls': 'Location', 'args': []}]                       # default-built: shared default arguments
    for spec in specs:
        if not none_root(spec):
            continue
        c = spec['cls']
        vias = _ALIAS_VIAS.get(c, _ALIAS_VIAS['default'])
        for via in vias:
            if via in ('copy',) and c in ('Location0',):
                continue
            ops = _alias_ops(rng, spec)
            if not ops:
                continue
            ctx.count('alias:' + via)
            ctx.count('alias_cls:' + c)
            yield 'alias', {'spec': spec, 'via': via, 'dir': rng.choice([0, 0, 1]), 'ops': ops}
        for via in ('to_dict', 'from_dict_arg'):
            ctx.count('alias:' + via)
            yield 'alias', {'spec': spec, 'via': via}
    # (e) sibling classes: mutable / immutable twins of every collection class
    for kind in sorted(COLL_CLASSES):
        for _ in range(2 * k):
            c = gen_collection(rng, kind, False)
            ctx.count('twin:' + kind)
            yield 'twin', {'spec': c}
    # (i) hand-written text forms
    for _ in range(8 * k):
        ap = gen_ap(rng)
        for style in ('plain', 'pad2', 'upper', 'blanks', 'tight', 'mixed'):
            ctx.count('text_shape:AnalysisPeriod:' + style)
            yield 'text_shape', {'spec': ap, 'style': style}
        d = gen_dt(rng)
        for c, a in (('DateTime', d), ('Date', [d[0], d[1], d[4]]), ('Time', [d[2], d[3]])):
            for style in ('short', 'long', 'upper'):
                ctx.count('text_shape:' + c)
                yield 'text_shape', {'spec': {'cls': c, 'args': a}, 'style': style}
    # (h) numeric edges in every value-carrying form
    for kind in sorted(COLL_CLASSES):
        for imm in (False, True):
            for _ in range(k):
                c = _edge_collection(rng, kind, imm)
                ctx.count('stratum:edge_values')
                for op in basic + ('csv', 'json_file', 'pkl'):
                    yield op, {'spec': c, 'seed': rng.randrange(10 ** 6)}
    for v in rng.sample(EDGE_FLOATS, 8 * min(k, 3)):
        ctx.count('stratum:edge_numbers')
        yield 'dict_json', {'spec': {'cls': 'Location', 'args': ['x', None, None, 0.5, -0.5, None, v, None, None]}, 'seed': 0}
        yield 'text', {'spec': {'cls': 'Location', 'args': ['x', None, None, 1e-05, -1e-07, 1e-12, v, None, None]}, 'seed': 0}
        yield 'dict_json', {'spec': {'cls': 'DryBulbCondition', 'args': [v, abs(v)]}, 'seed': 0}
        yield 'dict_json', {'spec': {'cls': 'WindCondition', 'args': [abs(v), 22.5]}, 'seed': 0}
        yield 'dict_json', {'spec': {'cls': 'Legend', 'values': [v, -v, 0], 'lp': None}, 'seed': 0}
        yield 'dict_json', {'spec': {'cls': 'ColorRange', 'colors': None, 'domain': sorted([v, v + abs(v) + 1]), 'continuous': True}, 'seed': 0}
        yield 'dict_json', {'spec': {'cls': 'LegendParametersCategorized', 'domain': [v], 'colors': [[0, 0, 0, 255], [9, 9, 9, 255]],
                                     'names': ['lo', 'hi']}, 'seed': 0}
    for lon in (7.5, -7.5, 22.5, -22.5, 37.5, 52.5, 172.5, -172.5, 7.499999999999999, 7.500000000000001):
        ctx.count('stratum:time_zone_half')          # round(lon / 15) on a half: time zone derived, then stored
        for op in ('dict_json', 'duplicate', 'text'):
            yield op, {'spec': {'cls': 'Location', 'args': ['x', None, None, 0, lon, None, 0, None, None]}, 'seed': 0}
    # (i) exotic but legal characters in every text field
    for sx in rng.sample(EXOTIC_STR, 6 if k == 1 else len(EXOTIC_STR)):
        ctx.count('stratum:exotic_text')
        loc = {'cls': 'Location', 'args': [sx, sx, sx, 1.5, 2.5, 0, 3, sx, sx]}
        for op in basic:
            yield op, {'spec': loc, 'seed': 0}
        h = _hdr(meta={'k ' + sx: sx} if _meta_kind({'k ' + sx: sx}) == 'strings' else {'k': 'v'})
        yield 'dict_json', {'spec': h, 'seed': 0}
        yield 'text', {'spec': h, 'per_row': rng.random() < 0.5, 'seed': 0}
        mc = {'cls': 'Collection', 'kind': 'Monthly', 'immutable': False, 'header': h, 'values': [1.5, 2.5],
              'datetimes': [2, 3], 'validated': True}
        for op in ('csv', 'json_file', 'pkl'):
            yield op, {'spec': mc, 'seed': 0}
        yield 'dict_json', {'spec': {'cls': 'DataType', 'generic': [sx, sx, 0, 10, sx, None, True, False], 'int_keys': False}, 'seed': 0}
        yield 'dict_json', {'spec': {'cls': 'LegendParameters', 'title': sx, 'font': sx, 'user_data': {sx: sx}}, 'seed': 0}
        yield 'dict_json', dict(spec=dict(gen_designday(rng), name=sx), seed=0)
    # (i) unsorted and duplicated datetimes (nothing sorts or validates them unless asked)
    for kind in ('HourlyDiscontinuous', 'Daily', 'Monthly', 'MonthlyPerHour'):
        for imm in (False, True):
            for how in ('reversed', 'shuffled', 'duplicated'):
                c = gen_collection(rng, kind, imm, meta_kind='strings', generic=False)
                c['header']['dt']['name'] = None
                dts = list(c['datetimes'])
                if how == 'reversed':
                    dts.reverse()
                elif how == 'shuffled':
                    rng.shuffle(dts)
                else:
                    dts = (dts + dts)[:len(dts) + 1]
                    c['values'] = (list(c['values']) * 2)[:len(dts)]
                c['datetimes'] = dts
                c['validated'] = how != 'duplicated' and rng.random() < 0.5
                ctx.count('stratum:datetimes_' + how)
                for op in basic + ('json_file', 'pkl') + (('csv',) if c['validated'] else ()):
                    yield op, {'spec': c, 'seed': 0}


def oracle(ctx):
    with contextlib.redirect_stdout(io.StringIO()):     # ladybug prints notices ("Updated end_day ...")
        _oracle(ctx)


def _oracle(ctx):
    def counted(cases):
        for op, inp in cases:
            if 'spec' not in inp:
                ctx.count('spec:' + op)
                yield op, inp
                continue
            s = inp['spec']
            r = root_of(op if op not in ('history',) + _R4_OPS else 'dict_json', inp)
            if r.startswith('multiple'):
                ctx.count('skipped:compound-known-limitations')
                continue
            # the known-limitation domains are probed by the fixed corpus and a few generated cases
            # only: the failure list of a run is capped, and the rest of the stream must be reached
            if r != 'none' and ctx.counters.get('root:' + r, 0) >= (24 if r == 'wea_discontinuous' else 6):
                ctx.count('skipped:known-limitation-domain')
                continue
            ctx.count('root:' + r)
            ctx.count('spec:' + s['cls'] + (':' + s['kind'] if s['cls'] == 'Collection' else ''))
            yield op, inp
    del UNCONSTRUCTIBLE[:]
    pool = []

    def tee(cases):
        for op, inp in cases:
            heavy = 'spec' in inp and (inp['spec']['cls'] in ('EPW', 'PsychrometricChart') or
                                       (inp['spec']['cls'] == 'Wea'))
            if not heavy and ('spec' not in inp or root_of(op if op not in ('history',) + _R4_OPS else 'dict_json', inp) == 'none'):
                pool.append((op, copy.deepcopy(inp)))
            yield op, inp
    run_oracle_cases(ctx, tee(counted(_oracle_cases(ctx))), check_case)
    ctx.count('unconstructible_specs', len(UNCONSTRUCTIBLE))
    if len(ctx.failures) < 200:
        _order_runs(ctx, pool)
    _faithful_first(ctx, pool)


def _twin_specs(spec):
    """Copies of a spec with ONE field of one nested part changed (year kind, timestep, hour, name, number)."""
    out = []

    def walk(node, path):
        if isinstance(node, dict):
            c, a = node.get('cls'), node.get('args')
            if c == 'AnalysisPeriod' and a and [a[0], a[1]] != [2, 29] and [a[3], a[4]] != [2, 29]:
                out.append((path + ['args', 7], not a[7]))
                out.append((path + ['args', 6], 2 if a[6] == 1 else 1))
                out.append((path + ['args', 2], (a[2] + 1) % 24))
            if c in ('DateTime', 'Date') and a and a[:2] != [2, 29]:
                out.append((path + ['args', len(a) - 1], not a[-1]))
            if c == 'DataType' and 'type' in node:
                out.append((path + ['name'], None if node.get('name') else 'my custom name'))
            if c == 'Location' and a and len(a) >= 7:
                for i_ in (3, 4, 5, 6):
                    out.append((path + ['args', i_], 1.5 if a[i_] != 1.5 else 0))
            for k_, v_ in node.items():
                walk(v_, path + [k_])
        elif isinstance(node, list):
            for i_, v_ in enumerate(node):
                if isinstance(v_, (dict, list)):
                    walk(v_, path + [i_])
    walk(spec, [])
    res = []
    for path, val in out:
        t = copy.deepcopy(spec)
        n = t
        for p_ in path[:-1]:
            n = n[p_]
        n[path[-1]] = val
        res.append(t)
    return res


def _faithful_first(ctx, pool):
    """The first unexplained failure becomes the replay.  When it does not fail ALONE in a fresh
    interpreter it depends on what ran before it in this process: put a failure that replays (an `order`
    failure, or the shrunk prefix of the stream that leads to it) in front."""
    unk = [f for f in ctx.failures if _known_hit(f['sig']) is None]
    if not unk or unk[0]['op'] == 'order':
        return
    f0 = unk[0]
    try:
        alone = _run_orders([[[f0['op'], f0['input']]]])[0]
    except Exception:
        return
    if alone and alone[0]:
        return
    ctx.count('order:in_process_failure_not_reproducible_alone')
    ords = [f for f in unk if f['op'] == 'order']
    if not ords and 'spec' in f0['input']:
        # near twins of the failing instance read first (a memo keyed on a subset of the fields; the
        # polluting read may have happened in the correspondence phase of this process)
        tws = _twin_specs(f0['input']['spec'])[:12]
        cands = [[[f0['op'], dict(f0['input'], spec=t)], [f0['op'], f0['input']]] for t in tws]
        for i in range(0, len(cands), 4):
            for order, res in zip(cands[i:i + 4], _run_orders(cands[i:i + 4])):
                if res and len(res) == 2 and res[1] and not res[0]:
                    rr = _check_order('order', {'order': order})
                    if rr:
                        ctx.failures.insert(0, {'op': 'order', 'input': {'order': order}, 'required': rr['required'],
                                                'observed': rr['observed'], 'sig': dict(rr['sig'], op='order')})
                        return
    if not ords:
        key = jdump(f0['input'])
        idx = next((i for i, c in enumerate(pool) if c[0] == f0['op'] and jdump(c[1]) == key), None)
        if idx is not None:
            order = [[o, i] for o, i in pool[:idx + 1]]
            res = _run_orders([order])[0]
            if res and res[-1]:
                small = _shrink_order(order, len(order) - 1)
                rr = _check_order('order', {'order': small})
                if rr:
                    ctx.failures.insert(0, {'op': 'order', 'input': {'order': small}, 'required': rr['required'],
                                            'observed': rr['observed'], 'sig': dict(rr['sig'], op='order')})
        return
    ctx.failures.remove(ords[0])
    ctx.failures.insert(0, ords[0])


def _order_runs(ctx, pool):
    """Process-order independence: a slice of the stream, evaluated in fresh interpreters in different
    orders (rare classes first in one of them).  A module- or class-level slot filled by the first call
    shows as a failure that depends on the order; the replay carries the (shrunk) order."""
    rng = ctx.rng
    big = ctx.searching or not ctx.quick
    n = 400 if big else 70
    special = [c for c in pool if c[0] in ('history', 'seq')]
    plain = [c for c in pool if c[0] not in ('history', 'seq')]
    rng.shuffle(special)
    rng.shuffle(plain)
    sl = special[:n // 3] + plain[:n - min(len(special), n // 3)]
    if not sl:
        return
    sl = [[op, inp] for op, inp in sl]
    o_rare = sorted(sl, key=_rarity_key)
    o_shuf = list(sl)
    rng.shuffle(o_shuf)
    o_rev = list(reversed(o_rare))
    orders = [o_rare, o_shuf]
    if big:
        o4 = list(sl)
        rng.shuffle(o4)
        orders += [o_rev, o4]
    results = _run_orders(orders)
    for order, res in zip(orders, results):
        ctx.count('order:processes')
        ctx.count('order:cases', len(order))
        for j, r in enumerate(res):
            if not r or _known_hit(r.get('sig') or {}) is not None:
                continue
            small = _shrink_order(order, j)
            rr = _check_order('order', {'order': small}) or {'required': r.get('required'), 'observed': r.get('observed'),
                                                            'sig': dict(r.get('sig') or {}, in_order=True)}
            ctx.evaluations += 1
            ctx.fail('order', {'order': small}, rr['required'], rr['observed'], rr['sig'])
            break          # one failing order per process is enough for a replay


def _fails_same(order):
    res = _run_orders([order])[0]
    r = res[-1] if res else None
    return bool(r) and _known_hit(r.get('sig') or {}) is None


def _shrink_order(order, j):
    """Smallest order (found by bisection over the prefix) in which case j still fails."""
    target = order[j]
    if _fails_same([target]):
        return [target]
    pre = order[:j]
    lo, hi = 0, len(pre)           # pre[lo:] + [target] fails for lo = 0
    while hi - lo > 1:
        mid = (lo + hi) // 2
        if _fails_same(pre[mid:] + [target]):
            lo = mid
        else:
            hi = mid
    if _fails_same([pre[lo], target]):
        return [pre[lo], target]
    return pre[lo:] + [target]


# ---------------------------------------------------------------------------------------------
# correspondence: model enc(dec v) vs real from_dict(v).to_dict()

class _Shim(object):
    """Wraps an already computed dictionary so that it can stand where an object is expected."""
    def __init__(self, d):
        self._d = d

    def to_dict(self):
        return self._d


MODEL_CLASSES = {
    'DateTime': lambda L: L['dt'].DateTime, 'Date': lambda L: L['dt'].Date, 'Time': lambda L: L['dt'].Time,
    'AnalysisPeriod': lambda L: L['ap'].AnalysisPeriod, 'Location': lambda L: L['loc'].Location,
    'Color': lambda L: L['col'].Color, 'DataType': lambda L: L['DataTypeBase'],
    'Header': lambda L: L['hd'].Header,
}


def _mutations(d, rng, n, strings=True):
    """Variants of a dictionary: key order, dropped keys, nulls, wrong types, bad values."""
    out = []
    for _ in range(n):
        v = deep_shuffle(copy.deepcopy(d), rng)
        r = rng.random()
        ks = [k for k in v.keys()]
        if r < 0.35 and ks:
            for k in rng.sample(ks, rng.randrange(1, min(3, len(ks)) + 1)):
                v.pop(k)
        elif r < 0.5 and ks:
            v[rng.choice(ks)] = None
        elif r < 0.6 and ks:
            k = rng.choice(ks)
            if isinstance(v[k], bool):
                v[k] = not v[k]
            elif isinstance(v[k], int):
                # negative hour/minute are normalised by float arithmetic in dt.py (Time(23, -1) is
                # 22:59): outside the property and outside the model
                v[k] = rng.choice([0, 13, 32, 24, 61, 255, 256, 7] + ([] if k in ('hour', 'minute') else [-1]))
            elif isinstance(v[k], str) and k != 'unit' and strings:   # unit lists of standard types: not modelled
                v[k] = rng.choice(['', 'Nope', 'GenericType', 'Temperature'])
        elif r < 0.7:
            v['zz_unknown'] = rng.choice([1, 'x', None, [1], {'a': 1}])
        out.append(v)
    return out


def _model_rt(ctx, op, cls, dicts, reader):
    """Compare the model's enc(dec v) with reader(v).to_dict() for every dictionary in dicts."""
    def impl(d):
        back = reader(copy.deepcopy(d)).to_dict()
        return 'ok ' + wire(back)

    core.compare_batch(ctx, op, dicts, lambda d: 'rt %s %s' % (cls, wire(d)), impl,
                       canon=canon_line, key=lambda d: jdump(d))


def correspondence(ctx):
    with contextlib.redirect_stdout(io.StringIO()):
        _correspondence(ctx)


def _correspondence(ctx):
    L = _imp()
    rng = ctx.rng
    n = ctx.n(1, 6)

    # JSON library assumptions behind jsonRT: floats bit-exact, tuples -> lists, int keys -> text
    vals = [gen_float(rng) for _ in range(400 * n)] + [0.0, -0.0, 1e-320, 1e308, 0.1, 1 / 3.0]
    for x in vals:
        ctx.compared += 1
        ctx.count('op:json_float')
        if _fbits(json.loads(json.dumps(x))) != _fbits(x):
            ctx.disagree('json_float', repr(x), 'bit-exact', repr(json.loads(json.dumps(x))))
    jcases = []
    for _ in range(150 * n):
        jcases.append({'a': (1, 2.5, [3, (4, 'x')]), 'k': {1: 'one', -2: 'm', 'z': None}, 'b': True,
                       'v': [gen_float(rng), rng.randrange(-9, 9)], gen_str(rng): gen_str(rng, True)})
    core.compare_batch(ctx, 'json', jcases, lambda d: 'json ' + wire(d),
                       lambda d: 'ok ' + wire(json.loads(json.dumps(d))), canon=canon_line, key=repr)

    def real_dicts(specs, rc=None):
        out = []
        for s in specs:
            try:
                obj = build(s)
                out.append(json.loads(json.dumps(obj.to_dict())))
            except Exception:
                ctx.count('spec_not_constructible')
        return out

    # basic classes
    dts = [gen_dt(rng) for _ in range(120 * n)]
    groups = [
        ('DateTime', [{'cls': 'DateTime', 'args': d} for d in dts]),
        ('Date', [{'cls': 'Date', 'args': [d[0], d[1], d[4]]} for d in dts]),
        ('Time', [{'cls': 'Time', 'args': [d[2], d[3]]} for d in dts]),
        ('AnalysisPeriod', [gen_ap(rng) for _ in range(250 * n)]),
        ('Location', [gen_location(rng) for _ in range(250 * n)]),
        ('Color', [{'cls': 'Color', 'args': gen_color(rng)} for _ in range(100 * n)]),
        ('DataType', [{'cls': 'DataType', 'type': t, 'name': None} for t in sorted(_types())] +
         [gen_datatype(rng) for _ in range(250 * n)]),
        ('Header', [gen_header(rng) for _ in range(200 * n)]),
    ]
    for cls, specs in groups:
        reader = MODEL_CLASSES[cls](L).from_dict
        ds = real_dicts(specs)
        _model_rt(ctx, 'rt_' + cls, cls, ds, reader)
        muts = []
        for d in ds:
            muts += _mutations(d, rng, 2)
        # nested mutations for headers
        if cls == 'Header':
            for d in ds[:len(ds) // 2]:
                v = copy.deepcopy(d)
                sub = rng.choice(['data_type', 'analysis_period'])
                # (no string replacement inside a header: a changed class would change the unit list)
                v[sub] = _mutations(v[sub], rng, 1, strings=False)[0]
                muts.append(v)
        _model_rt(ctx, 'rtmut_' + cls, cls, muts, reader)

    # AnalysisPeriod: constructor-level dictionaries (falsy values, clipping, rejections)
    apd = []
    for _ in range(400 * n):
        keys = ['st_month', 'st_day', 'st_hour', 'end_month', 'end_day', 'end_hour', 'timestep', 'is_leap_year']
        d = {}
        for k in keys:
            r = rng.random()
            if r < 0.15:
                continue
            if k == 'is_leap_year':
                d[k] = rng.choice([True, False, None])
            elif r < 0.25:
                d[k] = rng.choice([0, None])
            elif 'month' in k:
                d[k] = rng.choice([1, 2, 12, 13, rng.randrange(1, 13)])
            elif 'day' in k:
                d[k] = rng.choice([1, 28, 29, 30, 31, 32, rng.randrange(1, 32)])
            elif 'hour' in k:
                d[k] = rng.choice([0, 23, 24, rng.randrange(24)])
            else:
                d[k] = rng.choice(TIMESTEPS + (7, 0, 120))
        apd.append(d)
    _model_rt(ctx, 'rtctor_AnalysisPeriod', 'AnalysisPeriod', apd, L['ap'].AnalysisPeriod.from_dict)

    # AnalysisPeriod text form and copy
    aps = [gen_ap(rng)['args'] for _ in range(300 * n)]

    def nat8(a):
        return ' '.join(str(int(x)) for x in a)

    def show_ap(p):
        return 'ok %d %d %d %d %d %d %d %d' % (p.st_month, p.st_day, p.st_hour, p.end_month, p.end_day,
                                               p.end_hour, p.timestep, 1 if p.is_leap_year else 0)

    AP = L['ap'].AnalysisPeriod
    core.compare_batch(ctx, 'ap_str', aps, lambda a: 'ap_str ' + nat8(a),
                       lambda a: 'ok s' + _hx(str(AP(*a))), canon=canon_line)
    core.compare_batch(ctx, 'ap_copy', aps, lambda a: 'ap_copy ' + nat8(a),
                       lambda a: show_ap(AP(*a).duplicate()), canon=canon_line)
    texts = [str(AP(*a)) for a in aps[:len(aps) // 2]]
    texts += [t.upper() for t in texts[:20]] + [' ' + t + ' ' for t in texts[:20]]
    texts += ['1/1 to 12/31 between 0 and 23 @1', '1/1 to 2/30 between 0 and 23 @1', '1/1 to 12/31 between 0 and 23 @7',
              '13/1 to 12/31 between 0 and 23 @1', '1/1 to 12/31 between 0 and 24 @1', 'garbage', '',
              '1/1 to 12/31 between 0 and 23', '2/29 to 2/29 between 0 and 23 @1', '2/29 to 2/29 between 0 and 23 @1*']
    core.compare_batch(ctx, 'ap_parse', texts, lambda t: 'ap_parse ' + (_hx(t) or '00'),
                       lambda t: show_ap(AP.from_string(t)), canon=canon_line)

    # Location copy
    lds = real_dicts([gen_location(rng) for _ in range(150 * n)])
    core.compare_batch(ctx, 'loc_copy', lds, lambda d: 'loc_copy ' + wire(d),
                       lambda d: 'ok ' + wire(L['loc'].Location.from_dict(copy.deepcopy(d)).duplicate().to_dict()),
                       canon=canon_line, key=jdump)

    # data type naming helpers on every class name and on custom names
    names = sorted(_types()) + ['PM25', 'ABc', 'aB', 'x_Y', 'A1B']
    core.compare_batch(ctx, 'spaced', names, lambda s: 'spaced ' + _hx(s), lambda s: 'ok s' + _hx(_default_name(s)))
    tn = [_default_name(s) for s in names] + ['my custom name', 'dry bulb temperature', 'pm25 a1b', 'x', 'a  b', "it's"]
    core.compare_batch(ctx, 'titlekey', tn, lambda s: 'titlekey ' + _hx(s),
                       lambda s: 'ok s' + _hx(s.title().replace(' ', '')))

    # colour ranges, legend parameters, legends (3D / 2D properties are not modelled: only dictionaries
    # without these keys are sent to the model)
    def no_props(d):
        lp = d.get('legend_parameters') if isinstance(d.get('legend_parameters'), dict) else d
        return 'properties_3d' not in lp and 'properties_2d' not in lp

    def lpc_reader(d):
        back = L['lg'].LegendParametersCategorized.from_dict(copy.deepcopy(d))
        out = back.to_dict()
        if not d.get('category_names') or d.get('category_names') == {'type': 'Default'}:
            out['category_names'] = ('<generated>',)       # the text of generated names is not modelled
        return _Shim(out)

    def legend_specs():
        out = []
        for _ in range(120 * n):
            g = gen_legend(rng)
            if g['lp'] is not None and g['lp']['cls'] != 'LegendParameters':
                g['lp'] = gen_legendpar(rng)
            if g['lp'] is not None:
                g['lp'].pop('p3d', None)
                g['lp'].pop('p2d', None)
                g['lp'].pop('min', None)
                g['lp'].pop('max', None)
            out.append(g)
        return out

    lgroups = [
        ('ColorRange', [gen_colorrange(rng) for _ in range(200 * n)], L['col'].ColorRange.from_dict),
        ('LegendParameters', [gen_legendpar(rng) for _ in range(250 * n)], L['lg'].LegendParameters.from_dict),
        ('LegendParametersCategorized', [gen_legendpar_cat(rng) for _ in range(120 * n)], lpc_reader),
        ('Legend', legend_specs(), L['lg'].Legend.from_dict),
    ]
    crd = []
    for _ in range(200 * n):
        k = rng.choice([2, 3, 5])
        d = {'colors': [dict(zip('rgba', gen_color(rng))) for _ in range(k)]}
        if rng.random() < 0.2:
            d.pop('colors')
            k = 10
        m = rng.choice([1, 2, 2, 3, k])
        d['domain'] = [rng.choice([rng.randrange(-5, 50), float(rng.randrange(-5, 50)) / 4]) for _ in range(m)]
        if rng.random() < 0.15:
            d['domain'] = rng.choice([None, [], [0, 0]])
        if rng.random() < 0.8:
            d['continuous_colors'] = rng.random() < 0.5
        crd.append(d)
    _model_rt(ctx, 'rtctor_ColorRange', 'ColorRange', crd, L['col'].ColorRange.from_dict)

    for cls, specs, reader in lgroups:
        ds = [d for d in real_dicts(specs) if no_props(d)]
        _model_rt(ctx, 'rt_' + cls, cls, ds, reader)
        muts = []
        for d in ds:
            muts += [m for m in _mutations(d, rng, 2, strings=(cls != 'ColorRange')) if no_props(m)]
            if cls == 'Legend' and isinstance(d.get('legend_parameters'), dict) and rng.random() < 0.5:
                v = copy.deepcopy(d)
                v['legend_parameters'] = _mutations(v['legend_parameters'], rng, 1)[0]
                if no_props(v):
                    muts.append(v)
        _model_rt(ctx, 'rtmut_' + cls, cls, muts, reader)

    # design-day conditions, design days, DDY
    parts = [gen_designday_parts(rng) for _ in range(150 * n)]
    dgroups = [
        ('DryBulbCondition', [p_[0] for p_ in parts], L['dd'].DryBulbCondition.from_dict),
        ('HumidityCondition', [p_[1] for p_ in parts], L['dd'].HumidityCondition.from_dict),
        ('WindCondition', [p_[2] for p_ in parts], L['dd'].WindCondition.from_dict),
        ('SkyCondition', [p_[3] for p_ in parts], L['dd']._SkyCondition.from_dict),
        ('DesignDay', [gen_designday(rng) for _ in range(80 * n)], L['dd'].DesignDay.from_dict),
    ]
    ddys = []
    for _ in range(25 * n):
        loc = gen_location(rng)
        ddys.append({'cls': 'DDY', 'location': loc,
                     'days': [gen_designday(rng, loc) for _ in range(rng.choice([1, 2, 3]))]})
    dgroups.append(('DDY', ddys, L['ddy'].DDY.from_dict))
    for cls, specs, reader in dgroups:
        ds = real_dicts(specs)
        _model_rt(ctx, 'rt_' + cls, cls, ds, reader)
        muts = []
        for d in ds:
            muts += _mutations(d, rng, 2, strings=(cls in ('HumidityCondition', 'DesignDay')))
            if cls == 'DesignDay' and rng.random() < 0.6:
                v = copy.deepcopy(d)
                sub = rng.choice(['dry_bulb_condition', 'humidity_condition', 'wind_condition',
                                  'sky_condition', 'location'])
                v[sub] = _mutations(v[sub], rng, 1, strings=False)[0]
                muts.append(v)
        _model_rt(ctx, 'rtmut_' + cls, cls, muts, reader)

    # Wea: annual, partial continuous, discontinuous (few: the dictionaries are large)
    wspecs = [{'cls': 'Wea', 'location': gen_location(rng), 'annual': True, 'timestep': 1, 'leap': False}]
    if not ctx.quick:
        wspecs.append({'cls': 'Wea', 'location': gen_location(rng), 'annual': True, 'timestep': 2, 'leap': True})
    for _ in range(6 * n):
        m = rng.randrange(1, 13)
        d0 = rng.randrange(1, 27)
        full = rng.random() < 0.5
        sh, eh = (0, 23) if full else (rng.randrange(0, 12), rng.randrange(12, 24))
        wspecs.append({'cls': 'Wea', 'location': gen_location(rng), 'annual': False,
                       'ap': {'cls': 'AnalysisPeriod', 'args': [m, d0, sh, m, d0 + rng.choice([0, 1, 2]), eh,
                                                                 rng.choice([1, 1, 2, 4]), False]}})
    # round 5: steps in an order that is not the calendar's / that do not fill the spanned period (the reader's
    # fallback branch; theorem C07_Wea_steps_in_any_order) - built through the constructor and the selections
    for how in ('wrap', 'shuffled', 'reversed'):
        ts_, lp_ = rng.choice([(1, False), (1, False), (2, True), (rng.choice(TIMESTEPS), rng.random() < 0.5)])
        wspecs.append({'cls': 'Wea', 'location': gen_location(rng), 'annual': False, 'ctor': gen_wea_ctor(rng, how, ts_, lp_)})
        ctx.count('corr:wea_steps_' + how)
    wspecs.append({'cls': 'Wea', 'location': gen_location(rng), 'annual': True, 'timestep': 1, 'leap': False,
                   'sel': [{'k': 'ap', 'args': [12, rng.randrange(20, 31), 0, 1, rng.randrange(1, 9), 23, 1, False]},
                           {'k': 'pattern', 'pattern': [rng.random() < 0.6 for _ in range(7)] + [True]}]})
    wspecs.append({'cls': 'Wea', 'location': gen_location(rng), 'annual': True, 'timestep': 1, 'leap': False,
                   'sel': [{'k': 'hoys', 'hoys': rng.sample(range(8760), rng.randrange(2, 9))}]})
    wspecs.append({'cls': 'Wea', 'location': gen_location(rng), 'annual': True, 'timestep': 1, 'leap': False,
                   'sel': [{'k': 'ap', 'args': [12, 30, 8, 1, 2, 16, 1, False]}]})
    wds = real_dicts(wspecs)
    _model_rt(ctx, 'rt_Wea', 'Wea', wds, L['wea'].Wea.from_dict)
    wm = []
    for d in wds:
        if len(d['direct_normal_irradiance']) > 2000 and ctx.quick and wm:
            continue
        for v in _mutations(d, rng, 3, strings=False):
            if v.get('timestep', 1) is None or v.get('timestep', 1) not in TIMESTEPS:
                v['timestep'] = 1          # a null / odd timestep takes constructor paths that are not modelled
            wm.append(v)
        v = copy.deepcopy(d)
        if 'datetimes' in v and rng.random() < 0.7:
            r = rng.random()
            if r < 0.4:
                v['datetimes'] = v['datetimes'][:-1]
            elif r < 0.7:
                v['direct_normal_irradiance'] = v['direct_normal_irradiance'][:-1]
            else:
                v['is_leap_year'] = True
            wm.append(v)
        if 'datetimes' in d and len(d['datetimes']) > 2:
            # round 5: the same steps in another order (values with them): reversed, rotated, two swapped
            n_ = len(d['datetimes'])
            for perm in (list(range(n_ - 1, -1, -1)), list(range(1, n_)) + [0],
                         [n_ - 1] + list(range(1, n_ - 1)) + [0]):
                v = copy.deepcopy(d)
                for k_ in ('datetimes', 'direct_normal_irradiance', 'diffuse_horizontal_irradiance'):
                    v[k_] = [d[k_][i_] for i_ in perm]
                wm.append(v)
    _model_rt(ctx, 'rtmut_Wea', 'Wea', wm, L['wea'].Wea.from_dict)

    # text forms: str.split, data-type text, CSV header strings
    seps = [' | ', ': ', ',']
    pieces = ['', 'a', 'k: v', 'x | y', 'p |', '| q', ' ', 'a: b: c', 'city: Boston', ' |', '|', ': ', 'a,b', u'Kö: ln']
    scases = []
    for _ in range(400 * n):
        sep = rng.choice(seps)
        k = rng.randrange(0, 5)
        txt = rng.choice(seps + ['', ' ']).join(rng.choice(pieces) for _ in range(k))
        scases.append((sep, txt))
    core.compare_batch(ctx, 'split', scases, lambda c: 'split %s %s' % (_hx(c[0]), _hx(c[1]) or '00'),
                       lambda c: 'ok ' + wire(c[1].split(c[0])), canon=canon_line, key=repr)
    tcases = [_default_name(t) for t in sorted(_types())] + [t for t in sorted(_types())][:30] + \
        ['dry bulb temperature', 'Foo | bar', 'Foo', 'a | b | c', 'Foo | bar | 0 | 1 | F | None | True | False',
         'Temperature | C', 'x | ', ' | y', '']
    core.compare_batch(ctx, 'dt_text', tcases, lambda t: 'dt_text ' + (_hx(t) or '00'),
                       lambda t: 'ok ' + wire(L['DataTypeBase'].from_string(t).to_dict()),
                       canon=canon_line, key=repr)
    hcases = []
    for _ in range(300 * n):
        h = gen_header(rng)
        md = h.get('meta')
        if md and any(isinstance(v, (float, list, dict)) for v in md.values()):
            md = {k: v for k, v in md.items() if not isinstance(v, (float, list, dict))}
            h['meta'] = md
        if rng.random() < 0.25:
            h['meta'] = dict(rng.sample([('a', 'p |'), ('b', '| q'), ('c: d', 'e'), ('f', ''), ('', 'g'),
                                         ('h', 'i: j'), ('k', ' | '), ('l', 'm')], rng.randrange(1, 4)))
        hcases.append((rng.random() < 0.5, h))
    hd = []
    for per_row, hs in hcases:
        try:
            hd.append((per_row, json.loads(json.dumps(build(hs).to_dict()))))
        except Exception:
            ctx.count('spec_not_constructible')

    def impl_csv(c):
        h = L['hd'].Header.from_dict(copy.deepcopy(c[1]))
        back = L['hd'].Header.from_csv_strings(h.to_csv_strings(c[0]), h.analysis_period)
        return 'ok ' + wire(back.to_dict())

    outs = core.compare_batch(ctx, 'hdr_csv', hd, lambda c: 'hdr_csv %s %s' % ('1' if c[0] else '0', wire(c[1])),
                              impl_csv, canon=lambda l: 'skip' if l == 'skip' else canon_line(l), key=repr)

    # collections: every class and immutable twin
    for kind in sorted(COLL_CLASSES):
        for imm in (False, True):
            specs = [gen_collection(rng, kind, imm) for _ in range(30 * n)]
            mod = L['dci'] if imm else L['dc']
            reader = getattr(mod, COLL_CLASSES[kind][1 if imm else 0]).from_dict
            ds = real_dicts(specs)
            tag = kind + ('_imm' if imm else '')
            _model_rt(ctx, 'rt_' + tag, tag, ds, reader)
            muts = []
            for d in ds:
                muts += _mutations(d, rng, 1)
                v = copy.deepcopy(d)
                r = rng.random()
                if r < 0.3:
                    v['values'] = v['values'][:-1]
                elif r < 0.5:
                    v['type'] = rng.choice(sorted(COLL_CLASSES))
                elif r < 0.7 and 'datetimes' in v and v['datetimes']:
                    v['datetimes'] = v['datetimes'][1:] + v['datetimes'][:1]
                else:
                    v['header'] = _mutations(v['header'], rng, 1, strings=False)[0]
                muts.append(v)
            _model_rt(ctx, 'rtmut_' + tag, tag, muts, reader)

    _file_correspondence(ctx, L, rng, n)
    _csv_series_correspondence(ctx, L, rng, n)
    _hist_correspondence(ctx, L, rng, n)


def _file_correspondence(ctx, L, rng, n):
    """Round 4: series of collections in JSON / pickle files (Model/Serial/Files.lean, theorems
    C07_json_file*, C07_read_as_mutable).  The real writers get the series in every container shape
    (list, tuple, generator, iterator, map, filter, deque); the model takes the list of the elements:
    the file must hold one dictionary per element, in order, and each dictionary - of either twin -
    read by the mutable class of its `type` (`_dict_to_collection`) must be what the model's mutable
    reader gives."""
    du = L['du']
    tmp = tempfile.mkdtemp(prefix='c07f_')
    try:
        for kind in sorted(COLL_CLASSES):
            dicts = []
            for shp in SHAPES:
                for form in ('json', 'pkl'):
                    specs = [gen_collection(rng, kind, rng.random() < 0.5) for _ in range(rng.choice([1, 2, 3]))]
                    try:
                        xs = [build(s_) for s_ in specs]
                    except Exception:
                        ctx.count('spec_not_constructible')
                        continue
                    want = [json.loads(json.dumps(x.to_dict())) for x in xs]
                    inp = {'kind': kind, 'shape': shp, 'form': form, 'specs': specs}
                    ctx.count('file_corr:%s:%s' % (form, shp))
                    try:
                        path = getattr(du, 'collections_to_' + form)(_shp(xs, shp), tmp, 'f_%s_%s' % (kind, shp))
                        if form == 'json':
                            with open(path) as f:
                                got = json.load(f)
                        else:
                            with open(path, 'rb') as f:
                                got = json.loads(json.dumps(pickle.load(f)))
                    except Exception as e:
                        got = 'raises %s' % type(e).__name__
                    ctx.case(('file_series', form, shp, jdump(want)), True)
                    if got != want:
                        # model: encFile xs = the list of the dictionaries of the elements
                        ctx.disagree('file_series', inp, 'ok %d dictionaries: %s' % (len(want), jdump(want)[:300]),
                                     ('ok %d dictionaries: %s' % (len(got), jdump(got)[:300])) if isinstance(got, list) else got)
                    elif form == 'json':
                        dicts += got
            _model_rt(ctx, 'rt_file_' + kind, kind, dicts, du._dict_to_collection)
    finally:
        shutil.rmtree(tmp, ignore_errors=True)


def _csv_series_correspondence(ctx, L, rng, n):
    """Round 6: the header block of ONE CSV file that several collections share (Model/Serial/Csv.lean:
    csvLayout / csvColumns / Hdr.csvSeries; theorems C07_csv_column_is_members_own, C07_csv_series_partial).
    The model computes the layout flag from the metadata sizes of the members and reads every member's own
    column back; the real side writes the series with collections_to_csv, takes the layout from the number of
    header rows of the file and the headers from collections_from_csv."""
    du = L['du']
    tmp = tempfile.mkdtemp(prefix='c07s_')
    cases = []
    for r in range(4 * n):
        for how in SERIES_STRATA:
            ms = gen_series(rng, how)
            if rng.random() < 0.2:               # values that are not text are written with str(): read back as text
                for m_ in ms:
                    if m_['header']['meta']:
                        k0 = sorted(m_['header']['meta'])[0]
                        m_['header']['meta'][k0] = rng.choice([7, True, None, -3])
            ctx.count('csv_series:' + how)
            cases.append({'series': how, 'members': ms})
    live = []
    for c in cases:
        try:
            c['dicts'] = [json.loads(json.dumps(build(m_['header']).to_dict())) for m_ in c['members']]
            live.append(c)
        except Exception:
            ctx.count('spec_not_constructible')

    def impl(c):
        xs = [build(m_) for m_ in c['members']]
        path = du.collections_to_csv(xs, tmp, 's')
        with open(path) as f:
            rows = [ln.rstrip('\n').split(',') for ln in f]
        n_head = next(i for i, row in enumerate(rows) if row[0] in COLL_CLASSES) + 2
        back = du.collections_from_csv(path)
        return 'ok ' + wire([n_head != 3, [b.header.to_dict() for b in back]])

    def cn(line):
        if line == 'skip':
            return 'skip'
        if line.startswith('ok '):
            try:
                v = unwire(line[3:].split(' '))[0]
                if any(h is None for h in v[1][1][1]):
                    return 'err:'                # a column that does not read back: the reader raises
            except Exception:
                pass
        return canon_line(line)
    try:
        core.compare_batch(ctx, 'csv_series', live, lambda c: 'csv_series ' + wire(c['dicts']), impl, canon=cn,
                           key=lambda c: jdump(c['dicts']))
    finally:
        shutil.rmtree(tmp, ignore_errors=True)


def _hist_correspondence(ctx, L, rng, n):
    """Histories on ONE object, step by step: the object state machine of Model/Serial/Hist.lean
    (state = public state, refused operation = unchanged state) against the real object.  After every
    step: accepted / refused, the dictionary the object writes, and the value of the read."""
    cases = []
    specs = [gen_location(rng) for _ in range(120 * n)]
    for kind in sorted(COLL_CLASSES):
        for imm in (False, False, True):
            specs += [gen_collection(rng, kind, imm, generic=rng.random() < 0.2) for _ in range(8 * n)]
    for spec in specs:
        c = spec['cls']
        pool = [p_ for p_ in _hist_pool(rng, spec) if p_[0] not in ('city', 'station_id', 'source')]
        ops = []
        for _ in range(rng.choice([2, 4, 7, 10])):
            r = rng.random()
            if r < 0.6:
                attr, good, bad = rng.choice(pool)
                v = rng.choice(bad) if (bad and rng.random() < 0.4) else rng.choice(good)
                v = v['plain'] if isinstance(v, dict) and 'plain' in v else v
                if c == 'Location' and attr == 'elevation' and isinstance(v, float) and v == 0 and math.copysign(1, v) < 0:
                    v = 0.0
                ops.append(['set', attr, v])
            elif r < 0.7 and c == 'Location':
                a = rng.choice(['city', 'state', 'country', 'station_id', 'source'])
                ops.append(['set', a, rng.choice(['Lisbon', 'x', '085360'] + ([None] if a in ('station_id', 'source') else []))])
            elif r < 0.75 and c == 'Collection':
                k = len(spec['values'])
                ops.append(['setitem', rng.choice([0, -1, k - 1, k, -k, -k - 1, rng.randrange(k)]),
                            rng.choice([0, 0.0, 2.5, gen_float(rng)])])
            else:
                ops.append(['read', rng.choice(['dict', 'roundtrip', 'copy'])])
        cases.append((spec, ops))
    lines, live = [], []
    for spec, ops in cases:
        try:
            d0 = json.loads(json.dumps(build(spec).to_dict()))
            tag = 'Location' if spec['cls'] == 'Location' else spec['kind'] + ('_imm' if spec.get('immutable') else '')
            lines.append('hist %s %s %s' % (tag, wire(d0), wire(ops)))
            live.append((spec, ops, d0))
        except Exception:
            ctx.count('spec_not_constructible')
    outs = ctx.driver().run(lines)
    for (spec, ops, d0), line, mo in zip(live, lines, outs):
        rc = reader_class(spec, build(spec))
        x = rc.from_dict(copy.deepcopy(d0))       # the model starts from the object read from d0 as well
        real = []
        deferred = False
        for o in ops:
            before = jdump(x.to_dict())
            acc = True
            val = None
            try:
                if o[0] == 'set':
                    path = o[1].split('.')
                    setattr(_target(x, path[:-1]), path[-1], copy.deepcopy(o[2]))
                elif o[0] == 'setitem':
                    x[o[1]] = o[2]
                else:
                    if o[1] == 'dict':
                        val = x.to_dict()
                    elif o[1] == 'roundtrip':
                        val = rc.from_dict(json.loads(json.dumps(x.to_dict()))).to_dict()
                    else:
                        val = x.duplicate().to_dict()
            except Exception:
                acc = False
            if not acc and jdump(x.to_dict()) != before:
                # a refused operation that changed the object: the property oracle reports it (op `history`,
                # same generator; recorded findings C07-*-refused-assignment-sticks); the comparison of this
                # history stops here
                deferred = True
                ctx.count('hist_refused_changed:deferred_to_oracle')
                break
            # canonical snapshot at once (before 0c2fb64 to_dict handed out the object's own value list)
            real.append(canon([acc, x.to_dict()] + ([val] if (acc and o[0] == 'read') else [])))
        ctx.compared += 1
        ctx.count('op:hist_' + spec['cls'])
        ctx.count('hist_steps', len(real))
        ctx.case(('hist', line))
        if mo.startswith('ok '):
            try:
                mv = unwire(mo[3:].split(' '))[0][1]
            except Exception:
                mv = None
        else:
            mv = None
        if mv is None:
            ctx.disagree('hist', {'spec': spec, 'ops': ops}, mo[:300], 'real object built')
            continue
        for i, st in enumerate(real):
            want = st
            if i >= len(mv) or mv[i] != want:
                ctx.disagree('hist', {'spec': spec, 'ops': ops[:i + 1], 'step': i},
                             repr(mv[i] if i < len(mv) else None)[:600], repr(want)[:600])
                break

