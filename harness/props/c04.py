"""C04 — Analysis period enumerates exactly the time steps it describes.

Model: lean/Ladybug/Model/AP.lean (on Model/Cal.lean); theorems: lean/Ladybug/Props/C04.lean;
driver: drv_c04.  Tie: translator (Gen/ApTables from analysisperiod.py) + correspondence on the
ops below.  The oracle is an independent brute-force enumeration (plain integer minutes of the
year + stdlib datetime) written from the property statement.
"""
import calendar
import contextlib
import io
import json
from datetime import datetime, timedelta

from harness import core
from harness.core import compare_batch, err_name, run_oracle_cases

PROP = 'C04'
PROOF_MODULES = ['Ladybug.Props.C04']
GREP_MODULES = ['Ladybug.Py', 'Ladybug.Model.Cal', 'Ladybug.Gen.DtTables', 'Ladybug.Proofs.CalLemmas',
                'Ladybug.Model.AP', 'Ladybug.Gen.ApTables', 'Ladybug.Proofs.C04Lemmas',
                'Ladybug.Proofs.C04Listings', 'Ladybug.Proofs.C04Order', 'Ladybug.Drv.C04', 'Ladybug.DrvCore', 'Ladybug.Props.C08']
RULE = ('periods are drawn from the product of boundary sets: dates {1 Jan, 28/29 Feb, 1 Mar, 30/31 of a month, '
        '30/31 Dec, random}, hours {0,1,11,12,22,23,random}^2 (overnight included), all 12 timesteps, both leap '
        'flags, shapes {one day, few days, months, annual, reversed short (Dec->Jan), reversed long, same-day '
        'reversed}; about 10 % malformed (bad month/day/hour/timestep, None/0 arguments, clipped end days). '
        'The total number of enumerated steps per run is capped (correspondence: quick 1.2e6, thorough 1e7; oracle: 9e5 / 6e6; the thorough oracle adds a 1-in-6 lattice of all (st_hour, end_hour, timestep) triples on 5 short date pairs x 2 leap flags). A case is '
        'non-trivial when the constructor accepts it; distinct = distinct (op, 8 constructor arguments).')
TRUSTED_BASE = [
    'translator tools/extract/ap_tables.py: copies VALIDTIMESTEPS, NUMOFDAYSEACHMONTH(LEAP), MONTHNAMES',
    'modelled, not verified: CPython datetime += timedelta arithmetic inside one year is minute-of-year '
    'addition; timedelta(1/(24.0*ts)) is 60/ts minutes (checked for the 12 timesteps on every run); float hour '
    'comparisons in is_possible_hour are exact on the minute grid',
    'character-level __repr__/from_string (replace chain, split) is tied by correspondence only; theorem '
    'C04_repr_roundtrip_partial is at token level',
    'the model describes the code with fixes/C04_trailing_steps_window.patch and '
    'fixes/C04_months_per_hour_window.patch applied',
]
ASSUMPTIONS = [
    'reading of the statement: the daily hour window is the closed interval st_hour:00 .. end_hour:00 (through '
    'midnight when st_hour > end_hour), the window 0..23 is the whole day; the end moment is the end of the end '
    'hour; an end day beyond the month length is clipped to the last day (documented behaviour), not rejected',
    'CPython datetime is the reference calendar for the oracle',
]
LEVEL_TEXT = ('Machine-checked Lean 4 theorems over an executable model of analysisperiod.py: a minute of the year '
              'is enumerated iff it satisfies the independent predicate (in year, on the 60/timestep grid, time of '
              'day in the hour window, between start moment and end of the end hour, cyclically for wrapped '
              'periods) for every well-formed period, all 12 timesteps, both leap flags; the enumeration is '
              'strictly chronological from the start moment without repeats; len() (fast and slow path) equals '
              'its length (never 0); is_time_included agrees with it; doys_int and months_int are its days/months in list order (adjacent-dedup, wrapping periods included); months_per_hour is complete and sound, and its exact image when every listed month contains a whole day; constructor '
              'rejection and the dict / token-level text round trips. The class constants are regenerated from '
              'the source on every run and the model is compared with the real class on boundary-biased inputs.')
LEVEL_NOTE = ('Trusted: Lean kernel; axioms propext/Classical.choice/Quot.sound only; the constants extractor; the '
              'correspondence run (agreement on generated inputs only); CPython datetime/timedelta arithmetic; '
              'character-level text form tied by correspondence only. The model and theorems describe the code '
              'with the two C04 fix patches applied; on an unpatched tree the check reports the violation.')
TECHNIQUE = ('Lean 4 proof (induction on the enumeration loop, case split over the 12 timesteps, omega, reuse of '
             'the C08 calendar bijection) about a model tied to analysisperiod.py by regenerated constants and '
             'differential correspondence')

VALID_TS = (1, 2, 3, 4, 5, 6, 10, 12, 15, 20, 30, 60)


def extract(ctx):
    from tools.extract import ap_tables, dt_tables
    dt_tables.extract()
    ctx.tables = ap_tables.extract()


# ---------------------------------------------------------------------------------------------
# helpers


def _b(x):
    return '1' if x else '0'


def _tok(x):
    return 'N' if x is None else str(int(x))


def _line(op, c):
    return '%s %s %s' % (op, ' '.join(_tok(x) for x in c[:7]), _b(c[7]))


@contextlib.contextmanager
def _quiet():
    with contextlib.redirect_stdout(io.StringIO()):
        yield


def _mk(c):
    from ladybug.analysisperiod import AnalysisPeriod
    with _quiet():
        return AnalysisPeriod(*c)


def _days_in_year(leap):
    return 366 if leap else 365


def _mlen(leap, m):
    return calendar.monthrange(2016 if leap else 2017, m)[1]


def _doy(leap, m, d):
    y = 2016 if leap else 2017
    return (datetime(y, m, d) - datetime(y, 1, 1)).days + 1


def _steps_estimate(c):
    """Upper estimate of the number of enumerated steps (for the cost cap); 0 if not a plain valid case."""
    try:
        sm, sd, sh, em, ed, eh, ts, leap = c
        sm, sd, sh = sm or 1, sd or 1, sh or 0
        em, ed = em or 12, ed or 31
        eh = 23 if eh is None else eh
        ts = ts or 1
        ed = min(ed, _mlen(leap, em))
        a, b = _doy(leap, sm, sd), _doy(leap, em, ed)
        days = b - a + 1 if (a, sh) <= (b, eh) else _days_in_year(leap) - (a - b) + 1
        return max(days, 1) * 24 * ts
    except Exception:
        return 0


BOUNDARY_DATES = [(1, 1), (1, 2), (1, 31), (2, 1), (2, 28), (3, 1), (4, 30), (6, 30), (7, 1), (7, 31),
                  (11, 30), (12, 1), (12, 30), (12, 31)]
BOUNDARY_HOURS = [0, 1, 11, 12, 22, 23]


def _rand_date(rng, leap):
    r = rng.random()
    if leap and r < 0.12:
        return (2, 29)
    if r < 0.5:
        return rng.choice(BOUNDARY_DATES)
    m = rng.randrange(1, 13)
    return (m, rng.randrange(1, _mlen(leap, m) + 1))


def _date_from_doy(leap, k):
    y = 2016 if leap else 2017
    n = _days_in_year(leap)
    k = (k - 1) % n
    d = datetime(y, 1, 1) + timedelta(days=k)
    return (d.month, d.day)


def _rand_hours(rng):
    r = rng.random()
    if r < 0.25:
        return 0, 23
    if r < 0.7:
        return rng.choice(BOUNDARY_HOURS), rng.choice(BOUNDARY_HOURS)
    return rng.randrange(24), rng.randrange(24)


def _rand_ts(rng, big_ok=True):
    r = rng.random()
    if r < 0.35 or not big_ok:
        return rng.choice([1, 1, 2, 3, 4])
    return rng.choice(VALID_TS)


def _gen_valid(ctx, rng):
    """One valid period (8 constructor arguments) + its shape label."""
    leap = rng.random() < 0.5
    sh, eh = _rand_hours(rng)
    shape = rng.choice(['one-day', 'few-days', 'few-days', 'months', 'annual', 'rev-short', 'rev-short',
                        'rev-long', 'same-day', 'month-edge'])
    n = _days_in_year(leap)
    if shape == 'one-day':
        sm, sd = _rand_date(rng, leap)
        em, ed = sm, sd
        if sh > eh and rng.random() < 0.5:
            sh, eh = eh, sh
        ts = _rand_ts(rng)
    elif shape == 'same-day':          # start hour after end hour on the same day: wraps the whole year
        sm, sd = _rand_date(rng, leap)
        em, ed = sm, sd
        if sh == eh:
            sh, eh = 10, 8
        if sh < eh:
            sh, eh = eh, sh
        ts = rng.choice([1, 1, 1, 2, 3])
    elif shape == 'few-days':
        sm, sd = _rand_date(rng, leap)
        a = _doy(leap, sm, sd)
        b = min(n, a + rng.randrange(1, 5))
        em, ed = _date_from_doy(leap, b)
        ts = _rand_ts(rng)
    elif shape == 'month-edge':        # around a month boundary, incl. 28/29 Feb -> 1 Mar
        m = rng.randrange(1, 12)
        a = _doy(leap, m, _mlen(leap, m)) - rng.randrange(0, 2)
        sm, sd = _date_from_doy(leap, a)
        em, ed = _date_from_doy(leap, a + rng.randrange(1, 4))
        ts = _rand_ts(rng)
    elif shape == 'months':
        sm, sd = _rand_date(rng, leap)
        em, ed = _rand_date(rng, leap)
        if (sm, sd) > (em, ed):
            sm, sd, em, ed = em, ed, sm, sd
        ts = _rand_ts(rng, big_ok=False)
    elif shape == 'annual':
        sm, sd, em, ed = 1, 1, 12, 31
        if rng.random() < 0.5:
            sh, eh = 0, 23
        ts = _rand_ts(rng, big_ok=rng.random() < 0.15)
    elif shape == 'rev-short':         # late December -> early January
        a = n - rng.randrange(0, 4)
        b = rng.randrange(1, 4)
        sm, sd = _date_from_doy(leap, a)
        em, ed = _date_from_doy(leap, b)
        ts = _rand_ts(rng)
    else:                               # rev-long
        sm, sd = _rand_date(rng, leap)
        em, ed = _rand_date(rng, leap)
        if (sm, sd) < (em, ed):
            sm, sd, em, ed = em, ed, sm, sd
        ts = _rand_ts(rng, big_ok=False)
    return (sm, sd, sh, em, ed, eh, ts, leap), shape


def _gen_malformed(rng):
    leap = rng.random() < 0.5
    base = [rng.randrange(1, 13), rng.randrange(1, 29), rng.randrange(24),
            rng.randrange(1, 13), rng.randrange(1, 29), rng.randrange(24), rng.choice(VALID_TS)]
    kind = rng.choice(['ts', 'st_month', 'st_day', 'st_hour', 'end_month', 'end_day', 'end_hour', 'none',
                       'zero', 'clip', 'feb29'])
    if kind == 'ts':
        base[6] = rng.choice([7, 8, 9, 11, 13, 14, 24, 25, 40, 59, 61, 120, -1, -2, 100])
    elif kind == 'st_month':
        base[0] = rng.choice([13, 14, -1, -12, 100])
    elif kind == 'st_day':
        base[0] = rng.choice([2, 4, 6, 9, 11])
        base[1] = rng.choice([30, 31, 32, -1, 40]) if base[0] == 2 else rng.choice([31, 32, -1])
    elif kind == 'st_hour':
        base[2] = rng.choice([24, 25, -1, 100])
    elif kind == 'end_month':
        base[3] = rng.choice([13, 14, -1, -2, -11, -12, -13, 100])
    elif kind == 'end_day':
        base[4] = rng.choice([-1, -5, 32, 40, 31, 30, 29])
    elif kind == 'end_hour':
        base[5] = rng.choice([24, 25, -1, 100])
    elif kind == 'none':
        for i in range(7):
            if rng.random() < 0.4:
                base[i] = None
        base[6] = base[6] if base[6] in (None, 1, 2) else 1
        base[0], base[1] = (base[0] and 1), (base[1] and 1)
    elif kind == 'zero':
        for i in range(7):
            if rng.random() < 0.4:
                base[i] = 0
        base[6] = base[6] if base[6] in (0, 1, 2) else 1
        base[0], base[1] = (base[0] and 1), (base[1] and 1)
    elif kind == 'clip':
        base[0], base[1] = 1, 1
        base[3] = rng.choice([2, 4, 6, 9, 11])
        base[4] = rng.choice([29, 30, 31])
        base[6] = 1
    elif kind == 'feb29':
        base[0], base[1] = 2, 29
        base[3], base[4] = rng.choice([(2, 29), (3, 1), (12, 31)])
        base[6] = 1
    return tuple(base) + (leap,), 'malformed:' + kind


FIXED = [
    # the hand-picked periods of tests/analysisperiod_test.py and the witnesses of the two repaired defects
    (1, 1, 0, 12, 31, 23, 1, False), (1, 1, 0, 12, 31, 23, 1, True),
    (2, 21, 9, 2, 22, 17, 1, False), (1, 1, 0, 1, 1, 23, 4, False), (6, 21, 22, 6, 22, 5, 1, False),
    (12, 1, 0, 2, 28, 23, 1, False), (6, 1, 0, 2, 28, 23, 2, True),
    (12, 31, 0, 1, 1, 10, 2, False),          # trailing steps outside the window (repaired)
    (12, 30, 0, 1, 2, 22, 6, True),
    (1, 1, 9, 1, 1, 10, 2, False),            # months_per_hour sub-hourly (repaired)
    (1, 1, 22, 1, 2, 2, 1, False),            # months_per_hour overnight (repaired)
    (1, 31, 22, 2, 1, 2, 3, False),
    (1, 5, 10, 1, 5, 8, 1, False),            # same-day reversed
    (1, 1, 5, 1, 1, 23, 2, False), (1, 1, 0, 1, 1, 23, 60, True),
    (2, 28, 0, 3, 1, 23, 1, True), (2, 29, 12, 2, 29, 12, 5, True), (1, 1, 0, 2, 29, 23, 1, False),
    (12, 31, 23, 12, 31, 23, 60, False), (1, 1, 0, 1, 1, 0, 1, False), (12, 31, 23, 1, 1, 0, 4, True),
    (1, 1, 23, 12, 31, 0, 2, False),
    (None, None, None, None, None, None, None, False), (0, 0, 0, 0, 0, 0, 0, True),
    (1, 1, 0, 12, 31, None, 1, False),
    (1, 1, 0, 13, 1, 23, 1, False), (1, 1, 0, -1, 5, 23, 1, False), (1, 1, 0, -12, 5, 23, 1, False),
    (2, 30, 0, 12, 31, 23, 1, True), (1, 1, 24, 12, 31, 23, 1, False), (1, 1, 0, 12, 31, 23, 7, False),
    (1, 1, 0, 12, 31, 23, -1, False), (1, 1, 0, 12, 31, 24, 1, False), (1, 1, 0, 4, -1, 23, 1, False),
]


def _periods(ctx, n, cap, rng=None, malformed=0.1):
    """Fixed corpus + n generated periods; the estimated number of enumerated steps is capped:
    periods with more than 15000 steps may use 60 % of the cap, the rest is left to small ones."""
    rng = rng or ctx.rng
    out = []
    seen = set()
    used_big = used_small = 0
    for c in FIXED:
        out.append((c, 'fixed'))
        seen.add(c)
        used_big += _steps_estimate(c)
    tries = 0
    while len(out) < n + len(FIXED) and tries < 30 * n:
        tries += 1
        if rng.random() < malformed:
            c, shape = _gen_malformed(rng)
        else:
            c, shape = _gen_valid(ctx, rng)
        if c in seen:
            continue
        est = _steps_estimate(c)
        if est > 15000:
            if used_big + est > 0.6 * cap:
                continue
            used_big += est
        else:
            if used_small + est > 0.4 * cap:
                if est > 400:
                    continue
            used_small += est
        seen.add(c)
        out.append((c, shape))
    return out


def _chunks(cases, max_steps):
    """Split a case list so that each part enumerates at most max_steps steps (object cache size)."""
    part, used = [], 0
    for c in cases:
        est = _steps_estimate(c)
        if part and used + est > max_steps:
            yield part
            part, used = [], 0
        part.append(c)
        used += est
    if part:
        yield part


def _count_dist(ctx, cases):
    for c, shape in cases:
        ctx.count('shape:' + shape)
        if shape.startswith('malformed'):
            continue
        ctx.count('timestep:%s' % (c[6],))
        ctx.count('leap:%s' % _b(c[7]))
        try:
            sh, eh = c[2] or 0, (23 if c[5] is None else c[5])
            ctx.count('window:' + ('whole-day' if (sh, eh) == (0, 23) else 'overnight' if sh > eh else 'partial'))
        except TypeError:
            pass


# ---------------------------------------------------------------------------------------------
# correspondence


def _show_ap(ap):
    return 'ok %d %d %d %d %d %d %d %s %s %s %s %d %d %d' % (
        ap.st_month, ap.st_day, ap.st_hour, ap.end_month, ap.end_day, ap.end_hour, ap.timestep,
        _b(ap.is_leap_year), _b(ap.is_reversed), _b(ap.is_overnight), _b(ap.is_annual),
        ap.st_time.moy, ap.end_time.moy, _minutes(ap.minute_intervals))


def _minutes(td):
    s = td.total_seconds()
    if s != int(s) or int(s) % 60:
        return -1
    return int(s) // 60


def _show_list(xs):
    xs = list(xs)
    return ('ok %d ' % len(xs) + ' '.join(str(int(x)) for x in xs)).rstrip() if xs else 'ok 0 '


def _canon(s):
    return s.rstrip()


def correspondence(ctx):
    from ladybug.analysisperiod import AnalysisPeriod
    from ladybug.dt import DateTime
    rng = ctx.rng
    big = ctx.searching
    cases = _periods(ctx, ctx.n(1300, 10000) * (3 if big and ctx.quick else 1),
                     ctx.n(1.2e6, 1e7) * (3 if big and ctx.quick else 1))
    _count_dist(ctx, cases)
    cs = [c for c, _ in cases]
    key = lambda c: tuple(c)  # noqa: E731

    # minute_intervals of every valid timestep is 60 // ts minutes (modelling convention, DESIGN section 4)
    for ts in VALID_TS:
        ctx.compared += 1
        if _mk((1, 1, 0, 1, 1, 23, ts, False)).minute_intervals != timedelta(minutes=60 // ts):
            ctx.disagree('minute_intervals', {'timestep': ts}, '%d min' % (60 // ts),
                         str(_mk((1, 1, 0, 1, 1, 23, ts, False)).minute_intervals))

    for part in _chunks(cs, 1.5e6):
        _correspond_part(ctx, part, key)


def _correspond_part(ctx, cs, key):
    from ladybug.analysisperiod import AnalysisPeriod
    from ladybug.dt import DateTime
    rng = ctx.rng
    cache = {}

    def obj(c):
        if c not in cache:
            cache[c] = _mk(c)
        return cache[c]

    compare_batch(ctx, 'mk', cs, lambda c: _line('mk', c), lambda c: _show_ap(_mk(c)), canon=_canon, key=key)
    # len() on a fresh object (fast path where it applies) -- before anything touched moys
    compare_batch(ctx, 'len', cs, lambda c: _line('len', c), lambda c: 'ok %d' % len(_mk(c)), key=key)
    compare_batch(ctx, 'moys', cs, lambda c: _line('moys', c), lambda c: _show_list(obj(c).moys),
                  canon=_canon, key=key)
    compare_batch(ctx, 'hoys_int', cs, lambda c: _line('hoys_int', c), lambda c: _show_list(obj(c).hoys_int),
                  canon=_canon, key=key)
    small = [c for c in cs if 0 < _steps_estimate(c) <= 6000 or _steps_estimate(c) == 0]
    compare_batch(ctx, 'datetimes', small, lambda c: _line('datetimes', c),
                  lambda c: ('ok ' + ' '.join('%d-%d-%d-%d-%s' % (d.month, d.day, d.hour, d.minute, _b(d.leap_year))
                                              for d in obj(c).datetimes)), canon=_canon, key=key)
    compare_batch(ctx, 'doys', cs, lambda c: _line('doys', c), lambda c: _show_list(obj(c).doys_int),
                  canon=_canon, key=key)
    compare_batch(ctx, 'months', cs, lambda c: _line('months', c), lambda c: _show_list(obj(c).months_int),
                  canon=_canon, key=key)
    compare_batch(ctx, 'mph', cs, lambda c: _line('mph', c),
                  lambda c: 'ok ' + ' '.join('%d-%d-%d' % t for t in obj(c).months_per_hour),
                  canon=_canon, key=key)
    # hoys are the moys / 60.0 (floats compared exactly against the real moys)
    for c in cs[:60]:
        try:
            a = obj(c)
        except Exception:
            continue
        ctx.compared += 1
        if list(a.hoys) != [m / 60.0 for m in a.moys]:
            ctx.disagree('hoys', {'case': list(c)}, 'moys / 60.0', 'different')

    # membership probes: members, neighbours, off-grid, far away, past the year end
    pcases = []
    for c in cs:
        n = 1440 * _days_in_year(bool(c[7]))
        probes = set()
        try:
            sm, sd, sh = c[0] or 1, c[1] or 1, c[2] or 0
            base = (_doy(bool(c[7]), sm, sd) - 1) * 1440 + sh * 60
        except Exception:
            base = rng.randrange(n)
        for k in (-61, -60, -1, 0, 1, 5, 30, 59, 60, 61, 1380, 1410, 1439, 1440):
            probes.add((base + k) % n)
        for _ in range(10):
            probes.add(rng.randrange(n))
        for k in (0, 1, 59, 60, n - 60, n - 30, n - 1, 23 * 60 + 30):
            probes.add(k)
        pcases.append(tuple(c) + tuple(sorted(probes)))

    def impl_included(pc):
        a = obj(pc[:8])
        leap = bool(pc[7])
        return 'ok ' + ''.join(_b(a.is_time_included(DateTime.from_moy(m, leap))) for m in pc[8:])

    compare_batch(ctx, 'included', pcases,
                  lambda pc: _line('included', pc[:8]) + ' ' + ' '.join(str(m) for m in pc[8:]),
                  impl_included, key=lambda pc: tuple(pc))
    mods = list(range(0, 1440, 15)) + [1, 59, 61, 1381, 1399, 1439, 23 * 60 + 1] + [rng.randrange(1440) for _ in range(8)]
    pc2 = [tuple(c) + tuple(mods) for c in cs[:ctx.n(300, 600)]]
    compare_batch(ctx, 'possible', pc2,
                  lambda pc: _line('possible', pc[:8]) + ' ' + ' '.join(str(m) for m in pc[8:]),
                  lambda pc: 'ok ' + ''.join(_b(obj(pc[:8]).is_possible_hour(m / 60.0)) for m in pc[8:]),
                  key=lambda pc: tuple(pc[:8]))

    # serial forms
    compare_batch(ctx, 'repr', cs, lambda c: _line('repr', c), lambda c: 'ok ' + repr(obj(c)), key=key)
    compare_batch(ctx, 'to_dict', cs, lambda c: _line('to_dict', c), lambda c: _show_dict(obj(c).to_dict()), key=key)
    compare_batch(ctx, 'duplicate', cs, lambda c: _line('duplicate', c),
                  lambda c: _show_ap(_quiet_call(obj(c).duplicate)), canon=_canon, key=key)
    strs = []
    for c in cs:
        sm, sd, sh, em, ed, eh, ts, leap = [1 if x is None else x for x in c]
        s = '%s/%s to %s/%s between %s and %s @%s%s' % (sm, sd, em, ed, sh, eh, ts, '*' if leap else '')
        r = rng.random()
        if r < 0.15:
            s = s.upper().replace(' ', '  ')
        elif r < 0.25:
            s = s.replace(' ', '')
        strs.append(s)
    strs += ['1/1 to 12/31 between 0 and 23 @1', '1/1 to 12/31 between 0 and 23', '', '*', 'x',
             '1/1 to 2/30 between 0 and 23 @1', '/1 to 12/31 between 0 and 23 @1', '1/1 to /31 between 0 and 23 @1*',
             '1/1 to 12/31 between 0 and 23 @0', '1/1 to 12/31 between 0 and 23 @7', '0/1 to 12/31 between 0 and 23 @1',
             '1/1 to 12/31 between 0 and  @1', '1/1 to 12/31 between 0 and 23 @', '1/1 to 13/31 between 0 and 23 @1',
             '1/1 to 12/31 between 0 and 23 @1 *', '1/1 to 12/31 between 0 and 23 @1* ',
             '6/21 to 3/20 between 22 and 5 @4*', '1/1 to 12/31 between -1 and 23 @1']
    compare_batch(ctx, 'from_string', strs, lambda s: 'from_string ' + s,
                  lambda s: _show_ap(_quiet_call(AnalysisPeriod.from_string, s)), canon=_canon)
    dcases = []
    for c in cs:
        keys = ['st_month', 'st_day', 'st_hour', 'end_month', 'end_day', 'end_hour', 'timestep', 'is_leap_year']
        vals = list(c[:7]) + [1 if c[7] else 0]
        kv = list(zip(keys, vals))
        rng.shuffle(kv)
        if rng.random() < 0.35:
            kv = [p for p in kv if rng.random() < 0.7]
        dcases.append(tuple(kv))

    def impl_from_dict(kv):
        d = {k: (None if v is None else (bool(v) if k == 'is_leap_year' else v)) for k, v in kv}
        return _show_ap(_quiet_call(AnalysisPeriod.from_dict, d))

    compare_batch(ctx, 'from_dict', dcases,
                  lambda kv: ('from_dict ' + ' '.join('%s=%s' % (k, _tok(v)) for k, v in kv)).rstrip(),
                  impl_from_dict, canon=_canon, key=lambda kv: tuple(kv))


def _quiet_call(f, *a):
    with _quiet():
        return f(*a)


def _show_dict(d):
    order = ['st_month', 'st_day', 'st_hour', 'end_month', 'end_day', 'end_hour', 'timestep', 'is_leap_year']
    if d.get('type') != 'AnalysisPeriod':
        return 'ok type=%r' % (d.get('type'),)
    return 'ok ' + ' '.join('%s=%d' % (k, int(d[k])) for k in order if k in d)


# ---------------------------------------------------------------------------------------------
# property oracle: the statement of C04 evaluated on the real class, independent of the model


def _expected(sm, sd, sh, em, ed, eh, ts, leap):
    """Brute-force enumeration from the statement: grid steps from the start moment to the end of the
    end hour (cyclically when the start is after the end) whose time of day is in the hour window."""
    n = 1440 * _days_in_year(leap)
    step = 60 // ts
    s = (_doy(leap, sm, sd) - 1) * 1440 + sh * 60
    e = (_doy(leap, em, ed) - 1) * 1440 + eh * 60

    def in_window(mod):
        if sh <= eh:
            return sh * 60 <= mod <= eh * 60 or (sh == 0 and eh == 23)
        return mod >= sh * 60 or mod <= eh * 60

    if s <= e:
        spans = [(s, e + 59)]
    else:
        spans = [(s, n - 1), (0, e + 59)]
    out = []
    for a, b in spans:
        first = -(-a // step) * step
        out.extend(m for m in range(first, b + 1, step) if in_window(m % 1440))
    return out


def _dedup_adjacent(xs):
    out = []
    for x in xs:
        if not out or out[-1] != x:
            out.append(x)
    return out


def _normalise(args):
    """The period the constructor is documented to build: defaults for missing (None/0) arguments,
    end day clipped to the month length.  None when the arguments are invalid (must be rejected)."""
    sm, sd, sh, em, ed, eh, ts, leap = args
    leap = bool(leap)
    sm, sd, sh = sm or 1, sd or 1, sh or 0
    em, ed = em or 12, ed or 31
    eh = 23 if eh is None else eh
    ts = ts or 1
    if ts not in VALID_TS or not (1 <= sm <= 12 and 1 <= em <= 12 and 0 <= sh <= 23 and 0 <= eh <= 23):
        return None
    if not (1 <= sd <= _mlen(leap, sm)) or ed < 1:
        return None
    ed = min(ed, _mlen(leap, em))
    return sm, sd, sh, em, ed, eh, ts, leap


def check_case(op, inp):
    from ladybug.analysisperiod import AnalysisPeriod
    from ladybug.dt import DateTime
    args = tuple(inp['args'])
    norm = _normalise(args)
    base = {}
    if op == 'reject':
        if norm is not None:
            return None
        try:
            a = _mk(args)
        except (ValueError, IndexError):
            return None
        except Exception as e:
            return {'required': 'ValueError', 'observed': repr(e), 'sig': {'what': 'reject-class'}}
        return {'required': 'invalid arguments rejected', 'observed': repr(a), 'sig': {'what': 'reject'}}
    if norm is None:
        return None
    sm, sd, sh, em, ed, eh, ts, leap = norm
    base = {'reversed': (sm, sd, sh) > (em, ed, eh), 'overnight': sh > eh, 'sub_hourly': ts > 1, 'leap': leap,
            'whole_day': (sh, eh) == (0, 23)}

    def bad(what, required, observed):
        return {'required': required, 'observed': observed, 'sig': dict(base, what=what)}

    def brief(xs, ys):
        xs, ys = list(xs), list(ys)
        i = next((i for i, (x, y) in enumerate(zip(xs, ys)) if x != y), min(len(xs), len(ys)))
        return 'len %d, from index %d: %s' % (len(xs), i, xs[max(0, i - 2):i + 4])

    if op == 'period':
        exp = _expected(*norm)
        fresh_len = len(_mk(args))
        if fresh_len != len(exp):
            return bad('len_fresh', len(exp), fresh_len)
        a = _mk(args)
        got = (a.st_month, a.st_day, a.st_hour, a.end_month, a.end_day, a.end_hour, a.timestep, a.is_leap_year)
        if got != norm:
            return bad('fields', norm, got)
        if a.is_reversed != base['reversed'] or a.is_overnight != base['overnight']:
            return bad('flags', (base['reversed'], base['overnight']), (a.is_reversed, a.is_overnight))
        moys = list(a.moys)
        if moys != exp:
            return bad('moys', brief(exp, moys), brief(moys, exp))
        if len(a) != len(exp):
            return bad('len', len(exp), len(a))
        y = 2016 if leap else 2017
        jan1 = datetime(y, 1, 1)
        dts = a.datetimes
        if len(dts) != len(exp):
            return bad('datetimes', len(exp), len(dts))
        idx = range(len(exp)) if len(exp) <= 4000 else \
            sorted(set(list(range(50)) + list(range(len(exp) - 50, len(exp))) + list(range(0, len(exp), 97))))
        for i in idx:
            r = jan1 + timedelta(minutes=exp[i])
            d = dts[i]
            if (d.month, d.day, d.hour, d.minute, d.leap_year) != (r.month, r.day, r.hour, r.minute, leap) \
                    or d.moy != exp[i]:
                return bad('datetimes', str(r), str(d))
        if list(a.hoys) != [m / 60.0 for m in exp]:
            return bad('hoys', 'moys/60', 'different')
        if list(a.hoys_int) != [m // 60 for m in exp]:
            return bad('hoys_int', 'moys//60', 'different')
        # membership test agrees with the enumeration
        members = set(exp)
        n = 1440 * _days_in_year(leap)
        probes = set(inp.get('probes', []))
        for m in exp[:3] + exp[-3:] + exp[len(exp) // 2:len(exp) // 2 + 2]:
            probes.update(((m + k) % n) for k in (-60, -1, 0, 1, 60 // ts, 60, 1440))
        probes.update((0, n - 1, n - 60 // ts))
        for m in sorted(probes):
            inc = a.is_time_included(DateTime.from_moy(m, leap))
            if inc != (m in members):
                return bad('included', '%d -> %s' % (m, m in members), '%d -> %s' % (m, inc))
        # listings
        doys = _dedup_adjacent(m // 1440 + 1 for m in exp)
        if list(a.doys_int) != doys:
            return bad('doys_int', brief(doys, a.doys_int), brief(a.doys_int, doys))
        months = _dedup_adjacent((jan1 + timedelta(minutes=m)).month for m in exp[::max(1, ts)] + exp[-1:])
        if list(a.months_int) != months:
            return bad('months_int', months, list(a.months_int))
        mph = list(a.months_per_hour)
        want = set()
        for m in exp:
            r = jan1 + timedelta(minutes=m)
            want.add((r.month, r.hour, r.minute))
        missing = sorted(want - set(mph))
        if missing:
            return bad('months_per_hour_missing', 'contains %s' % (missing[:4],), 'len %d: %s' % (len(mph), mph[:6]))
        tods = set((t[1], t[2]) for t in want)
        # every listed entry is a (month of the period) x (time of day of the window, on the grid)
        all_tods = set((m // 60, m % 60) for m in range(0, 1440, 60 // ts)
                       if ((sh * 60 <= m <= eh * 60 or (sh, eh) == (0, 23)) if sh <= eh
                           else (m >= sh * 60 or m <= eh * 60)))
        spurious = [t for t in mph if t[0] not in set(months) or (t[1], t[2]) not in all_tods]
        if spurious:
            return bad('months_per_hour_spurious', 'only window steps of the period months', spurious[:4])
        if len(set(months)) == len(months) and len(set(mph)) != len(mph):
            return bad('months_per_hour_duplicates', 'each entry once', len(mph) - len(set(mph)))
        del tods
        return None
    if op == 'forms':
        a = _mk(args)
        try:
            b = _quiet_call(AnalysisPeriod.from_string, str(a))
            ok, obs = (b == a and b.is_leap_year == a.is_leap_year and b.timestep == a.timestep), str(b)
        except Exception as e:
            ok, obs = False, 'raises %s' % type(e).__name__
        if not ok:
            return bad('text_roundtrip', str(a), obs)
        try:
            b = _quiet_call(AnalysisPeriod.from_dict, json.loads(json.dumps(a.to_dict())))
            ok, obs = (b == a and b.is_leap_year == a.is_leap_year and b.timestep == a.timestep), str(b)
        except Exception as e:
            ok, obs = False, 'raises %s' % type(e).__name__
        if not ok:
            return bad('dict_roundtrip', str(a), obs)
        b = _quiet_call(a.duplicate)
        if b != a or hash(b) != hash(a):
            return bad('duplicate', str(a), str(b))
        return None
    raise ValueError('unknown op ' + op)


replay = check_case


def _oracle_cases(ctx):
    rng = ctx.rng
    big = ctx.searching or not ctx.quick
    n = 5000 if big else 700
    cap = 6e6 if big else 9e5
    if ctx.searching and ctx.quick:
        n, cap = 2500, 3e6
    cases = _periods(ctx, n, cap, rng=rng, malformed=0.12)
    for c, shape in cases:
        ctx.count('oracle_shape:' + shape)
        inp = {'args': list(c)}
        if _normalise(c) is None:
            yield 'reject', inp
        else:
            yield 'period', inp
            yield 'forms', inp
    if not ctx.quick:
        # all (st_hour, end_hour, timestep) triples on a few date pairs (short spans)
        pairs = [((1, 1), (1, 2)), ((2, 28), (3, 1)), ((12, 31), (1, 1)), ((12, 30), (12, 31)), ((6, 30), (6, 30))]
        for (a, b) in pairs:
            for leap in (False, True):
                for sh in range(24):
                    for eh in range(24):
                        for ts in VALID_TS:
                            if a == b and sh > eh:
                                continue      # same-day reversed = the whole year; covered by the 'same-day' shape
                            if (sh * 7 + eh * 5 + VALID_TS.index(ts)) % (3 if ctx.searching else 6) == 0:
                                yield 'period', {'args': [a[0], a[1], sh, b[0], b[1], eh, ts, leap]}


def oracle(ctx):
    run_oracle_cases(ctx, _oracle_cases(ctx), check_case)
